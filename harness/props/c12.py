"""C12 — apertures depend only on the physical points, not on the grid representation.

Oracle (model independent): the same physical points are presented to the real generator as
regular / separated / unstructured Cartesian and polar grids; values must agree pointwise, lie in
[0,1] for binary apertures (transmissions aside), also supersampled, and the returned Field must be
attached to the grid asked for.  A pointwise difference is forgiven only if the point is *on a
decision boundary*, which is established on the real code itself: the generator is re-evaluated on
the point displaced by 1e-7*scale in 16 directions and must change value somewhere.

Correspondence: the Lean model (`Model/Aperture.lean`) receives the same shape with the constants
the maker's closure computes (cos/sin/apothem as the exact rationals the floats are) and returns,
for the separated and the non-separated code path, the value at every point plus an exact
"near a decision boundary" flag (tolerance 1e-7*scale); flagged points are skipped and counted.
"""
import inspect
import itertools
import math
import warnings

import numpy as np

from harness.common import rat, rat_list, MachineryError, dyadic

REL_TOL = 1e-7
REPS = ('regular', 'separated', 'unstructured', 'polar')


# ---------------------------------------------------------------------------------------------
# grids: one physical point set, several representations

def make_reps(gspec):
    """gspec -> ({name: Grid}, xs, ys, (sep_xs, sep_ys) or None).  xs, ys: Cartesian coordinates of
    the points as float arrays (these exact floats go to the model)."""
    import hcipy
    kind = gspec[0]
    reps = {}
    sep = None
    if kind == 'regular':
        _, dims, delta, zero = gspec[:4]
        g = hcipy.CartesianGrid(hcipy.RegularCoords(np.array(delta, float), np.array(dims, int), np.array(zero, float)))
        op = gspec[4] if len(gspec) > 4 else None
        if op == 'reversed':
            g = g.reversed()
        elif op == 'scaled-1':
            g = g.scaled(-1)
        elif op == 'scaled-x':
            g = g.scaled(np.array([-1.0, 1.0]))
        elif op == 'scaled-y':
            g = g.scaled(np.array([1.0, -1.0]))
        elif op is not None:
            raise MachineryError('unknown grid operation %r' % (op,))
        if not g.is_regular:
            raise MachineryError('grid operation %r did not keep the grid regular' % (op,))
        reps['regular'] = g
        sx, sy = [np.array(c, float) for c in g.separated_coords]
        sep = (sx, sy)
    elif kind == 'sep':
        sx, sy = np.array(gspec[1], float), np.array(gspec[2], float)
        sep = (sx, sy)
    elif kind == 'alias-sep':
        # ONE ndarray object serves as both axes (an idiom hcipy uses itself, e.g. shack_hartmann.py)
        a = np.array(gspec[1], float)
        reps['separated'] = hcipy.CartesianGrid(hcipy.SeparatedCoords((a, a)))
        reps['separated-indep'] = hcipy.CartesianGrid(hcipy.SeparatedCoords((a.copy(), a.copy())))
        xs, ys = np.array(reps['separated-indep'].x), np.array(reps['separated-indep'].y)
        reps['unstructured'] = hcipy.CartesianGrid(hcipy.UnstructuredCoords([xs.copy(), ys.copy()]))
        reps['polar'] = reps['unstructured'].as_('polar')
        return reps, xs, ys, (a.copy(), a.copy())
    elif kind == 'alias-pts':
        # points on the diagonal: ONE ndarray object serves as both coordinate columns
        a = np.array(gspec[1], float)
        reps['unstructured'] = hcipy.CartesianGrid(hcipy.UnstructuredCoords((a, a)))
        reps['unstructured-indep'] = hcipy.CartesianGrid(hcipy.UnstructuredCoords((a.copy(), a.copy())))
        reps['polar'] = reps['unstructured-indep'].as_('polar')
        return reps, a.copy(), a.copy(), None
    elif kind == 'alias-regular':
        # delta and zero are ONE ndarray object
        _, n, dz = gspec
        a = np.array([dz, dz], float)
        g = hcipy.CartesianGrid(hcipy.RegularCoords(a, np.array([n, n], int), a))
        reps['regular'] = g
        gi = hcipy.CartesianGrid(hcipy.RegularCoords(np.array([dz, dz], float), np.array([n, n], int), np.array([dz, dz], float)))
        sx, sy = [np.array(c, float) for c in gi.separated_coords]
        sep = (sx, sy)
    elif kind == 'pts':
        # an explicit unstructured point set (no separated form)
        a, b = np.array(gspec[1], float), np.array(gspec[2], float)
        reps['unstructured'] = hcipy.CartesianGrid(hcipy.UnstructuredCoords((a.copy(), b.copy())))
        reps['polar'] = reps['unstructured'].as_('polar')
        return reps, a.copy(), b.copy(), None
    elif kind == 'polarsep':
        rs, ths = np.array(gspec[1], float), np.array(gspec[2], float)
        pg = hcipy.PolarGrid(hcipy.SeparatedCoords([rs, ths]))
        reps['polar-separated'] = pg
        pu = hcipy.PolarGrid(hcipy.UnstructuredCoords([np.array(pg.r), np.array(pg.theta)]))
        reps['polar'] = pu
        cg = pu.as_('cartesian')
        reps['unstructured'] = hcipy.CartesianGrid(hcipy.UnstructuredCoords([np.array(cg.x), np.array(cg.y)]))
        return reps, np.array(cg.x), np.array(cg.y), None
    else:
        raise MachineryError('unknown grid spec %r' % (gspec,))
    s = hcipy.CartesianGrid(hcipy.SeparatedCoords([sx.copy(), sy.copy()]))
    reps['separated'] = s
    xs, ys = np.array(s.x), np.array(s.y)
    reps['unstructured'] = hcipy.CartesianGrid(hcipy.UnstructuredCoords([xs.copy(), ys.copy()]))
    reps['polar'] = reps['unstructured'].as_('polar')
    return reps, xs, ys, sep


FAMILIES = ('regular', 'regular-xdesc', 'regular-ydesc', 'regular-reversed', 'regular-scaled-1', 'regular-scaled-x',
            'regular-scaled-y', 'sep-asc', 'sep-desc', 'sep-mixed', 'sep-permuted', 'sep-repeated', 'size1-x', 'size1-y',
            'polar-r0', 'polar', 'alias-sep', 'alias-pts', 'alias-regular')


def gen_grid_family(rng, fam, nmax=9, half=2.5, centre=(0.0, 0.0), exact=True):
    """A point set of the named family covering roughly centre +- half.  exact: dyadic coordinates."""
    def num(lo, hi, bits):
        return dyadic(rng, lo, hi, bits) if exact else float(rng.uniform(lo, hi))

    def size():
        return int(rng.choice([2, 3, 5, 7, nmax])) if rng.random() < 0.3 else int(rng.integers(4, nmax + 1))
    nx, ny = size(), size()
    if fam == 'size1-x':
        nx = 1
    if fam == 'size1-y':
        ny = 1
    if fam == 'alias-sep' or fam == 'alias-pts':
        n = nx if fam == 'alias-sep' else nx + ny
        c = 0.5 * (centre[0] + centre[1])
        v = sorted(c + half * num(-1, 1, 9) for _ in range(n))
        m = rng.random()
        if m < 0.3:
            v = v[::-1]
        elif m < 0.45:
            v = [float(t) for t in rng.permutation(v)]
        return [fam, [float(t) for t in v]]
    if fam == 'alias-regular':
        # delta == zero: the grid starts at (d, d); centre it roughly by choosing the sign
        d = half * num(0.0625, 0.3, 6) * (1.0 if rng.random() < 0.5 else -1.0)
        return ['alias-regular', int(max(nx, 2)), float(d)]
    if fam.startswith('regular') or (fam.startswith('size1') and rng.random() < 0.5):
        ext = half * num(0.8, 2, 4)
        dx = ext / max(nx, 2) if rng.random() < 0.5 else half * num(0.0625, 0.4, 6)
        dy = dx if rng.random() < 0.4 else half * num(0.0625, 0.4, 6)
        cx, cy = centre[0] + half * num(-0.4, 0.4, 9), centre[1] + half * num(-0.4, 0.4, 9)
        if exact and rng.random() < 0.3:
            cx, cy = centre[0] + dyadic(rng, -1, 1, 3), centre[1] + dyadic(rng, -1, 1, 3)
        if fam in ('regular-xdesc',) or (fam.startswith('size1') and rng.random() < 0.3):
            dx = -dx
        if fam in ('regular-ydesc',) or (fam.startswith('size1') and rng.random() < 0.3):
            dy = -dy
        zero = [cx - dx * (nx - 1) / 2, cy - dy * (ny - 1) / 2]
        spec = ['regular', [nx, ny], [dx, dy], zero]
        if fam in ('regular-reversed', 'regular-scaled-1', 'regular-scaled-x', 'regular-scaled-y'):
            spec.append(fam[len('regular-'):])
        return spec
    if fam.startswith('sep') or fam.startswith('size1'):
        def axis(n, c, mode):
            v = sorted(c + half * num(-1, 1, 9) for _ in range(n))
            if mode == 'desc':
                v = v[::-1]
            elif mode == 'permuted':
                v = [float(t) for t in rng.permutation(v)]       # unsorted axes are legal SeparatedCoords
            elif mode == 'repeated' and n > 1:
                v[int(rng.integers(0, n - 1))] = v[-1]
            return [float(t) for t in v]
        if fam == 'sep-mixed':
            modes = ('asc', 'desc') if rng.random() < 0.5 else ('desc', 'asc')
        elif fam.startswith('size1'):
            modes = (str(rng.choice(['asc', 'desc'])), str(rng.choice(['asc', 'desc'])))
        else:
            m = fam[len('sep-'):]
            modes = (m, m) if rng.random() < 0.6 else (m, 'asc')
        return ['sep', axis(nx, centre[0], modes[0]), axis(ny, centre[1], modes[1])]
    nr, nt = max(1, min(nx, 6)), max(1, min(ny, 8))
    rs = sorted(half * num(0.01, 1, 8) for _ in range(nr))
    if fam == 'polar-r0':
        rs[0] = 0.0                                              # the origin itself, once per angle
    ths = []
    for _ in range(nt):
        t = dyadic(rng, -4, 4, 4)
        c, sn = (1 - t * t) / (1 + t * t), 2 * t / (1 + t * t)
        ths.append(math.atan2(sn, c))
    ths = sorted(ths)
    if rng.random() < 0.3:
        ths = ths[::-1]
    return ['polarsep', [float(v) for v in rs], ths]


FAMILY_WEIGHTS = [8, 5, 5, 4, 4, 3, 3, 8, 7, 6, 6, 3, 4, 4, 6, 6, 6, 3, 3]


def gen_grid(rng, big):
    w = np.array(FAMILY_WEIGHTS, float)
    fam = FAMILIES[int(rng.choice(len(FAMILIES), p=w / w.sum()))]
    return gen_grid_family(rng, fam, nmax=14 if big else 9)


def grid_features(gspec, sep):
    """what the axes of this point set look like (measured on the coordinates actually built)"""
    def direction(a):
        if len(a) == 1:
            return 'single'
        d = np.diff(a)
        if np.all(d > 0):
            return 'asc'
        if np.all(d < 0):
            return 'desc'
        return 'mixed'
    if gspec[0] == 'alias-pts':
        return ['alias-pts:diagonal']
    if gspec[0] == 'pts':
        return ['pts:explicit']
    if gspec[0] == 'polarsep':
        return ['polar:r0=0' if gspec[1][0] == 0 else 'polar:r0>0', 'polar:theta-' + direction(np.array(gspec[2]))]
    kind = gspec[0] + ('(' + gspec[4] + ')' if len(gspec) > 4 else '')
    return ['%s:x-%s,y-%s' % (kind, direction(sep[0]), direction(sep[1]))]


# ---------------------------------------------------------------------------------------------
# shapes: spec -> (real generator, model tokens, size scale, binary?)

def _angle(rng):
    r = rng.random()
    if r < 0.25:
        return float(rng.choice([0.0, math.pi / 2, math.pi / 6, -math.pi / 3, math.pi, math.pi / 4]))
    t = dyadic(rng, -3, 3, 5)
    return math.atan2(2 * t / (1 + t * t), (1 - t * t) / (1 + t * t))


def _centre(rng, p_none=0.3):
    if rng.random() < p_none:
        return None
    return [dyadic(rng, -1, 1, 6), dyadic(rng, -1, 1, 6)]


def gen_irrpoly(rng):
    n = int(rng.integers(3, 8))
    c = [dyadic(rng, -1, 1, 5), dyadic(rng, -1, 1, 5)]
    angs = sorted(rng.uniform(0, 2 * math.pi, n))
    vs = []
    for a in angs:
        rad = dyadic(rng, 0.3, 2, 5)
        vs.append([round((c[0] + rad * math.cos(a)) * 256) / 256, round((c[1] + rad * math.sin(a)) * 256) / 256])
    if rng.random() < 0.2:
        vs = [vs[int(i)] for i in rng.permutation(n)]       # self-intersecting: even-odd rule
    return ['irrpoly', vs]


def gen_primitive(rng):
    k = rng.choice(['circle', 'ellipse', 'rect', 'regpoly', 'regpoly', 'irrpoly', 'spider', 'spiderinf'])
    if k == 'circle':
        return ['circle', dyadic(rng, 0.25, 3.5, 6), _centre(rng)]
    if k == 'ellipse':
        return ['ellipse', [dyadic(rng, 0.5, 3.5, 6), dyadic(rng, 0.5, 3.5, 6)], _centre(rng), _angle(rng)]
    if k == 'rect':
        size = dyadic(rng, 0.25, 3, 6) if rng.random() < 0.4 else [dyadic(rng, 0.25, 3, 6), dyadic(rng, 0.25, 3, 6)]
        return ['rect', size, _centre(rng)]
    if k == 'regpoly':
        n = int(rng.choice([3, 4, 5, 6, 6, 7, 8, 12]))
        return ['regpoly', n, dyadic(rng, 0.5, 3.5, 6), _angle(rng), _centre(rng)]
    if k == 'irrpoly':
        return gen_irrpoly(rng)
    if k == 'spider':
        return ['spider', [dyadic(rng, -2, 2, 5), dyadic(rng, -2, 2, 5)], [dyadic(rng, -2, 2, 5), dyadic(rng, -2, 2, 5)],
                dyadic(rng, 0.0625, 1, 6)]
    return ['spiderinf', [dyadic(rng, -1, 1, 5), dyadic(rng, -1, 1, 5)], float(rng.choice([0, 30, 45, 90, 101, 180, 270, -60])) if rng.random() < 0.5 else dyadic(rng, -360, 360, 2),
            dyadic(rng, 0.0625, 1, 6)]


def gen_positions(rng):
    import hcipy
    if rng.random() < 0.5:
        pitch = dyadic(rng, 0.5, 1.25, 5)
        g = hcipy.make_hexagonal_grid(pitch, int(rng.integers(1, 3)), pointy_top=bool(rng.random() < 0.5))
        pts = [[float(a), float(b)] for a, b in g.points]
        if len(pts) > 8:
            pts = [pts[int(i)] for i in sorted(rng.choice(len(pts), 8, replace=False))]
        return pts
    return [[dyadic(rng, -1.5, 1.5, 5), dyadic(rng, -1.5, 1.5, 5)] for _ in range(int(rng.integers(1, 6)))]


def gen_shape(rng, depth=0):
    r = rng.random()
    if depth >= 2 or r < 0.5:
        return gen_primitive(rng)
    if r < 0.58:
        return ['obstructed', dyadic(rng, 1, 4, 5), dyadic(rng, 0, 0.75, 5), int(rng.integers(0, 5)), dyadic(rng, 0.03125, 0.5, 6)]
    if r < 0.64:
        return ['obstruction', gen_shape(rng, depth + 1)]
    if r < 0.74:
        return ['rotated', gen_shape(rng, depth + 1), _angle(rng)]
    if r < 0.82:
        return ['shifted', gen_shape(rng, depth + 1), [dyadic(rng, -1, 1, 6), dyadic(rng, -1, 1, 6)]]
    if r < 0.95:
        q = rng.random()
        if q < 0.6:
            seg = ['regpoly', int(rng.choice([3, 4, 6, 6, 6, 5])), dyadic(rng, 0.4, 1.25, 6), _angle(rng), _centre(rng, 0.7)]
        elif q < 0.8:
            seg = ['circle', dyadic(rng, 0.4, 1.25, 6), _centre(rng, 0.7)]
        else:
            seg = gen_shape(rng, depth + 1)
        pos = gen_positions(rng)
        tr = 1.0 if rng.random() < 0.4 else [dyadic(rng, 0, 1, 4) for _ in pos]
        return ['segmented', seg, pos, tr]
    return ['hexseg', int(rng.integers(1, 3)), dyadic(rng, 0.4, 1, 5), dyadic(rng, 0, 0.125, 6), int(rng.integers(0, 2))]


def _c(center):
    return np.zeros(2) if center is None else np.array(center, float) * np.ones(2)


def build(spec):
    """-> (real generator, model tokens, size, binary)"""
    import hcipy
    k = spec[0]
    if k == 'circle':
        _, d, c = spec
        sh = _c(c)
        # center=None is a different code path on polar grids (radius shortcut): the model's `disk`
        toks = ['disk', rat(d / 2)] if c is None else ['circle', rat(d / 2), rat(sh[0]), rat(sh[1])]
        return (hcipy.make_circular_aperture(d, center=None if c is None else np.array(c, float)),
                toks, abs(d) + np.abs(sh).max(), True)
    if k == 'ellipse':
        _, ds, c, ang = spec
        sh = _c(c)
        major, minor = ds[0] / 2, ds[1] / 2
        toks = ['ellipse', rat(np.cos(ang) / major), rat(np.sin(ang) / major), rat(np.cos(ang) / minor), rat(np.sin(ang) / minor),
                rat(sh[0]), rat(sh[1]), rat(min(major, minor))]
        return (hcipy.make_elliptical_aperture(np.array(ds, float), center=None if c is None else np.array(c, float), angle=ang),
                toks, max(ds) + np.abs(sh).max(), True)
    if k == 'rect':
        _, size, c = spec
        half = (np.array(size, float) if isinstance(size, list) else size) * np.ones(2) / 2
        sh = _c(c)
        return (hcipy.make_rectangular_aperture(np.array(size, float) if isinstance(size, list) else size,
                                                center=None if c is None else np.array(c, float)),
                ['rect', rat(half[0]), rat(half[1]), rat(sh[0]), rat(sh[1])], 2 * half.max() + np.abs(sh).max(), True)
    if k == 'regpoly':
        _, n, D, ang, c = spec
        sh = _c(c)
        apothem = np.cos(np.pi / n) * D / 2
        apothem += apothem * 1e-6
        if n % 2 == 0:
            thetas = np.arange(int(n / 2), dtype='float') * np.pi / int(n / 2) + ang
        else:
            thetas = np.arange(int(n / 2) + 1) * (n - 2) * np.pi / (n / 2) + ang
        dirs = []
        for t in thetas:
            dirs += [np.cos(t), np.sin(t)]
        toks = ['regpoly', '1' if n % 2 == 0 else '0', rat(D / 2), rat(apothem), rat_list(dirs), rat(sh[0]), rat(sh[1])]
        return (hcipy.make_regular_polygon_aperture(n, D, ang, center=None if c is None else np.array(c, float)),
                toks, D + np.abs(sh).max(), True)
    if k == 'irrpoly':
        vs = np.array(spec[1], float)
        bmin, bmax = np.min(vs, axis=0), np.max(vs, axis=0)
        size, cen = bmax - bmin, (bmin + bmax) / 2
        half = size * np.ones(2) / 2
        toks = ['irrpoly', rat_list(vs.ravel()), rat(half[0]), rat(half[1]), rat(cen[0]), rat(cen[1])]
        return hcipy.make_irregular_polygon_aperture(vs), toks, np.abs(vs).max() * 2, True
    if k == 'spider':
        _, p1, p2, w = spec
        delta = np.array(p2) - np.array(p1)
        shift = delta / 2 + np.array(p1)
        a = np.arctan2(delta[1], delta[0])
        toks = ['spider', rat(shift[0]), rat(shift[1]), rat(np.cos(a)), rat(np.sin(a)), rat(np.linalg.norm(delta) / 2), rat(w / 2)]
        return hcipy.make_spider(p1, p2, w), toks, max(np.abs(p1).max(), np.abs(p2).max(), w), True
    if k == 'spiderinf':
        _, p, deg, w = spec
        a = np.radians(deg)
        toks = ['spiderinf', rat(p[0]), rat(p[1]), rat(np.cos(a)), rat(np.sin(a)), rat(w / 2)]
        return hcipy.make_spider_infinite(p, deg, w), toks, max(np.abs(p).max(), w), True
    if k == 'obstructed':
        _, D, ratio, nsp, w = spec
        toks = ['sub', 'disk', rat(D / 2), 'disk', rat(D * ratio / 2)]
        sp = ['const', '1']
        for a in np.linspace(0, 2 * np.pi, nsp, endpoint=False):
            _, t, _, _ = build(['spider', [0, 0], [float(D * np.cos(a)), float(D * np.sin(a))], w])
            sp = ['mul'] + sp + t
        return hcipy.make_obstructed_circular_aperture(D, ratio, nsp, w), ['mul'] + toks + sp, 2 * D, True
    if k == 'obstruction':
        g, t, s, b = build(spec[1])
        return hcipy.make_obstruction(g), ['compl'] + t, s, b
    if k == 'rotated':
        g, t, s, b = build(spec[1])
        return hcipy.make_rotated_aperture(g, spec[2]), ['rot', rat(np.cos(-spec[2])), rat(np.sin(-spec[2]))] + t, s, b
    if k == 'shifted':
        g, t, s, b = build(spec[1])
        return (hcipy.make_shifted_aperture(g, spec[2]), ['shift', rat(spec[2][0]), rat(spec[2][1])] + t,
                s + max(abs(spec[2][0]), abs(spec[2][1])), b)
    if k == 'segmented':
        _, sspec, pos, tr = spec
        g, t, s, b = build(sspec)
        pos_a = np.array(pos, float).reshape(-1, 2)
        pgrid = hcipy.CartesianGrid(hcipy.UnstructuredCoords([pos_a[:, 0].copy(), pos_a[:, 1].copy()]))
        trs = np.ones(len(pos)) * (np.array(tr, float) if isinstance(tr, list) else tr)
        flat = []
        for (px, py), tt in zip(pos_a, trs):
            flat += [px, py, tt]
        return (hcipy.make_segmented_aperture(g, pgrid, np.array(tr, float) if isinstance(tr, list) else tr),
                ['seg', rat_list(flat)] + t, s + np.abs(pos_a).max(), b)
    if k == 'hexseg':
        _, rings, f2f, gap, start = spec
        circ = f2f * 2 / np.sqrt(3)
        pitch = f2f + gap
        pg = hcipy.make_hexagonal_grid(pitch, rings, pointy_top=False)
        pts = pg.points
        if start != 0:
            pts = pts[3 * (start - 1) * start + 1:]
        _, t, _, _ = build(['regpoly', 6, float(circ), float(np.pi / 2), None])
        flat = []
        for px, py in pts:
            flat += [px, py, 1.0]
        return (hcipy.make_hexagonal_segmented_aperture(rings, f2f, gap, start), ['seg', rat_list(flat)] + t,
                2 * pitch * (rings + 1), True)
    raise MachineryError('unknown shape spec %r' % (spec,))


def top_kind(spec):
    k = spec[0]
    if k in ('obstruction', 'rotated', 'shifted'):
        return k + '(' + top_kind(spec[1]) + ')'
    if k == 'segmented':
        return 'segmented(' + spec[1][0] + ')'
    if k == 'regpoly':
        return 'regpoly'
    return k


def transmissions(spec):
    """the set of values a field of this shape may legitimately take (0/1 and the segment
    transmissions, pushed through obstruction = 1 - v)"""
    k = spec[0]
    if k == 'segmented':
        tr = spec[3]
        return {0.0} | (set(float(t) for t in tr) if isinstance(tr, list) else {float(tr)})
    if k == 'obstruction':
        return {1.0 - v for v in transmissions(spec[1])}
    if k in ('rotated', 'shifted'):
        return transmissions(spec[1])
    return {0.0, 1.0}


# ---------------------------------------------------------------------------------------------
# the real code

def evaluate(gen, grid):
    """-> (values or None, error kind or None, attached?)"""
    try:
        with warnings.catch_warnings():
            warnings.simplefilter('ignore')
            f = gen(grid)
        vals = np.array(f, dtype=float).ravel()
        if vals.size != grid.size:
            return None, 'wrong-size', False
        return vals, None, getattr(f, 'grid', None) is grid
    except Exception as e:                                      # noqa
        return None, type(e).__name__, False


def on_boundary(gen, x, y, tol):
    """Does the real generator change value within `tol` of (x, y)?  Evaluated on an unstructured
    Cartesian grid (and, should that path raise, on a separated 1x1 grid per probe)."""
    import hcipy
    ang = np.arange(16) * (2 * np.pi / 16)
    px = np.concatenate(([x], x + tol * np.cos(ang), x + 3 * tol * np.cos(ang)))
    py = np.concatenate(([y], y + tol * np.sin(ang), y + 3 * tol * np.sin(ang)))
    v, err, _ = evaluate(gen, hcipy.CartesianGrid(hcipy.UnstructuredCoords([px, py])))
    if v is None:
        vals = []
        for a, b in zip(px, py):
            w, err, _ = evaluate(gen, hcipy.CartesianGrid(hcipy.SeparatedCoords([np.array([a]), np.array([b])])))
            if w is None:
                return False
            vals.append(w[0])
        v = np.array(vals)
    return bool(np.ptp(v) > 0)


def snapshot(g):
    """everything the caller owns of a grid, bit for bit (coordinates and materialised weights)"""
    c = g.coords
    if g.is_regular:
        parts = [np.array(c.delta), np.array(c.dims), np.array(c.zero)]
    elif g.is_separated:
        parts = [np.array(a) for a in c.separated_coords]
    else:
        parts = [np.array(a) for a in c.coords]
    w = g._weights
    return (type(g).__name__, type(c).__name__, [(a.dtype.str, a.shape, a.tobytes()) for a in parts],
            None if w is None else (np.asarray(w).dtype.str, np.asarray(w).shape, np.asarray(w).tobytes()))


def materialise_weights(g):
    """weights that can be computed automatically are computed before the evaluation, so that they are
    part of the snapshot (Cartesian regular/separated grids)"""
    if g.is_('cartesian') and g.is_separated and all(len(a) > 1 for a in g.separated_coords):
        with warnings.catch_warnings():
            warnings.simplefilter('ignore')
            g.weights


def rep_class(name):
    return 'polar' if name.startswith('polar') else name


def oracle(ctx, label, gen, reps, xs, ys, scale, allowed, binary=True, check_range=True):
    """The property on the real code.  Returns ({rep: values or None}, [(key, what)]).
    `ctx` may be None (no counting: used while shrinking)."""
    tol = REL_TOL * scale
    res = {}
    fails = []
    for name, g in reps.items():
        materialise_weights(g)
        before = snapshot(g)
        vals, err, attached = evaluate(gen, g)
        res[name] = vals
        if snapshot(g) != before:
            fails.append(('%s:grid-modified:%s' % (label, rep_class(name)), '%s: the %s grid handed in is not bit-identical after the evaluation (coordinates or weights changed)' % (label, name)))
        if err is not None:
            fails.append(('%s:raises:%s:%s' % (label, rep_class(name), err), '%s raises %s on a %s grid' % (label, err, name)))
            if ctx is not None:
                ctx.count('real-raises')
            continue
        if not attached:
            fails.append(('%s:not-attached' % label, '%s: the returned field is not attached to the %s grid it was asked for' % (label, name)))
        if check_range and binary:
            bad = [float(v) for v in np.unique(vals) if not any(abs(v - t) <= 1e-12 for t in allowed)]
            if bad or vals.min() < 0 or vals.max() > 1:
                fails.append(('%s:range' % label, '%s takes the value(s) %r on a %s grid' % (label, bad[:3], name)))
    order = [n for n in ('regular', 'separated', 'separated-indep', 'unstructured', 'unstructured-indep', 'polar', 'polar-separated') if res.get(n) is not None]
    if len(order) >= 2:
        ref = order[0]
        for name in order[1:]:
            d = np.flatnonzero(np.abs(res[name] - res[ref]) > 1e-12)
            genuine = []
            for i in d[:12]:
                if on_boundary(gen, xs[i], ys[i], tol):
                    if ctx is not None:
                        ctx.boundary_skipped += 1
                        ctx.count('oracle-boundary-skipped')
                else:
                    genuine.append(int(i))
            if genuine:
                i = genuine[0]
                fails.append(('%s:differs:%s' % (label, rep_class(name)),
                              '%s: value at the point (%r, %r) is %r on the %s grid but %r on the %s grid (%d of %d points differ)' % (
                                  label, float(xs[i]), float(ys[i]), float(res[ref][i]), ref, float(res[name][i]), name, len(d), len(xs))))
    return res, fails


HISTORY_B = [['ellipse', [2.0, 1.0], [0.5, 0.25], 0.5], ['shifted', ['rect', [1.5, 1.0], None], [0.5, -0.25]],
             ['hexseg', 1, 0.75, 0.0625, 0], ['rotated', ['regpoly', 5, 1.5, 0.0, [0.25, 0.0]], 0.5],
             ['circle', 1.25, [0.0, 0.375]], ['irrpoly', [[-0.75, -0.5], [1.0, -0.25], [0.25, 1.0]]]]


def oracle_history(label, gen_a, res_a, reps, gspec, b_index, size=1.0):
    """History on ONE grid object: A was evaluated on `reps` (values res_a); now B, then A again.
    A must reproduce its values, and B must give what it gives on a grid never used before.
    Returns [(key, what)]."""
    bspec = HISTORY_B[b_index % len(HISTORY_B)]
    if size != 1.0:
        bspec = scale_spec(bspec, size)
    gen_b = build(bspec)[0]
    fresh = make_reps(gspec)[0]
    fails = []
    for name, g in reps.items():
        if res_a.get(name) is None:
            continue
        before = snapshot(g)
        b1, err_b, _ = evaluate(gen_b, g)
        a2, err_a, _ = evaluate(gen_a, g)
        b0, err_0, _ = evaluate(gen_b, fresh[name])
        if snapshot(g) != before:
            fails.append(('%s:grid-modified:%s' % (label, rep_class(name)), '%s: the %s grid is not bit-identical after evaluating %s and %s on it' % (label, name, bspec[0], label)))
        if a2 is None or not np.array_equal(a2, res_a[name]):
            fails.append(('%s:history:%s' % (label, rep_class(name)), '%s gives different values on the same %s grid object after %s was evaluated on it (%s)' % (
                label, name, bspec[0], err_a or '%d points differ' % int(np.count_nonzero(a2 != res_a[name])))))
        if (b1 is None) != (b0 is None) or (b1 is not None and not np.array_equal(b1, b0)):
            fails.append(('%s:history:%s' % (bspec[0], rep_class(name)), '%s gives different values on a %s grid object that %s was evaluated on before than on a fresh one' % (bspec[0], name, label)))
    return fails


def scale_spec(spec, f):
    """the shape scaled by f about the origin (lengths only)"""
    k = spec[0]
    sc = lambda v: None if v is None else ([t * f for t in v] if isinstance(v, list) else v * f)
    if k == 'circle':
        return ['circle', spec[1] * f, sc(spec[2])]
    if k == 'ellipse':
        return ['ellipse', sc(spec[1]), sc(spec[2]), spec[3]]
    if k == 'rect':
        return ['rect', sc(spec[1]), sc(spec[2])]
    if k == 'regpoly':
        return ['regpoly', spec[1], spec[2] * f, spec[3], sc(spec[4])]
    if k == 'irrpoly':
        return ['irrpoly', [sc(v) for v in spec[1]]]
    if k == 'shifted':
        return ['shifted', scale_spec(spec[1], f), sc(spec[2])]
    if k == 'rotated':
        return ['rotated', scale_spec(spec[1], f), spec[2]]
    if k == 'hexseg':
        return ['hexseg', spec[1], spec[2] * f, spec[3] * f, spec[4]]
    raise MachineryError('scale_spec: %r' % (k,))


def oracle_super(label, gen, reps, over, binary=True):
    """evaluate_supersampled on the separated representations: [0,1], attached, same on both.
    Returns ({rep: values}, [(key, what)])."""
    import hcipy
    out = {}
    fails = []
    for name in ('regular', 'separated'):
        g = reps.get(name)
        if g is None:
            continue
        try:
            with warnings.catch_warnings():
                warnings.simplefilter('ignore')
                f = hcipy.evaluate_supersampled(gen, g, over)
        except Exception as e:                                  # noqa
            fails.append(('%s:super-raises:%s' % (label, type(e).__name__),
                          'evaluate_supersampled(%s, %r) raises %s on a %s grid' % (label, over, type(e).__name__, name)))
            continue
        v = np.array(f, dtype=float).ravel()
        out[name] = v
        if f.grid is not g:
            fails.append(('%s:super-not-attached' % label, 'supersampled %s is not attached to the %s grid' % (label, name)))
        if binary and (v.min() < -1e-12 or v.max() > 1 + 1e-12):
            fails.append(('%s:super-range' % label, 'supersampled %s leaves [0,1]: min %r max %r' % (label, v.min(), v.max())))
    if len(out) == 2 and np.abs(out['regular'] - out['separated']).max() > 1e-9:
        fails.append(('%s:super-differs' % label, 'supersampled %s differs between the regular and the separated grid' % label))
    return out, fails


# ---------------------------------------------------------------------------------------------
# generic makers: oracle + correspondence

def scale_of(xs, ys, size):
    return float(max(1.0, np.abs(xs).max() if len(xs) else 0, np.abs(ys).max() if len(ys) else 0, size))


def children(spec):
    k = spec[0]
    if k in ('obstruction', 'rotated', 'shifted', 'segmented'):
        return [spec[1]]
    if k == 'obstructed' and spec[3] > 0:
        return [['obstructed', spec[1], spec[2], 0, spec[4]]]
    return []


def root_kind(spec):
    k = spec[0]
    if k == 'segmented':
        return 'segmented(' + spec[1][0] + ')'
    return k


def real_failures(gspec, sspec, over, ctx=None, hist=None):
    reps, xs, ys, sep = make_reps(gspec)
    gen, toks, size, binary = build(sspec)
    scale = scale_of(xs, ys, size)
    label = root_kind(sspec)
    res, fails = oracle(ctx, label, gen, reps, xs, ys, scale, transmissions(sspec), binary)
    sup = None
    if over is not None and sep is not None and len(sep[0]) >= 2 and len(sep[1]) >= 2:
        sup, f2 = oracle_super(label, gen, reps, over, binary)
        fails += f2
    if hist is not None:
        fails += oracle_history(label, gen, res, reps, gspec, hist)
        if ctx is not None:
            ctx.count('history-checks')
    return reps, xs, ys, sep, toks, scale, res, sup, fails


def shrink(gspec, sspec, over, hist=None):
    """smallest sub-shape that still fails on the same grid (so that the key names the culprit)"""
    for child in children(sspec):
        try:
            fails = real_failures(gspec, child, over, None, hist)[-1]
        except Exception:                                       # noqa
            continue
        if fails:
            return shrink(gspec, child, over, hist)
    return sspec, real_failures(gspec, sspec, over, None, hist)[-1]


def polar_request(op, tol, g, rest):
    """request line for the polar code path: the radii and the direction cosines cos(theta), sin(theta) as the exact
    rationals the floats are (the floats `_polar_to_cartesian` multiplies with)"""
    r = np.array(g.r, float).ravel()
    th = np.array(g.theta, float).ravel()
    cs = np.empty(2 * len(r))
    cs[0::2] = np.cos(th)
    cs[1::2] = np.sin(th)
    return 'C12 %s polar %s %s %s %s' % (op, tol, rat_list(r), rat_list(cs), rest)


def path_probe(ctx, sspec, reps, tol):
    """The path structure of the regular polygon on the real code: `func(grid, return_with_mask=True)` on every
    representation (bounding slices + sub-array on separated grids, boolean mask + masked values otherwise) — for a
    top-level polygon on the grid itself, for a segmented aperture on `grid.shifted(-p)` as make_segmented_aperture
    calls it.  -> [(request line, real result, rep name, mode)]"""
    import hcipy
    k = sspec[0]
    if k == 'regpoly':
        inner, shifts = sspec, [None]
    elif k == 'segmented' and sspec[1][0] == 'regpoly':
        inner, shifts = sspec[1], [list(p) for p in sspec[2][:2]]
    elif k == 'hexseg':
        _, rings, f2f, gap, start = sspec
        pts = hcipy.make_hexagonal_grid(f2f + gap, rings, pointy_top=False).points
        if start != 0:
            pts = pts[3 * (start - 1) * start + 1:]
        inner, shifts = ['regpoly', 6, float(f2f * 2 / np.sqrt(3)), float(np.pi / 2), None], [[float(a), float(b)] for a, b in pts[:2]]
    else:
        return []
    gen, toks, _, _ = build(inner)
    out = []
    for name, g in reps.items():
        for p in shifts:
            try:
                gg = g if p is None else g.shifted(-np.array(p, float))
                with warnings.catch_warnings():
                    warnings.simplefilter('ignore')
                    fsub, m = gen(gg, return_with_mask=True)
                cart = gg.as_('cartesian')
            except Exception as e:                              # noqa
                ctx.disagree('C12 regsub', {'shape': sspec, 'rep': name, 'shift': p, 'detail': 'return_with_mask raises %s' % type(e).__name__},
                             key='%s:return-with-mask-raises:%s' % (root_kind(sspec), rep_class(name)))
                continue
            if cart.is_separated:
                ax, ay = [np.array(c, float) for c in cart.separated_coords]
                mode = 'sep'
            else:
                ax, ay = np.array(cart.x, float), np.array(cart.y, float)
                mode = 'pts'
            out.append(('C12 regsub %s %s %s %s %s' % (mode, tol, rat_list(ax), rat_list(ay), ' '.join(toks[1:])), (fsub, m), name, mode))
    return out


def _bits(t):
    return [c == '1' for c in t[1:-1].split(',')] if t != '[]' else []


def _rats(t):
    return [float(_frac(c)) for c in t[1:-1].split(',')] if t != '[]' else []


def check_path(ctx, case, label, resp, real, name, mode):
    """compare one `regsub` answer of the model with what the real code returned"""
    fsub, m = real
    parts = resp.split(' ')
    ctx.traces_validated += 1
    key = '%s:path:%s' % (label, rep_class(name))

    def bad(detail):
        ctx.disagree('C12 regsub ' + mode, dict(detail, case=case, rep=name), key=key)
    if parts[0] != 'ok':
        return bad({'model': resp})
    if mode == 'sep':
        edge = parts[-1] == '1'
        m_y, m_x = m
        real_none = np.size(fsub) == 0
        real_desc = None if real_none else [int(m_y.start), int(m_x.start), int(m_y.stop - m_y.start), int(m_x.stop - m_x.start)]
        if real_none and (m_y.stop - m_y.start != 0 or m_x.stop - m_x.start != 0):
            return bad({'detail': 'empty sub-array with non-empty slices', 'impl': str(m)})
        model_desc = None if parts[1] == 'none' else [int(t) for t in parts[2:6]]
        if model_desc != real_desc:
            if edge:
                ctx.boundary_skipped += 1
                ctx.count('regsub-edge-skipped')
                return
            return bad({'detail': 'bounding slices (y0, x0, nr, nc)', 'model': model_desc, 'impl': real_desc})
        ctx.count('regsub:sep:' + ('none' if real_none else 'some'))
        if real_none:
            return
        if list(np.shape(fsub)) != model_desc[2:]:
            return bad({'detail': 'shape of the sub-array', 'model': model_desc[2:], 'impl': list(np.shape(fsub))})
        mv, near = _rats(parts[6]), _bits(parts[7])
        rv = np.array(fsub, float).ravel()
        for i in range(len(rv)):
            if near[i]:
                ctx.boundary_skipped += 1
                ctx.count('model-boundary-skipped')
                continue
            ctx.count('regsub-values-compared')
            if abs(mv[i] - rv[i]) > 1e-9:
                return bad({'detail': 'sub-array value', 'index': i, 'model': mv[i], 'impl': float(rv[i]), 'slices': real_desc})
    else:
        mm, mv, near, nearbox = _bits(parts[1]), _rats(parts[2]), _bits(parts[3]), _bits(parts[4])
        rm = np.array(m, bool).ravel()
        if len(mm) != len(rm):
            return bad({'detail': 'mask length', 'model': len(mm), 'impl': len(rm)})
        diff = [i for i in range(len(rm)) if mm[i] != bool(rm[i])]
        if diff:
            if all(nearbox[i] for i in diff):
                ctx.boundary_skipped += 1
                ctx.count('regsub-edge-skipped')
                return
            i = [j for j in diff if not nearbox[j]][0]
            return bad({'detail': 'slow-path mask', 'index': i, 'model': mm[i], 'impl': bool(rm[i])})
        ctx.count('regsub:pts')
        rv = np.array(fsub, float).ravel()
        if len(rv) != len(mv):
            return bad({'detail': 'number of masked values', 'model': len(mv), 'impl': len(rv)})
        for i in range(len(rv)):
            if near[i]:
                ctx.boundary_skipped += 1
                ctx.count('model-boundary-skipped')
                continue
            ctx.count('regsub-values-compared')
            if abs(mv[i] - rv[i]) > 1e-9:
                return bad({'detail': 'masked value', 'index': i, 'model': mv[i], 'impl': float(rv[i])})


def run_generic(ctx, gspec, sspec, over=None, want_model=True, corner=None, hist=None, probe_paths=True):
    """Returns the model requests and a closure that checks the responses."""
    reps, xs, ys, sep, toks, scale, res, sup, fails = real_failures(gspec, sspec, over, ctx, hist)
    label = top_kind(sspec)
    case = {'kind': 'generic', 'grid': gspec, 'shape': sspec, 'over': over, 'hist': hist}
    if fails:
        small, sfails = shrink(gspec, sspec, over, hist)
        for key, what in sfails:
            ctx.violation(key, what, {'kind': 'generic', 'grid': gspec, 'shape': small, 'over': over, 'hist': hist, 'shrunk_from': sspec})
    if sup is not None:
        ctx.count('supersampled')
    if corner is not None:
        for name, v in res.items():
            if v is not None:
                ctx.count('corner:%s|%s|%s' % (corner[0], corner[1], rep_class(name) if name != 'polar-separated' else 'polar'))
    ctx.count('grid:' + gspec[0])
    for feat in grid_features(gspec, sep):
        ctx.count('axes:' + feat)
        ctx.count('cover:%s|%s' % (root_kind(sspec), feat))
    ctx.count('shape:' + label.split('(')[0])
    ctx.count('npoints', len(xs))
    nz = [v for v in res.values() if v is not None]
    mixed = bool(nz) and 0 < np.count_nonzero(nz[0]) < len(xs)
    ctx.count('field:' + ('mixed' if mixed else 'constant'))
    ctx.case({'grid': gspec, 'shape': sspec} if mixed else None, (label, gspec[0], len(xs), int(np.count_nonzero(nz[0]))) if mixed else None)
    if not want_model:
        return [], lambda out: None
    tol = rat(REL_TOL * scale)
    lines = []
    if sep is not None:
        lines.append(('sep', 'C12 eval sep %s %s %s %s' % (tol, rat_list(sep[0]), rat_list(sep[1]), ' '.join(toks))))
    lines.append(('pts', 'C12 eval pts %s %s %s %s' % (tol, rat_list(xs), rat_list(ys), ' '.join(toks))))
    pol = reps.get('polar')
    if pol is not None:
        # the polar code path itself (radius shortcut, PolarGrid.rotate, conversion) — evalPolar of the model
        lines.append(('polar', polar_request('eval', tol, pol, ' '.join(toks))))
        ctx.count('polar-path-cases')
    if sup:
        ov = (np.round(over) * np.ones(2)).astype(int)
        lines.append(('super', 'C12 super %d %d %s %s %s %s' % (ov[0], ov[1], tol, rat_list(sep[0]), rat_list(sep[1]), ' '.join(toks))))
    probes = path_probe(ctx, sspec, reps, tol) if probe_paths else []
    for req, real, name, mode in probes:
        lines.append(('regsub', req))

    def check(out):
        for (req, real, name, mode), resp in zip(probes, out[len(lines) - len(probes):]):
            check_path(ctx, case, label, resp, real, name, mode)
        for (mode, req), resp in zip(lines[:len(lines) - len(probes)], out):
            parts = resp.split(' ')
            if parts[0] != 'ok':
                ctx.disagree('C12 ' + mode, {'case': case, 'model': resp})
                continue
            mv = [float(_frac(t)) for t in parts[1][1:-1].split(',')] if parts[1] != '[]' else []
            near = [t == '1' for t in parts[2][1:-1].split(',')] if parts[2] != '[]' else []
            check_polar_slack(ctx, case, mode, parts)
            if mode != 'super' and parts[3] != '1':
                ctx.disagree('C12 model-self', {'case': case, 'detail': 'code-path model differs from point semantics', 'mode': mode})
            if mode == 'super':
                targets = [(n, sup.get(n)) for n in ('regular', 'separated')]
            elif mode == 'sep':
                targets = [(n, res.get(n)) for n in ('regular', 'separated', 'separated-indep')]
            elif mode == 'polar':
                targets = [(n, res.get(n)) for n in ('polar', 'polar-separated')]
            else:
                targets = [(n, res.get(n)) for n in ('unstructured', 'unstructured-indep', 'polar', 'polar-separated')]
            for name, rv in targets:
                if rv is None:
                    continue
                ctx.traces_validated += 1
                if len(mv) != len(rv):
                    ctx.disagree('C12 ' + mode, {'case': case, 'detail': 'length', 'model': len(mv), 'impl': len(rv)})
                    continue
                for i in range(len(rv)):
                    if near[i]:
                        ctx.boundary_skipped += 1
                        ctx.count('model-boundary-skipped')
                        ctx.count('skipped-by-maker:' + label)
                        continue
                    ctx.count('points-compared')
                    ctx.count('compared-by-maker:' + label)
                    if abs(mv[i] - rv[i]) > 1e-9:
                        ctx.disagree('C12 ' + mode, {'case': case, 'rep': name, 'index': i, 'point': [float(xs[i]), float(ys[i])],
                                                     'model': mv[i], 'impl': float(rv[i])}, key='%s:model:%s' % (label, name))
                        break
    return [l for _, l in lines], check


def check_polar_slack(ctx, case, mode, parts):
    """polar requests: the driver counts the points where a radius shortcut of the model disagrees with the Cartesian test
    (`diskAgree` false) although the point is not within tol of a decision boundary.  For radii >= 0 theorem polar_float_rim
    says that needs |r^2 - R^2| <= eps r^2 with eps the rounding error of cos^2 + sin^2 — far inside the tol band: must be 0."""
    if mode != 'polar':
        return
    ctx.count('polar-float-slack-checked')
    if len(parts) < 5 or parts[4] != '0':
        ctx.disagree('C12 polar-float-slack', {'case': case, 'detail': 'diskAgree fails away from every decision boundary', 'count': parts[4] if len(parts) > 4 else None},
                     key='polar-float-slack')


def _frac(t):
    from fractions import Fraction
    return Fraction(t)


def _seg_of(segspec):
    def mk(rng):
        pos = gen_positions(rng)
        return ['segmented', segspec(rng), pos, [dyadic(rng, 0, 1, 4) for _ in pos]]
    return mk


SWEEP_MAKERS = [
    lambda rng: ['circle', dyadic(rng, 0.5, 3.5, 6), _centre(rng, 0.2)],
    lambda rng: ['ellipse', [dyadic(rng, 0.5, 3.5, 6), dyadic(rng, 0.5, 3.5, 6)], _centre(rng, 0.2), _angle(rng)],
    lambda rng: ['rect', [dyadic(rng, 0.5, 3, 6), dyadic(rng, 0.5, 3, 6)], _centre(rng, 0.2)],
    lambda rng: ['regpoly', int(rng.choice([4, 6, 8])), dyadic(rng, 1, 3.5, 6), _angle(rng), _centre(rng, 0.2)],
    lambda rng: ['regpoly', int(rng.choice([3, 5, 7])), dyadic(rng, 1, 3.5, 6), _angle(rng), _centre(rng, 0.2)],
    gen_irrpoly,
    lambda rng: ['spider', [dyadic(rng, -2, 2, 5), dyadic(rng, -2, 2, 5)], [dyadic(rng, -2, 2, 5), dyadic(rng, -2, 2, 5)], dyadic(rng, 0.25, 1, 6)],
    lambda rng: ['spiderinf', [dyadic(rng, -1, 1, 5), dyadic(rng, -1, 1, 5)], dyadic(rng, -360, 360, 2), dyadic(rng, 0.25, 1, 6)],
    lambda rng: ['obstructed', dyadic(rng, 2, 4, 5), dyadic(rng, 0.1, 0.6, 5), int(rng.integers(0, 5)), dyadic(rng, 0.0625, 0.5, 6)],
    lambda rng: ['obstruction', ['rect', dyadic(rng, 0.5, 3, 6), _centre(rng, 0.2)]],
    lambda rng: ['rotated', ['regpoly', 6, dyadic(rng, 1, 3.5, 6), 0.0, _centre(rng, 0.2)], _angle(rng)],
    lambda rng: ['shifted', ['regpoly', 5, dyadic(rng, 1, 3.5, 6), _angle(rng), None], [dyadic(rng, -1, 1, 6), dyadic(rng, -1, 1, 6)]],
    _seg_of(lambda rng: ['regpoly', 6, dyadic(rng, 0.5, 1.25, 6), _angle(rng), _centre(rng, 0.7)]),
    _seg_of(lambda rng: ['circle', dyadic(rng, 0.5, 1.25, 6), _centre(rng, 0.7)]),
    lambda rng: ['hexseg', int(rng.integers(1, 3)), dyadic(rng, 0.5, 1, 5), dyadic(rng, 0, 0.125, 6), int(rng.integers(0, 2))],
]
HEX_PUPILS = ('make_keck_aperture', 'make_luvoir_a_aperture', 'make_luvoir_b_aperture', 'make_hicat_aperture',
              'make_elt_aperture', 'make_tmt_aperture')


# ---------------------------------------------------------------------------------------------
# parameter corner values: a seed-independent sweep that is part of EVERY run

CORNER_GRIDS = [
    ['regular', [9, 8], [0.375, 0.4375], [-1.46875, -1.5]],
    ['polarsep', [0.0, 0.25, 0.625, 1.0, 1.5], [-2.5, -1.5707963267948966, -0.5, 0.0, 0.75, 1.5707963267948966, 3.141592653589793]],
    ['sep', [1.75, 1.0, 0.5, 0.0, -0.5, -1.25], [-1.5, -0.375, 0.0, 0.375, 1.25]],
]
CORNER_CENTRES = [('None', None), ('origin', [0.0, 0.0]), ('x+,y0', [0.5, 0.0]), ('x-,y0', [-0.5, 0.0]), ('x0,y+', [0.0, 0.375]),
                  ('x0,y-', [0.0, -0.375]), ('x+,y-0', [0.5, -0.0]), ('x-0,y+', [-0.0, 0.375]), ('x-0,y-0', [-0.0, -0.0]),
                  ('generic', [0.5, 0.25])]
CORNER_ANGLES = [('0', 0.0), ('+pi/2', math.pi / 2), ('-pi/2', -math.pi / 2), ('pi', math.pi), ('-pi', -math.pi)]
CORNER_SHIFTS = [('origin', [0.0, 0.0]), ('x+', [0.5, 0.0]), ('x-', [-0.5, 0.0]), ('y+', [0.0, 0.375]), ('y-', [0.0, -0.375]),
                 ('x+,y-0', [0.5, -0.0])]


def corner_cases():
    """[(maker, corner class, shape spec)] — fixed, does not consume the PRNG"""
    out = []
    for cn, c in CORNER_CENTRES:
        out.append(('circle', 'centre:' + cn, ['circle', 1.5, c]))
        out.append(('ellipse', 'centre:' + cn, ['ellipse', [2.0, 1.0], c, 0.5]))
        out.append(('rect', 'centre:' + cn, ['rect', [1.5, 1.0], c]))
        out.append(('regpoly-even', 'centre:' + cn, ['regpoly', 6, 1.75, 0.25, c]))
        out.append(('regpoly-odd', 'centre:' + cn, ['regpoly', 5, 1.75, 0.25, c]))
        out.append(('segmented(regpoly)', 'centre:' + cn, ['segmented', ['regpoly', 6, 0.875, 0.0, c], [[0.0, 0.0], [0.75, 0.0], [0.0, -0.75]], [0.25, 0.5, 1.0]]))
        out.append(('segmented(circle)', 'centre:' + cn, ['segmented', ['circle', 0.75, c], [[0.0, 0.0], [0.75, 0.0], [0.0, -0.75]], [0.25, 0.5, 1.0]]))
        out.append(('obstruction(circle)', 'centre:' + cn, ['obstruction', ['circle', 1.0, c]]))
        out.append(('rotated(circle)', 'centre:' + cn, ['rotated', ['circle', 1.0, c], 0.5]))
        if c is not None:
            out.append(('spiderinf', 'start:' + cn, ['spiderinf', c, 30.0, 0.375]))
            out.append(('spider', 'start:' + cn, ['spider', c, [1.0, 0.75], 0.375]))
            out.append(('segmented(regpoly)', 'position:' + cn, ['segmented', ['regpoly', 6, 0.875, 0.0, None], [c], 0.5]))
    for an, a in CORNER_ANGLES:
        out.append(('ellipse', 'angle:' + an, ['ellipse', [2.5, 1.0], [0.5, 0.0], a]))
        out.append(('regpoly-even', 'angle:' + an, ['regpoly', 6, 2.0, a, [0.25, 0.0]]))
        out.append(('regpoly-even', 'angle:' + an + '(square)', ['regpoly', 4, 2.0, a, None]))
        out.append(('regpoly-odd', 'angle:' + an, ['regpoly', 5, 2.0, a, [0.0, 0.25]]))
        out.append(('regpoly-odd', 'angle:' + an + '(triangle)', ['regpoly', 3, 2.0, a, None]))
        out.append(('rotated', 'angle:' + an, ['rotated', ['rect', [2.0, 0.75], [0.5, 0.0]], a]))
        out.append(('rotated', 'angle:' + an + '(pentagon)', ['rotated', ['regpoly', 5, 2.0, 0.0, [0.0, 0.5]], a]))
        out.append(('spiderinf', 'angle:' + an, ['spiderinf', [0.25, 0.0], math.degrees(a), 0.375]))
    for dn, p2 in [('+x', [1.5, 0.25]), ('-x', [-1.5, 0.25]), ('+y', [0.0, 1.75]), ('-y', [0.0, -1.25]), ('zero-length', [0.0, 0.25])]:
        out.append(('spider', 'direction:' + dn, ['spider', [0.0, 0.25], p2, 0.375]))
    for sn, sh in CORNER_SHIFTS:
        out.append(('shifted', 'shift:' + sn, ['shifted', ['regpoly', 6, 1.75, 0.0, None], sh]))
        out.append(('shifted', 'shift:' + sn + '(circle)', ['shifted', ['circle', 1.25, [0.25, 0.0]], sh]))
        out.append(('shifted', 'shift:' + sn + '(irrpoly)', ['shifted', ['irrpoly', [[-0.5, -0.5], [1.0, -0.5], [1.0, 0.5], [-0.5, 0.5]]], sh]))
    sizes = [('equal', [1.5, 1.5]), ('scalar', 1.5), ('wide', [3.5, 0.125]), ('tall', [0.125, 3.5]), ('tiny', [0.03125, 0.03125]), ('huge', [16.0, 16.0])]
    for zn, z in sizes:
        out.append(('rect', 'size:' + zn, ['rect', z, [0.25, 0.0]]))
        if zn != 'scalar':
            out.append(('ellipse', 'size:' + zn, ['ellipse', z, [0.0, 0.25], 0.0]))
    for zn, d in [('tiny', 0.03125), ('huge', 16.0), ('unit', 1.0)]:
        out.append(('circle', 'size:' + zn, ['circle', d, [0.25, 0.0]]))
        out.append(('regpoly-even', 'size:' + zn, ['regpoly', 6, d, 0.0, [0.0, 0.25]]))
        out.append(('regpoly-odd', 'size:' + zn, ['regpoly', 3, d, 0.0, [0.25, 0.0]]))
    for rn, ratio, nsp in [('ratio0', 0.0, 0), ('ratio0-4spiders', 0.0, 4), ('ratio-large', 0.75, 3), ('one-spider', 0.25, 1)]:
        out.append(('obstructed', 'size:' + rn, ['obstructed', 2.5, ratio, nsp, 0.125]))
    out.append(('irrpoly', 'axis-aligned', ['irrpoly', [[-0.75, -0.375], [0.75, -0.375], [0.75, 0.375], [-0.75, 0.375]]]))
    out.append(('irrpoly', 'horizontal-edge', ['irrpoly', [[-1.0, 0.0], [1.0, 0.0], [0.0, 1.25]]]))
    out.append(('irrpoly', 'vertex-on-axis', ['irrpoly', [[0.0, -1.0], [1.25, 0.0], [0.0, 0.75], [-0.5, 0.0]]]))
    out.append(('hexseg', 'no-gap', ['hexseg', 1, 0.75, 0.0, 0]))
    out.append(('hexseg', 'starting-ring-1', ['hexseg', 2, 0.5, 0.0625, 1]))
    out.append(('segmented(regpoly)', 'transmission:0-and-1', ['segmented', ['regpoly', 6, 0.875, 0.0, None], [[0.0, 0.0], [0.75, 0.0]], [0.0, 1.0]]))
    return out


DIRECTED = [
    # D6: off-centre circle on a polar grid
    (['regular', [9, 7], [0.375, 0.375], [-1.25, -1.25]], ['circle', 1.5, [0.5, -0.25]]),
    # D7: off-centre polygon on non-separated grids
    (['regular', [9, 7], [0.375, 0.375], [-1.25, -1.25]], ['regpoly', 6, 1.75, 0.0, [0.75, -0.25]]),
    (['regular', [8, 8], [0.5, 0.5], [-1.75, -1.75]], ['regpoly', 5, 2.0, 0.25, [-1.0, 0.5]]),
    # D8: segmented aperture on non-separated grids
    (['regular', [9, 8], [0.375, 0.375], [-1.5, -1.25]], ['hexseg', 1, 0.75, 0.0625, 0]),
    (['regular', [9, 8], [0.375, 0.375], [-1.5, -1.25]], ['segmented', ['regpoly', 6, 0.875, math.pi / 2, None], [[0.0, 0.0], [0.75, 0.5], [-0.75, 0.5]], [0.25, 0.5, 0.75]]),
    # D28: irregular polygon on a polar grid
    (['regular', [8, 7], [0.5, 0.5], [-1.75, -1.5]], ['irrpoly', [[0.125, -0.875], [1.25, 0.125], [0.25, 0.75], [-0.625, 0.25]]]),
    # D20: rotated aperture on a polar grid
    (['regular', [7, 7], [0.5, 0.5], [-1.5, -1.5]], ['rotated', ['rect', [1.5, 1.0], [0.5, -0.25]], 0.5]),
    # D30: separated grid whose in-box indices are not contiguous (fft-ordered axis)
    (['sep', [0.0, 1.0, 2.0, -3.0, -2.0, -1.0], [0.5, -0.5, 3.0]], ['regpoly', 6, 3.0, 0.25, None]),
    (['sep', [0.0, 1.0, 2.0, -3.0, -2.0, -1.0], [0.5, -0.5, 3.0]], ['hexseg', 1, 1.0, 0.125, 0]),
    # size-one grids, empty intersections
    (['regular', [1, 1], [1.0, 1.0], [0.25, 0.5]], ['regpoly', 6, 3.0, 0.0, None]),
    (['regular', [1, 5], [1.0, 0.5], [4.0, -1.0]], ['regpoly', 4, 1.0, 0.0, None]),
    (['regular', [3, 1], [0.5, 1.0], [-0.5, 0.0]], ['hexseg', 1, 0.5, 0.0625, 1]),
    (['sep', [0.25], [0.5, 0.0]], ['obstructed', 2.0, 0.25, 3, 0.125]),
    # as the code has them: ellipse at -centre, infinite spider from -p (consistent across representations)
    (['regular', [9, 9], [0.5, 0.5], [-2.0, -2.0]], ['ellipse', [2.0, 1.0], [0.75, 0.5], 0.5]),
    (['regular', [9, 9], [0.5, 0.5], [-2.0, -2.0]], ['spiderinf', [0.5, 0.25], 30.0, 0.5]),
    (['polarsep', [0.0, 0.5, 1.0, 1.5], [0.0, math.pi / 2, math.pi, -math.pi / 2]], ['shifted', ['regpoly', 6, 2.0, 0.0, None], [0.5, 0.25]]),
    # a point exactly on the bounding box of the polygon, inside the 1e-6-inflated vertex (boundary: skipped, counted)
    (['sep', [0.0], [1.0]], ['regpoly', 6, 2.0, 0.0, None]),
    (['sep', [0.0, 1.0, -1.0], [1.0, 0.0]], ['regpoly', 4, 2.0, math.pi / 4, None]),
]


# ---------------------------------------------------------------------------------------------
# telescope pupils (oracle only)

PUPIL_DIAMETER = {'make_elt_aperture': 39.15, 'make_gmt_aperture': 25.5, 'make_habex_aperture': 4.0, 'make_hale_aperture': 5.08,
                  'make_hicat_aperture': 0.0199, 'make_hicat_lyot_stop': 0.0199, 'make_hst_aperture': 2.4,
                  'make_jwst_aperture': 6.6, 'make_keck_aperture': 10.95, 'make_luvoir_a_aperture': 15.0,
                  'make_luvoir_a_lyot_stop': 15.0, 'make_luvoir_b_aperture': 8.0, 'make_magellan_aperture': 6.5,
                  'make_tmt_aperture': 30.0, 'make_vlt_aperture': 8.2, 'make_vlti_aperture': 140.0, 'make_vlti_dopd_map': 140.0}
HEAVY = ('make_elt_aperture', 'make_tmt_aperture')


def pupil_configs():
    import hcipy.aperture.realistic as rl
    cfgs = []
    for n in sorted(PUPIL_DIAMETER):
        f = getattr(rl, n)
        sig = inspect.signature(f)
        flags = [p for p in sig.parameters if isinstance(sig.parameters[p].default, bool) and p != 'return_header']
        for combo in itertools.product([False, True], repeat=len(flags)):
            cfgs.append((n, dict(zip(flags, combo))))
        if n == 'make_vlt_aperture':
            for tel in ('ut1', 'ut4', 'antu'):
                cfgs.append((n, {'telescope': tel, 'with_M3_cover': tel == 'ut4'}))
        if 'segment_transmissions' in sig.parameters:
            cfgs.append((n, {'segment_transmissions': 'random'}))
            cfgs.append((n, {'segment_transmissions': 'random', 'return_segments': True}))
        if n in ('make_vlti_aperture', 'make_vlti_dopd_map'):
            cfgs.append((n, {'zenith_angle': 0.5, 'azimuth': 1.0}))
        if 'gap_padding' in sig.parameters:
            cfgs.append((n, {'gap_padding': 3}))
        if n == 'make_luvoir_a_lyot_stop':
            cfgs.append((n, {'with_spiders': True, 'spider_oversize': 3, 'inner_diameter_fraction': 0.25, 'outer_diameter_fraction': 0.875}))
        if n == 'make_hicat_lyot_stop':
            cfgs.append((n, {'inner_diameter_fraction': 0.25, 'outer_diameter_fraction': 0.875}))
    return cfgs


def run_pupil(ctx, name, kw, gseed, over=None, fam=None, gspec_fixed=None):
    import hcipy.aperture.realistic as rl
    rng = np.random.default_rng(gseed)
    kw_real = dict(kw)
    ntr = None
    if kw_real.get('segment_transmissions') == 'random':
        with warnings.catch_warnings():
            warnings.simplefilter('ignore')
            probe = getattr(rl, name)(return_segments=True)
        ntr = len(probe[1])
        kw_real['segment_transmissions'] = np.round(np.random.default_rng(gseed + 1).uniform(0, 1, ntr) * 16) / 16
    label = 'pupil:' + name[5:]
    case = {'kind': 'pupil', 'name': name, 'kw': kw, 'gseed': int(gseed), 'over': over}
    try:
        with warnings.catch_warnings():
            warnings.simplefilter('ignore')
            made = getattr(rl, name)(**kw_real)
    except Exception as e:                                      # noqa
        ctx.violation('%s:maker-raises:%s' % (label, type(e).__name__), '%s(%r) raises %s' % (name, kw, type(e).__name__), case)
        return
    segs = None
    if kw.get('return_segments'):
        made, segs = made
    D = 1.0 if kw.get('normalized') else PUPIL_DIAMETER[name]
    nmax = 9 if name in HEAVY else 13
    if fam is None:
        w = np.array(FAMILY_WEIGHTS, float)
        fam = FAMILIES[int(np.random.default_rng(gseed + 7).choice(len(FAMILIES), p=w / w.sum()))]   # own stream: replay passes fam
    half = 0.55 * D * (float(rng.uniform(0.05, 1.0)) if name.startswith('make_vlti') else float(rng.uniform(0.7, 1.1)))
    gspec = gen_grid_family(rng, fam, nmax=nmax, half=half, exact=False)
    if gspec_fixed is not None:
        gspec = gspec_fixed
        case['gspec_fixed'] = gspec_fixed
    case['fam'] = fam
    case['grid'] = gspec
    reps, xs, ys, sep = make_reps(gspec)
    scale = scale_of(xs, ys, D)
    binary = name != 'make_vlti_dopd_map'
    allowed = {0.0, 1.0} | (set(float(t) for t in kw_real['segment_transmissions']) if ntr else set())
    gens = [(label, made)]
    if segs:
        pick = sorted(set(int(i) for i in rng.integers(0, len(segs), 2)))
        gens += [(label + ':segment', segs[i]) for i in pick]
        case['segments'] = pick
    res0 = None
    for lab, gen in gens:
        res, fails = oracle(ctx, lab, gen, reps, xs, ys, scale, allowed, binary)
        if res0 is None:
            res0 = res
        for key, what in fails:
            ctx.violation(key, what + ' [%r]' % (kw,), case)
        nz = [v for v in res.values() if v is not None]
        mixed = bool(nz) and 0 < np.count_nonzero(nz[0]) < len(xs)
        ctx.case(None, (lab, tuple(sorted(kw.items())), len(xs), int(np.count_nonzero(nz[0]))) if mixed else None)
        ctx.count('pupil-field:' + ('mixed' if mixed else 'constant'))
    for feat in grid_features(gspec, sep):
        ctx.count('axes:' + feat)
        ctx.count('cover:%s|%s' % (label, feat))
    if gspec[0].startswith('alias') or gseed % 4 == 0:
        for key, what in oracle_history(label, made, res0, reps, gspec, gseed, size=D / 4.0):
            ctx.violation(key, what + ' [%r]' % (kw,), case)
        ctx.count('history-checks')
    if over is not None and sep is not None and len(sep[0]) >= 2 and len(sep[1]) >= 2:
        for key, what in oracle_super(label, made, reps, over, binary)[1]:
            ctx.violation(key, what + ' [%r]' % (kw,), case)
        ctx.count('pupil-supersampled')
    ctx.count('pupil:' + name[5:])


# ---------------------------------------------------------------------------------------------
# one telescope pupil inside the model: Keck (segment positions from the model's own ring arithmetic)

def keck_params(kw, trs):
    """the constants of make_keck_aperture, computed with its own NumPy expressions"""
    pupil_diameter = 10.95
    actual_flat = np.sqrt(3) / 2 * 1.8
    obs = 2.6
    actual_gap = 0.003
    spider_width = 2.6e-2
    if kw.get('normalized'):
        actual_flat /= pupil_diameter
        actual_gap /= pupil_diameter
        spider_width /= pupil_diameter
        obs /= pupil_diameter
        pupil_diameter = 1.0
    gap = actual_gap * kw.get('gap_padding', 10)
    if not kw.get('with_segment_gaps', True):
        gap = 0
    flat = actual_flat - (gap - actual_gap)
    circum = 2 / np.sqrt(3) * flat
    pitch = actual_flat + actual_gap
    ap = pitch * np.sqrt(3) / 4                      # make_hexagonal_grid: apothem
    _, toks, _, _ = build(['regpoly', 6, float(circum), float(np.pi / 2), None])
    segR, segA, dirs = toks[2], toks[3], toks[4]
    sp = []
    if kw.get('with_spiders', True):
        for deg in (0, 60, 120, 180, 240, 300):
            a = np.radians(deg)
            sp += [np.cos(a), np.sin(a)]
    return ['3', rat(pitch), rat(ap), segR, segA, dirs, rat_list(trs), rat(obs / 2), rat_list(sp), rat(spider_width / 2)], pupil_diameter


def run_keck(ctx, kw, gseed, fam):
    import hcipy
    rng = np.random.default_rng(gseed)
    trs = np.ones(37) if not kw.get('transmissions') else np.round(rng.uniform(0, 1, 37) * 16) / 16
    kw_real = {k: v for k, v in kw.items() if k != 'transmissions'}
    with warnings.catch_warnings():
        warnings.simplefilter('ignore')
        gen = hcipy.make_keck_aperture(segment_transmissions=trs if kw.get('transmissions') else 1, **kw_real)
    params, D = keck_params(kw, trs)
    gspec = gen_grid_family(rng, fam, nmax=11, half=0.55 * D * float(rng.uniform(0.6, 1.1)), exact=False)
    reps, xs, ys, sep = make_reps(gspec)
    scale = scale_of(xs, ys, D)
    case = {'kind': 'keck', 'kw': kw, 'gseed': int(gseed), 'fam': fam, 'grid': gspec}
    res, fails = oracle(ctx, 'keck', gen, reps, xs, ys, scale, {0.0, 1.0} | set(float(t) for t in trs), True)
    for key, what in fails:
        ctx.violation(key, what + ' [%r]' % (kw,), case)
    ctx.count('keck-model-cases')
    for feat in grid_features(gspec, sep):
        ctx.count('cover:keck(model)|' + feat)
    nz = [v for v in res.values() if v is not None]
    mixed = bool(nz) and 0 < np.count_nonzero(nz[0]) < len(xs)
    ctx.case(None, ('keck-model', tuple(sorted(kw.items())), fam, len(xs), int(np.count_nonzero(nz[0]))) if mixed else None)
    tol = rat(REL_TOL * scale)
    lines = []
    if sep is not None:
        lines.append(('sep', 'C12 keck sep %s %s %s %s' % (tol, rat_list(sep[0]), rat_list(sep[1]), ' '.join(params))))
    lines.append(('pts', 'C12 keck pts %s %s %s %s' % (tol, rat_list(xs), rat_list(ys), ' '.join(params))))
    if reps.get('polar') is not None:
        lines.append(('polar', polar_request('keck', tol, reps['polar'], ' '.join(params))))

    def check(out):
        for (mode, req), resp in zip(lines, out):
            parts = resp.split(' ')
            if parts[0] != 'ok':
                ctx.disagree('C12 keck ' + mode, {'case': case, 'model': resp})
                continue
            mv = [float(_frac(t)) for t in parts[1][1:-1].split(',')] if parts[1] != '[]' else []
            near = [t == '1' for t in parts[2][1:-1].split(',')] if parts[2] != '[]' else []
            check_polar_slack(ctx, case, mode, parts)
            if parts[3] != '1':
                ctx.disagree('C12 model-self', {'case': case, 'detail': 'code-path model differs from point semantics', 'mode': mode})
            names = (('regular', 'separated', 'separated-indep') if mode == 'sep' else ('polar', 'polar-separated') if mode == 'polar'
                     else ('unstructured', 'unstructured-indep', 'polar', 'polar-separated'))
            for name in names:
                rv = res.get(name)
                if rv is None:
                    continue
                ctx.traces_validated += 1
                if len(mv) != len(rv):
                    ctx.disagree('C12 keck ' + mode, {'case': case, 'detail': 'length'})
                    continue
                for i in range(len(rv)):
                    if near[i]:
                        ctx.boundary_skipped += 1
                        ctx.count('model-boundary-skipped')
                        continue
                    ctx.count('points-compared')
                    ctx.count('keck-points-compared')
                    if abs(mv[i] - rv[i]) > 1e-9:
                        ctx.disagree('C12 keck ' + mode, {'case': case, 'rep': name, 'index': i, 'point': [float(xs[i]), float(ys[i])],
                                                          'model': mv[i], 'impl': float(rv[i])}, key='keck:model:%s' % name)
                        break
    return [l for _, l in lines], check


# ---------------------------------------------------------------------------------------------
# a non-hexagonal telescope pupil inside the model: the VLT and its four quadrants

def vlt_params(kw):
    """the constants of make_vlt_aperture, computed with its own NumPy expressions -> (model tokens after the segment
    index, pupil diameter)"""
    telescope = kw.get('telescope', 'ut3')
    if telescope in ('ut1', 'ut2', 'ut3'):
        pupil_diameter = 8.0
        central_obscuration_ratio = 1.116 / pupil_diameter
    else:
        pupil_diameter = 8.1196
        central_obscuration_ratio = 0.6465 * 2 / pupil_diameter
    spider_width = 0.040
    spider_offset = 0.4045
    spider_outer_radius = 4.2197
    outer_diameter_M3_stow = 1.070
    angle_between_spiders = 101
    if kw.get('normalized'):
        spider_width /= pupil_diameter
        spider_offset /= pupil_diameter
        spider_outer_radius /= pupil_diameter
        outer_diameter_M3_stow /= pupil_diameter
        pupil_diameter = 1.0
    spider_inner_radius = spider_offset / np.cos(np.radians(45 - (angle_between_spiders - 90) / 2))
    d45 = np.array([np.cos(np.pi / 4), np.sin(np.pi / 4)])
    se = [(-spider_inner_radius * d45, spider_outer_radius * np.array([np.cos(np.pi), np.sin(np.pi)])),
          (-spider_inner_radius * d45, spider_outer_radius * np.array([np.cos(-np.pi / 2), np.sin(-np.pi / 2)])),
          (spider_inner_radius * d45, spider_outer_radius * np.array([np.cos(0), np.sin(0)])),
          (spider_inner_radius * d45, spider_outer_radius * np.array([np.cos(np.pi / 2), np.sin(np.pi / 2)]))]
    sp = []
    if kw.get('with_spiders', True):
        for a, b in se:
            _, t, _, _ = build(['spider', [float(a[0]), float(a[1])], [float(b[0]), float(b[1])], spider_width])
            sp += t[1:]
    flat = []
    for a, b in se:
        flat += [a[0], a[1], b[0], b[1]]
    m3 = []
    if kw.get('with_M3_cover'):
        _, t, _, _ = build(['rect', outer_diameter_M3_stow, [outer_diameter_M3_stow / 2, 0]])
        m3 = t[1:]
    central = pupil_diameter * central_obscuration_ratio             # make_obstructed_circular_aperture
    return [rat(pupil_diameter / 2), rat(central / 2), '[' + ','.join(sp) + ']', rat_list(flat), '[' + ','.join(m3) + ']'], pupil_diameter


VLT_CONFIGS = [{}, {'normalized': True}, {'with_spiders': False}, {'telescope': 'ut4', 'with_M3_cover': True},
               {'telescope': 'ut4', 'normalized': True, 'with_M3_cover': True, 'with_spiders': False}, {'telescope': 'ut1', 'with_M3_cover': True}]


def run_vlt(ctx, kw, gseed, fam, nseg=2):
    """make_vlt_aperture and its quadrants against the model's vltShape / vltSegment on every representation"""
    import hcipy
    rng = np.random.default_rng(gseed)
    with warnings.catch_warnings():
        warnings.simplefilter('ignore')
        gen, segs = hcipy.make_vlt_aperture(return_segments=True, **kw)
    params, D = vlt_params(kw)
    gspec = gen_grid_family(rng, fam, nmax=11, half=0.55 * D * float(rng.uniform(0.15, 1.1)), exact=False)
    reps, xs, ys, sep = make_reps(gspec)
    scale = scale_of(xs, ys, D)
    case = {'kind': 'vlt', 'kw': kw, 'gseed': int(gseed), 'fam': fam, 'grid': gspec, 'nseg': nseg}
    which = ['-'] + [str(int(i)) for i in sorted(rng.choice(4, nseg, replace=False))]
    tol = rat(REL_TOL * scale)
    lines = []
    results = {}
    for w in which:
        g = gen if w == '-' else segs[int(w)]
        lab = 'vlt' if w == '-' else 'vlt:segment'
        res, fails = oracle(ctx, lab, g, reps, xs, ys, scale, {0.0, 1.0}, True)
        results[w] = res
        for key, what in fails:
            ctx.violation(key, what + ' [%r, segment %s]' % (kw, w), case)
        nz = [v for v in res.values() if v is not None]
        mixed = bool(nz) and 0 < np.count_nonzero(nz[0]) < len(xs)
        ctx.case(None, ('vlt-model', w, tuple(sorted(kw.items())), fam, len(xs), int(np.count_nonzero(nz[0]))) if mixed else None)
        rest = '%s %s' % (w, ' '.join(params))
        if sep is not None:
            lines.append(('sep', w, 'C12 vlt sep %s %s %s %s' % (tol, rat_list(sep[0]), rat_list(sep[1]), rest)))
        lines.append(('pts', w, 'C12 vlt pts %s %s %s %s' % (tol, rat_list(xs), rat_list(ys), rest)))
        if reps.get('polar') is not None:
            lines.append(('polar', w, polar_request('vlt', tol, reps['polar'], rest)))
    ctx.count('vlt-model-cases')
    for feat in grid_features(gspec, sep):
        ctx.count('cover:vlt(model)|' + feat)

    def check(out):
        for (mode, w, req), resp in zip(lines, out):
            parts = resp.split(' ')
            if parts[0] != 'ok':
                ctx.disagree('C12 vlt ' + mode, {'case': case, 'segment': w, 'model': resp})
                continue
            mv, near = _rats(parts[1]), _bits(parts[2])
            check_polar_slack(ctx, case, mode, parts)
            if parts[3] != '1':
                ctx.disagree('C12 model-self', {'case': case, 'detail': 'code-path model differs from point semantics', 'mode': mode})
            names = (('regular', 'separated', 'separated-indep') if mode == 'sep' else ('polar', 'polar-separated') if mode == 'polar'
                     else ('unstructured', 'unstructured-indep', 'polar', 'polar-separated'))
            for name in names:
                rv = results[w].get(name)
                if rv is None:
                    continue
                ctx.traces_validated += 1
                if len(mv) != len(rv):
                    ctx.disagree('C12 vlt ' + mode, {'case': case, 'detail': 'length'})
                    continue
                for i in range(len(rv)):
                    if near[i]:
                        ctx.boundary_skipped += 1
                        ctx.count('model-boundary-skipped')
                        continue
                    ctx.count('points-compared')
                    ctx.count('vlt-points-compared')
                    if abs(mv[i] - rv[i]) > 1e-9:
                        ctx.disagree('C12 vlt ' + mode, {'case': case, 'segment': w, 'rep': name, 'index': i, 'point': [float(xs[i]), float(ys[i])],
                                                         'model': mv[i], 'impl': float(rv[i])},
                                     key='vlt%s:model:%s' % ('' if w == '-' else ':segment', name))
                        break
    return [l for _, _, l in lines], check


# ---------------------------------------------------------------------------------------------
# the simple telescope pupils as compositions of the modelled makers: Magellan, Hale, HabEx, HST
# (the recipe of realistic.py is transcribed here as a model shape tree from the generic makers' own tokens, so
# that these pupils are instances of the generic theorems fast_path_eq_inside / polar_path_eq_inside — and the
# transcription is checked against the running code on every representation)

RECIPE_PUPILS = [
    ('make_magellan_aperture', {}), ('make_magellan_aperture', {'normalized': True}), ('make_magellan_aperture', {'with_spiders': False}),
    ('make_hale_aperture', {}), ('make_hale_aperture', {'normalized': True}), ('make_hale_aperture', {'normalized': True, 'with_spiders': False}),
    ('make_habex_aperture', {}), ('make_habex_aperture', {'normalized': True}),
    ('make_hst_aperture', {}), ('make_hst_aperture', {'normalized': True}), ('make_hst_aperture', {'with_pads': False}),
    ('make_hst_aperture', {'normalized': True, 'with_spiders': False}),
]


def recipe_pupil(name, kw):
    """-> (model tokens, pupil diameter, feature points worth zooming in on); constants and arithmetic as in realistic.py"""
    def toks(spec):
        return build(spec)[1]

    def mul(parts):
        out = parts[0]
        for p in parts[1:]:
            out = ['mul'] + out + p
        return out
    normalized = kw.get('normalized', False)
    with_spiders = kw.get('with_spiders', True)
    if name == 'make_magellan_aperture':
        pupil_diameter = 6.5
        spider_width1 = 0.75 * 0.0254
        spider_width2 = 1.5 * 0.0254
        central_obscuration_ratio = 0.29
        spider_offset = np.array([0.34, 0.0])
        if normalized:
            spider_width1 /= pupil_diameter
            spider_width2 /= pupil_diameter
            spider_offset /= pupil_diameter
            pupil_diameter = 1.0
        parts = [toks(['obstructed', pupil_diameter, central_obscuration_ratio, 0, 0.01])]
        feats = [([0.0, 0.0], pupil_diameter * central_obscuration_ratio / 2)]
        if with_spiders:
            for off, deg, w in ((-spider_offset, 45.0, spider_width1), (-spider_offset, -45.0, spider_width1),
                                (spider_offset, 45.0 + 180.0, spider_width2), (spider_offset, -45.0 + 180.0, spider_width2)):
                parts.append(toks(['spiderinf', [float(off[0]), float(off[1])], deg, w]))
                a = np.radians(deg)
                # make_spider_infinite starts at -p
                feats += [([float(-off[0]), float(-off[1])], 2 * w), ([float(-off[0] + 0.3 * pupil_diameter * np.cos(a)), float(-off[1] + 0.3 * pupil_diameter * np.sin(a))], 2 * w)]
        return mul(parts), pupil_diameter, feats
    if name == 'make_hale_aperture':
        pupil_diameter = 5.08
        central_obscuration_diameter = 1.86
        spider_width = 2 * 0.024
        central_obscuration_ratio = central_obscuration_diameter / pupil_diameter
        box_heigth = 2 * 0.06
        box_width = 2 * 0.0932 + central_obscuration_diameter
        if normalized:
            spider_width /= pupil_diameter
            box_heigth /= pupil_diameter
            box_width /= pupil_diameter
            pupil_diameter = 1.0
        ob = ['obstructed', pupil_diameter, central_obscuration_ratio, 4, spider_width] if with_spiders else ['obstructed', pupil_diameter, central_obscuration_ratio, 0, 0.01]
        parts = [toks(ob), toks(['obstruction', ['rect', [box_width, box_heigth], None]]), toks(['obstruction', ['rect', [box_heigth, box_width], None]])]
        feats = [([box_width / 2, 0.0], box_heigth), ([0.0, box_width / 2], box_heigth), ([-box_width / 2, box_heigth / 2], box_heigth),
                 ([0.3 * pupil_diameter, 0.0], spider_width), ([0.0, -0.3 * pupil_diameter], spider_width)]
        return mul(parts), pupil_diameter, feats
    if name == 'make_habex_aperture':
        pupil_diameter = 4.0
        if normalized:
            pupil_diameter = 1
        return toks(['circle', pupil_diameter, None]), float(pupil_diameter), [([pupil_diameter / 2, 0.0], pupil_diameter / 8)]
    if name == 'make_hst_aperture':
        pupil_diameter = 2.4
        secondary_obscuration_ratio = 0.330
        spider_width = 0.022 / 2
        pad_v3 = np.array([0.8921, -0.4615, -0.4564]) / 2
        pad_v2 = np.array([0.0000, 0.7555, -0.7606]) / 2
        pad_radii = np.array([0.065, 0.065, 0.065]) / 2
        if normalized:
            pupil_diameter = 1
        else:
            spider_width *= pupil_diameter
            pad_v3 *= pupil_diameter
            pad_v2 *= pupil_diameter
            pad_radii *= pupil_diameter
        parts = [toks(['obstructed', pupil_diameter, secondary_obscuration_ratio, 4 if with_spiders else 0, spider_width])]
        feats = [([0.3 * pupil_diameter, 0.0], spider_width), ([0.0, 0.3 * pupil_diameter], spider_width),
                 ([pupil_diameter * secondary_obscuration_ratio / 2, 0.0], pupil_diameter / 16)]
        if kw.get('with_pads', True):
            for v3, v2, r in zip(pad_v3, pad_v2, pad_radii):
                parts.append(toks(['obstruction', ['circle', float(2 * r), [float(-v2), float(v3)]]]))
                feats += [([float(-v2), float(v3)], float(r)), ([float(-v2 + r), float(v3)], float(r) / 8)]
        return mul(parts), float(pupil_diameter), feats
    raise MachineryError('recipe_pupil: %r' % (name,))


def run_recipe(ctx, name, kw, gseed, fam, feat=None):
    """a simple telescope pupil against its recipe evaluated by the model (eval sep | pts | polar), on every representation;
    half of the grids zoom in on a feature (spider, pad, box corner) so that thin structures are resolved"""
    import hcipy
    rng = np.random.default_rng(gseed)
    with warnings.catch_warnings():
        warnings.simplefilter('ignore')
        gen = getattr(hcipy, name)(**kw)
    toks, D, feats = recipe_pupil(name, kw)
    short = name[len('make_'):-len('_aperture')]
    if feat is not None:
        # directed: a small grid around one feature, pixel size of the order of the feature's width (fine: an eighth of it)
        c, w = feats[feat[0] % len(feats)]
        half = 3 * w / (8 if feat[1] else 1)
        ctx.count('recipe-grid:feature')
    elif rng.random() < 0.5 and not fam.startswith('polar'):
        c, w = feats[int(rng.integers(0, len(feats)))]
        half = w * 10 ** float(rng.uniform(-0.5, 1.0))
        ctx.count('recipe-grid:zoomed')
    else:
        c = [0.0, 0.0]
        half = 0.55 * D * float(rng.uniform(0.15, 1.1))
        ctx.count('recipe-grid:whole')
    gspec = gen_grid_family(rng, fam, nmax=11, half=half, centre=(c[0], c[1]), exact=False)
    reps, xs, ys, sep = make_reps(gspec)
    scale = scale_of(xs, ys, D)
    case = {'kind': 'recipe', 'name': name, 'kw': kw, 'gseed': int(gseed), 'fam': fam, 'feat': feat, 'grid': gspec}
    tol = rat(REL_TOL * scale)
    res, fails = oracle(ctx, 'pupil:' + short, gen, reps, xs, ys, scale, {0.0, 1.0}, True)
    for key, what in fails:
        ctx.violation(key, what + ' [%r]' % (kw,), case)
    nz = [v for v in res.values() if v is not None]
    mixed = bool(nz) and 0 < np.count_nonzero(nz[0]) < len(xs)
    ctx.case(None, ('recipe', short, tuple(sorted(kw.items())), fam, len(xs), int(np.count_nonzero(nz[0]))) if mixed else None)
    ctx.count('recipe-cases:' + short)
    ctx.count('recipe-field:' + ('mixed' if mixed else 'constant'))
    lines = []
    if sep is not None:
        lines.append(('sep', 'C12 eval sep %s %s %s %s' % (tol, rat_list(sep[0]), rat_list(sep[1]), ' '.join(toks))))
    lines.append(('pts', 'C12 eval pts %s %s %s %s' % (tol, rat_list(xs), rat_list(ys), ' '.join(toks))))
    if reps.get('polar') is not None:
        lines.append(('polar', polar_request('eval', tol, reps['polar'], ' '.join(toks))))

    def check(out):
        for (mode, req), resp in zip(lines, out):
            parts = resp.split(' ')
            if parts[0] != 'ok':
                ctx.disagree('C12 recipe ' + mode, {'case': case, 'model': resp[:80]})
                continue
            mv, near = _rats(parts[1]), _bits(parts[2])
            check_polar_slack(ctx, case, mode, parts)
            if parts[3] != '1':
                ctx.disagree('C12 model-self', {'case': case, 'detail': 'code-path model differs from point semantics', 'mode': mode})
            names = (('regular', 'separated', 'separated-indep') if mode == 'sep' else ('polar', 'polar-separated') if mode == 'polar'
                     else ('unstructured', 'unstructured-indep', 'polar', 'polar-separated'))
            for nm in names:
                rv = res.get(nm)
                if rv is None:
                    continue
                ctx.traces_validated += 1
                if len(mv) != len(rv):
                    ctx.disagree('C12 recipe ' + mode, {'case': case, 'detail': 'length', 'model': len(mv), 'impl': len(rv)})
                    continue
                for i in range(len(rv)):
                    if near[i]:
                        ctx.boundary_skipped += 1
                        ctx.count('model-boundary-skipped')
                        continue
                    ctx.count('points-compared')
                    ctx.count('recipe-points-compared')
                    if abs(mv[i] - rv[i]) > 1e-9:
                        ctx.disagree('C12 recipe ' + mode, {'case': case, 'rep': nm, 'index': i, 'point': [float(xs[i]), float(ys[i])],
                                                            'model': mv[i], 'impl': float(rv[i])}, key='recipe:%s:model:%s' % (short, rep_class(nm)))
                        break
    return [l for _, l in lines], check


# ---------------------------------------------------------------------------------------------
# round 5: the hexagonally segmented pupils inside the model (LUVOIR A/B, ELT, TMT, HiCAT): the lattice, WHICH segments are
# dropped (Grid.subset criteria evaluated by the model's own aperture code), obscuration, spiders, flags, returned segments

HEXMODEL_PUPILS = ('make_luvoir_a_aperture', 'make_luvoir_b_aperture', 'make_elt_aperture', 'make_tmt_aperture', 'make_hicat_aperture')


def _hexagon_toks(circum, angle):
    return build(['regpoly', 6, float(circum), float(angle), None])[1]


def hexpupil_cfg(name, kw):
    """the constants of the maker, computed with its own NumPy expressions -> dict(rings, pitch, sels, segment, obs, spiders,
    hw, loop, D, widths) resp. the HiCAT dict"""
    normalized = kw.get('normalized', False)
    with_spiders = kw.get('with_spiders', True)
    gaps = kw.get('with_segment_gaps', True)
    pad = kw.get('gap_padding', 1)
    if name == 'make_luvoir_a_aperture':
        pupil_diameter = 15.0
        actual_flat = 1.2225
        actual_gap = 0.006
        spider_width = 0.150
        spid_start = 0.30657
        lower = 12.7
        segment_gap = actual_gap * pad
        if not gaps:
            segment_gap = 0
        flat = actual_flat - (segment_gap - actual_gap)
        circum = 2 / np.sqrt(3) * flat
        if normalized:
            circum /= pupil_diameter
            actual_flat /= pupil_diameter
            actual_gap /= pupil_diameter
            spider_width /= pupil_diameter
            spid_start /= pupil_diameter
            pupil_diameter = 1.0
        sp = [([0, 0], 90), ([spid_start, 0], 270 - lower), ([-spid_start, 0], 270 + lower)] if with_spiders else []
        return dict(rings=6, pitch=actual_flat + actual_gap,
                    sels=[['nonzero', 'disk', rat(pupil_diameter * 0.98 / 2)], ['notpos', 'disk', rat(circum / 2)]],
                    segment=_hexagon_toks(circum, np.pi / 2), obs=None, spiders=sp, hw=spider_width / 2, loop=False, D=pupil_diameter,
                    gap=actual_flat + actual_gap - flat, segsize=circum)
    if name == 'make_luvoir_b_aperture':
        pupil_diameter = 8.0
        actual_flat = 0.955
        actual_gap = 0.006
        segment_gap = actual_gap * pad
        if not gaps:
            segment_gap = 0
        flat = actual_flat - (segment_gap - actual_gap)
        circum = 2 / np.sqrt(3) * flat
        if normalized:
            circum /= pupil_diameter
            actual_flat /= pupil_diameter
            actual_gap /= pupil_diameter
            pupil_diameter = 1.0
        return dict(rings=4, pitch=actual_flat + actual_gap, sels=[['nonzero', 'disk', rat(pupil_diameter * 0.9 / 2)]],
                    segment=_hexagon_toks(circum, np.pi / 2), obs=None, spiders=[], hw=0.0, loop=False, D=pupil_diameter,
                    gap=actual_flat + actual_gap - flat, segsize=circum)
    if name == 'make_elt_aperture':
        elt_outer_diameter = 39.14634
        spider_width = 0.4
        segment_size = 1.45
        segment_gap = 0.004
        inner_diameter = 9.4136
        outer_diameter = 39.14634
        if normalized:
            segment_size /= elt_outer_diameter
            segment_gap /= elt_outer_diameter
            inner_diameter /= elt_outer_diameter
            outer_diameter /= elt_outer_diameter
            spider_width /= elt_outer_diameter
        lim = (outer_diameter / 2) * 0.99
        strips = [0.0, 1.0, lim, np.cos(np.pi / 6), np.sin(np.pi / 6), lim, np.cos(np.pi / 6), -np.sin(np.pi / 6), lim]
        sp = [([0, 0], 60 * i + 30) for i in range(6)] if with_spiders else []
        return dict(rings=17, pitch=segment_size * np.sqrt(3) / 2 + segment_gap,
                    sels=[['cpos'] + _hexagon_toks(inner_diameter * 2 / np.sqrt(3), 0), ['strips', rat_list(strips)]],
                    segment=_hexagon_toks(segment_size, np.pi / 2), obs=None, spiders=sp, hw=spider_width / 2, loop=True,
                    D=outer_diameter, gap=segment_gap, segsize=segment_size)
    if name == 'make_tmt_aperture':
        tmt_outer_diameter = 30.0
        spider_width = 0.22
        segment_size = 1.44
        segment_gap = 0.0025
        inner_diameter = 2.5 * segment_size
        central_obscuration = 3.636
        if normalized:
            spider_width /= tmt_outer_diameter
            segment_size /= tmt_outer_diameter
            segment_gap /= tmt_outer_diameter
            inner_diameter /= tmt_outer_diameter
            central_obscuration /= tmt_outer_diameter
            tmt_outer_diameter = 1.0
        sp = [([0, 0], 60 * i + 30) for i in range(6)] if with_spiders else []
        return dict(rings=13, pitch=segment_size * np.sqrt(3) / 2 + segment_gap,
                    sels=[['cpos'] + _hexagon_toks(inner_diameter * 2 / np.sqrt(3), 0), ['pos', 'disk', rat(0.98 * tmt_outer_diameter / 2)]],
                    segment=_hexagon_toks(segment_size, np.pi / 2), obs=central_obscuration / 2, spiders=sp, hw=spider_width / 2, loop=True,
                    D=tmt_outer_diameter, gap=segment_gap, segsize=segment_size)
    if name == 'make_hicat_aperture':
        gamma_21 = 0.423
        gamma_31 = 1.008
        p2_size = 1.4e-3
        p2_side = p2_size / 2
        p2_gap = 12e-6
        p2_dist = p2_side * np.sqrt(3)
        p2_circum = (2 * p2_side) - (2 / np.sqrt(3)) * p2_gap
        p3_size = 19.725e-3
        p3_mask_gap = 0.090e-3
        p3_irisao_gap = p2_gap * gamma_31 / gamma_21
        p3_central = 3.950e-3
        p3_spiders = 0.350e-3
        p3_irisao_circum = p2_circum * gamma_31 / gamma_21
        p3_dist = p2_dist * gamma_31 / gamma_21
        p3_seg_circum = p3_irisao_circum + (-p3_mask_gap + p3_irisao_gap) * (2 / np.sqrt(3))
        if normalized:
            p3_seg_circum /= p3_size
            p3_dist /= p3_size
            p3_central /= p3_size
            p3_spiders /= p3_size
            p3_size = 1
        sp = [([0, 0], 60), ([0, 0], 120), ([0, 0], -60), ([0, 0], -120)] if with_spiders else []
        return dict(hicat=True, pitchA=p3_dist, segA=_hexagon_toks(p3_seg_circum, np.pi / 2),
                    pitchB=p3_size / 7, segB=_hexagon_toks(p3_size / 7 / np.sqrt(3) * 2, np.pi / 2),
                    central=_hexagon_toks(p3_central, np.pi / 2), gaps=gaps, spiders=sp, hw=p3_spiders / 2, D=float(p3_size),
                    gap=p3_mask_gap * (1.0 / 19.725e-3 if normalized else 1.0), segsize=p3_seg_circum, rings=3, pitch=p3_dist,
                    centralsize=p3_central)
    raise MachineryError('hexpupil_cfg: %r' % (name,))


def _spider_flat(sp):
    out = []
    for p, deg in sp:
        a = np.radians(deg)
        out += [float(p[0]), float(p[1]), np.cos(a), np.sin(a)]
    return rat_list(out)


def hexpupil_tokens(cfg, trs_tok):
    """-> the tokens after `<segment|->` of `C12 hexpupil` resp. `C12 hicat`"""
    if cfg.get('hicat'):
        return ' '.join(['1' if cfg['gaps'] else '0', rat(cfg['hw']), _spider_flat(cfg['spiders']), rat(cfg['pitchA']),
                         rat(cfg['pitchA'] * np.sqrt(3) / 4), rat(cfg['pitchB']), rat(cfg['pitchB'] * np.sqrt(3) / 4)]
                        + cfg['segA'] + cfg['segB'] + cfg['central'])
    sels = []
    for t in cfg['sels']:
        sels += t
    return ' '.join([str(cfg['rings']), rat(cfg['pitch']), rat(cfg['pitch'] * np.sqrt(3) / 4), '1' if cfg['loop'] else '0', rat(cfg['hw']),
                     '-' if cfg['obs'] is None else rat(cfg['obs']), _spider_flat(cfg['spiders']), trs_tok, str(len(cfg['sels']))]
                    + sels + cfg['segment'])


def spy_positions(name, kw_real):
    """call the real maker with make_segmented_aperture wrapped so that the segment positions it is handed are observed
    -> (what the maker returned, [positions array (n, 2) per make_segmented_aperture call])"""
    import hcipy.aperture.realistic as rl
    seen = []
    orig = rl.make_segmented_aperture

    def wrapped(segment_shape, segment_positions, *a, **k):
        try:
            seen.append(np.array(segment_positions.points, float).reshape(-1, 2))
        except Exception:                                       # noqa  (observation fault: reported by the caller as a disagreement)
            seen.append(None)
        return orig(segment_shape, segment_positions, *a, **k)
    rl.make_segmented_aperture = wrapped
    try:
        with warnings.catch_warnings():
            warnings.simplefilter('ignore')
            made = getattr(rl, name)(**kw_real)
    finally:
        rl.make_segmented_aperture = orig
    return made, seen


def hexpupil_features(cfg, kept):
    """points worth zooming in on: [(centre, width, label)]: dropped lattice sites next to kept segments, the gap between two kept
    neighbours, the obscuration rim, points on every spider, the pupil's outer corner segments"""
    import hcipy
    lat = np.array(hcipy.make_hexagonal_grid(cfg['pitch'], cfg['rings']).points, float).reshape(-1, 2)
    feats = []
    pitch, size = cfg['pitch'], cfg['segsize']
    if kept is not None and len(kept):
        d = np.sqrt(((lat[:, None, :] - kept[None, :, :]) ** 2).sum(-1))
        dmin = d.min(axis=1)
        dropped = np.flatnonzero((dmin > 0.5 * pitch) & (dmin < 1.2 * pitch))
        # a few dropped sites that touch the kept region: innermost and outermost ones
        rad = np.hypot(lat[dropped, 0], lat[dropped, 1])
        order = dropped[np.argsort(rad)]
        for i in list(order[:2]) + list(order[-3:]):
            feats.append(([float(lat[i, 0]), float(lat[i, 1])], size, 'dropped-site'))
        rk = np.hypot(kept[:, 0], kept[:, 1])
        for i in (int(np.argmax(rk)), int(np.argmin(rk))):
            feats.append(([float(kept[i, 0]), float(kept[i, 1])], size, 'kept-extreme'))
        # the gap between two kept neighbours
        dk = np.sqrt(((kept[:, None, :] - kept[None, :, :]) ** 2).sum(-1))
        ii, jj = np.nonzero((dk > 0.5 * pitch) & (dk < 1.2 * pitch))
        if len(ii):
            k = len(ii) // 3
            m = (kept[ii[k]] + kept[jj[k]]) / 2
            feats.append(([float(m[0]), float(m[1])], max(4 * cfg['gap'], size / 16), 'gap'))
    if cfg.get('obs') is not None:
        # the obscuration's rim towards the innermost kept segments (the ones it cuts), else a fixed direction
        dirs = [(0.6, 0.8)]
        if kept is not None and len(kept):
            near0 = np.argsort(np.hypot(kept[:, 0], kept[:, 1]))[:6]
            dirs = [(float(kept[i, 0] / np.hypot(*kept[i])), float(kept[i, 1] / np.hypot(*kept[i]))) for i in near0 if np.hypot(*kept[i]) > 0]
        for ux, uy in dirs:
            feats.append(([float(cfg['obs']) * ux, float(cfg['obs']) * uy], size / 2, 'obscuration-rim'))
    if cfg.get('hicat'):
        feats.append(([0.0, 0.0], cfg['centralsize'], 'central-segment'))
        feats.append(([cfg['centralsize'] / 2 * 0.8, 0.0], cfg['centralsize'] / 8, 'central-segment-edge'))
        feats.append(([cfg['D'] / 2 * 0.9, 0.0], size, 'contour'))
    for p, deg in cfg['spiders']:
        a = np.radians(deg)
        for frac in (0.02, 0.3):
            feats.append(([float(-p[0] + frac * cfg['D'] * np.cos(a)), float(-p[1] + frac * cfg['D'] * np.sin(a))], 4 * cfg['hw'], 'spider'))
    return feats


def run_hexpupil(ctx, name, kw, gseed, fam, feat=None):
    """a hexagonally segmented telescope pupil against the model's own derivation (lattice, dropped segments, composition),
    pupil and returned segments, on every representation; directed grids zoom in on the features"""
    rng = np.random.default_rng(gseed)
    short = name[len('make_'):-len('_aperture')]
    label = 'pupil:' + short
    case = {'kind': 'hexpupil', 'name': name, 'kw': kw, 'gseed': int(gseed), 'fam': fam, 'feat': feat}
    cfg = hexpupil_cfg(name, kw)
    kw_real = {k: v for k, v in kw.items() if k != 'transmissions'}
    kw_real['return_segments'] = True
    try:
        made, seen = spy_positions(name, kw_real)
    except Exception as e:                                      # noqa
        ctx.violation('%s:maker-raises:%s' % (label, type(e).__name__), '%s(%r) raises %s' % (name, kw, type(e).__name__), case)
        return [], (lambda out: None)
    gen, segs = made[0], made[-1]
    kept = seen[-1] if seen and seen[-1] is not None else None   # the positions of the segmented aperture whose segments are returned
    if kept is None or len(kept) != len(segs):
        ctx.disagree('C12 hexpupil observe', {'case': case, 'detail': 'could not observe the segment positions'}, key='hexpupil:%s:observe' % short)
        kept = None
    trs = None
    if kw.get('transmissions') and not cfg.get('hicat'):
        trs = np.round(rng.uniform(0, 1, len(segs)) * 16) / 16
        kw_real['segment_transmissions'] = trs
        try:
            made, _ = spy_positions(name, kw_real)
        except Exception as e:                                  # noqa
            ctx.violation('%s:maker-raises:%s' % (label, type(e).__name__), '%s(%r) raises %s' % (name, kw, type(e).__name__), case)
            return [], (lambda out: None)
        gen, segs = made[0], made[-1]
    trs_tok = rat_list(trs) if trs is not None else 's:1'
    D = cfg['D']
    feats = hexpupil_features(cfg, kept)
    crossing = None
    if feat is not None and feat[0] == 'spider-crossings':
        # directed: EVERY spider is crossed twice by a row of 5 points (offsets -3, -1/2, 0, 1/2, 3 half widths) at random
        # distances from its start point; an explicit unstructured point set
        if not cfg['spiders']:
            return [], (lambda out: None)
        px, py, crossing = [], [], []
        for sp_p, deg in cfg['spiders']:
            a = np.radians(deg)
            for _ in range(2):
                t = float(rng.uniform(0.15, 0.42)) * D
                cx, cy = -sp_p[0] + t * np.cos(a), -sp_p[1] + t * np.sin(a)
                crossing.append((cx, cy))
                for o in (-3.0, -0.5, 0.0, 0.5, 3.0):
                    px.append(float(cx - o * cfg['hw'] * np.sin(a)))
                    py.append(float(cy + o * cfg['hw'] * np.cos(a)))
        ctx.count('hexpupil-grid:feature:spider-crossings')
        c, half = [0.0, 0.0], D / 2
    elif feat is not None:
        # directed: [label, k, fine] = the k-th feature with that label; a small grid around it, pixels of the order of the feature
        sel = [f for f in feats if f[2] == feat[0]]
        if not sel:
            return [], (lambda out: None)
        c, w, flabel = sel[feat[1] % len(sel)]
        half = 1.5 * w / (4 if feat[2] else 1)
        ctx.count('hexpupil-grid:feature:' + flabel)
    elif rng.random() < 0.5 and not fam.startswith('polar'):
        c, w, flabel = feats[int(rng.integers(0, len(feats)))]
        half = w * 10 ** float(rng.uniform(-0.5, 0.7))
        ctx.count('hexpupil-grid:zoomed:' + flabel)
    else:
        c = [0.0, 0.0]
        half = 0.55 * D * float(rng.uniform(0.3, 1.1))
        ctx.count('hexpupil-grid:whole')
    heavy = name in HEAVY
    if crossing is not None:
        gspec = ['pts', px, py]
    else:
        gspec = gen_grid_family(rng, fam, nmax=(5 if feat is not None else 6) if heavy else 7, half=half, centre=(c[0], c[1]), exact=False)
    case['grid'] = gspec
    reps, xs, ys, sep = make_reps(gspec)
    scale = scale_of(xs, ys, D)
    tol = rat(REL_TOL * scale)
    allowed = {0.0, 1.0} | (set(float(t) for t in trs) if trs is not None else set())
    # which of the returned segments: the one nearest to the grid's centre and a random one
    pick = []
    if kept is not None and len(kept):
        pick = sorted({int(np.argmin(np.hypot(kept[:, 0] - np.mean(xs), kept[:, 1] - np.mean(ys)))), int(rng.integers(0, len(kept)))})
        if crossing is not None:
            # the segments the spiders cut: nearest to two of the crossing points
            pick = sorted({int(np.argmin(np.hypot(kept[:, 0] - crossing[j][0], kept[:, 1] - crossing[j][1])))
                           for j in rng.choice(len(crossing), 2, replace=False)})
    case['segments'] = pick
    rest = hexpupil_tokens(cfg, trs_tok)
    op = 'hicat' if cfg.get('hicat') else 'hexpupil'
    targets = [('-', label, gen)] + [(str(i), label + ':segment', segs[i]) for i in pick]
    lines = []
    results = {}
    for segtok, lab, g in targets:
        res, fails = oracle(ctx, lab, g, reps, xs, ys, scale, allowed, True)
        results[segtok] = res
        for key, what in fails:
            ctx.violation(key, what + ' [%r]' % (kw,), case)
        nz = [v for v in res.values() if v is not None]
        mixed = bool(nz) and 0 < np.count_nonzero(nz[0]) < len(xs)
        ctx.case(None, ('hexpupil', short, segtok != '-', tuple(sorted(kw.items())), fam, len(xs), int(np.count_nonzero(nz[0]))) if mixed else None)
        ctx.count('hexpupil-field:' + ('mixed' if mixed else 'constant'))
        if sep is not None:
            lines.append((segtok, 'sep', 'C12 %s sep %s %s %s %s %s' % (op, tol, rat_list(sep[0]), rat_list(sep[1]), segtok, rest)))
        lines.append((segtok, 'pts', 'C12 %s pts %s %s %s %s %s' % (op, tol, rat_list(xs), rat_list(ys), segtok, rest)))
        # the polar code path of the model: on polar families, and for the (cheap) segments always
        if reps.get('polar') is not None and (fam.startswith('polar') or segtok != '-' or crossing is not None):
            lines.append((segtok, 'polar', polar_request(op, tol, reps['polar'], segtok + ' ' + rest)))
    # pupil = union of the returned segments (unit transmissions: non-zero exactly where some segment is non-zero), on the real code,
    # using the segments evaluated above plus, on small pupils, all of them
    if trs is None and len(segs) <= 130 and feat is None:
        g0 = reps.get('unstructured') or list(reps.values())[0]
        try:
            with warnings.catch_warnings():
                warnings.simplefilter('ignore')
                tot = np.zeros(len(xs))
                for sg in segs:
                    tot = np.maximum(tot, np.array(sg(g0), float))
                pv = np.array(gen(g0), float)
            bad = np.flatnonzero(np.abs(tot - pv) > 1e-12)
            bad = [int(i) for i in bad if not on_boundary(gen, xs[i], ys[i], REL_TOL * scale)]
            ctx.count('hexpupil-union-checks')
            if bad:
                i = bad[0]
                ctx.violation('%s:union-of-segments' % label, '%s: at (%r, %r) the pupil is %r but the maximum over the returned segments is %r [%r]' % (
                    label, float(xs[i]), float(ys[i]), float(pv[i]), float(tot[i]), kw), case)
        except Exception as e:                                  # noqa
            ctx.violation('%s:segments-raise:%s' % (label, type(e).__name__), '%s: evaluating the returned segments raises %s' % (label, type(e).__name__), case)
    ctx.count('hexpupil-cases:' + short)
    for f in grid_features(gspec, sep):
        ctx.count('cover:%s(model)|%s' % (short, f))
    # the kept segment centres themselves
    poslines = []
    if not cfg.get('hicat') and kept is not None:
        sels = []
        for t in cfg['sels']:
            sels += t
        poslines.append('C12 hexpos %d %s %s %d %s' % (cfg['rings'], rat(cfg['pitch']), rat(cfg['pitch'] * np.sqrt(3) / 4), len(cfg['sels']), ' '.join(sels)))

    def check(out):
        for (segtok, mode, req), resp in zip(lines, out):
            what = 'segment' if segtok != '-' else 'pupil'
            parts = resp.split(' ')
            if parts[0] != 'ok':
                ctx.disagree('C12 hexpupil ' + mode, {'case': case, 'which': segtok, 'model': resp[:80], 'impl-segments': len(segs)},
                             key='hexpupil:%s:%s:model-refuses' % (short, what))
                continue
            mv, near = _rats(parts[1]), _bits(parts[2])
            check_polar_slack(ctx, case, mode, parts)
            if parts[3] != '1' and not (parts[3] == '-' and segtok == '-' and mode != 'polar'):
                ctx.disagree('C12 model-self', {'case': case, 'detail': 'code-path model differs from point semantics', 'mode': mode})
            names = (('regular', 'separated', 'separated-indep') if mode == 'sep' else ('polar', 'polar-separated') if mode == 'polar'
                     else ('unstructured', 'unstructured-indep', 'polar', 'polar-separated'))
            for nm in names:
                rv = results[segtok].get(nm)
                if rv is None:
                    continue
                ctx.traces_validated += 1
                if len(mv) != len(rv):
                    ctx.disagree('C12 hexpupil ' + mode, {'case': case, 'detail': 'length', 'model': len(mv), 'impl': len(rv)})
                    continue
                for i in range(len(rv)):
                    if near[i]:
                        ctx.boundary_skipped += 1
                        ctx.count('model-boundary-skipped')
                        ctx.count('boundary-skipped:hexpupil')
                        continue
                    ctx.count('points-compared')
                    ctx.count('hexpupil-points-compared')
                    if abs(mv[i] - rv[i]) > 1e-9:
                        ctx.disagree('C12 hexpupil ' + mode, {'case': case, 'which': segtok, 'rep': nm, 'index': i, 'point': [float(xs[i]), float(ys[i])],
                                                              'model': mv[i], 'impl': float(rv[i])},
                                     key='hexpupil:%s:%s:model:%s' % (short, what, rep_class(nm)))
                        break
        for resp in out[len(lines):]:
            ctx.traces_validated += 1
            parts = resp.split(' ')
            mp = np.array(_rats(parts[1]) if parts[0] == 'ok' and len(parts) > 1 else [], float).reshape(-1, 2)
            ctx.count('hexpupil-positions-compared')
            if mp.shape != kept.shape or np.abs(mp - kept).max(initial=0.0) > 1e-9 * D:
                ctx.disagree('C12 hexpos', {'case': case, 'model-count': int(len(mp)), 'impl-count': int(len(kept)),
                                            'first-difference': next(([float(a[0]), float(a[1])], [float(b[0]), float(b[1])])
                                                                     for a, b in zip(list(mp) + [[np.nan, np.nan]], list(kept) + [[np.nan, np.nan]])
                                                                     if not np.allclose(a, b, atol=1e-9 * D)) if len(mp) or len(kept) else None},
                             key='hexpupil:%s:positions' % short)
    return [l for _, _, l in lines] + poslines, check


HEXMODEL_FEATURES = {
    'make_luvoir_a_aperture': ('dropped-site', 'kept-extreme', 'gap', 'spider', 'spider-crossings'),
    'make_luvoir_b_aperture': ('dropped-site', 'kept-extreme', 'gap'),
    'make_elt_aperture': ('dropped-site', 'kept-extreme', 'gap', 'spider', 'spider-crossings'),
    'make_tmt_aperture': ('dropped-site', 'kept-extreme', 'gap', 'spider', 'spider-crossings', 'obscuration-rim'),
    'make_hicat_aperture': ('kept-extreme', 'gap', 'spider', 'spider-crossings', 'central-segment', 'central-segment-edge', 'contour'),
}

HEXMODEL_CONFIGS = {
    'make_luvoir_a_aperture': [{}, {'normalized': True}, {'with_spiders': False}, {'with_segment_gaps': False}, {'gap_padding': 5},
                               {'transmissions': True}, {'normalized': True, 'with_spiders': False, 'gap_padding': 10, 'transmissions': True}],
    'make_luvoir_b_aperture': [{}, {'normalized': True}, {'with_segment_gaps': False}, {'gap_padding': 5}, {'transmissions': True, 'normalized': True}],
    'make_elt_aperture': [{}, {'normalized': True, 'with_spiders': False}, {'transmissions': True}],
    'make_tmt_aperture': [{}, {'normalized': True}, {'with_spiders': False}, {'transmissions': True, 'normalized': True}],
    'make_hicat_aperture': [{}, {'normalized': True}, {'with_spiders': False}, {'with_segment_gaps': False},
                            {'normalized': True, 'with_spiders': False, 'with_segment_gaps': False}],
}


# ---------------------------------------------------------------------------------------------
# round 5: comparisons ON the decision boundary, where the decision is exactly representable (dyadic sizes/centres, axis-aligned:
# every float operation of the maker is exact).  The model is asked with tolerance 0 (nothing is skipped); which side the model
# (spiders only along +x: angle 0 has cos = 1, sin = 0 exactly; angle pi has sin = 1.2e-16.)  Which side the model
# takes is proved: rect_boundary_closed, circle_boundary_closed, spider_boundary_blocked, spider_infinite_boundary_blocked.

EXACT_BOUNDARY_SHAPES = [
    ['rect', [1.5, 1.0], [0.25, -0.5]], ['rect', 1.25, None], ['rect', [0.0, 1.0], [0.5, 0.0]],
    ['circle', 1.25, None], ['circle', 1.25, [0.5, 0.25]], ['circle', 0.0, [0.25, 0.25]],
    ['spider', [-1.0, 0.25], [1.0, 0.25], 0.5], ['spider', [-0.5, -0.5], [1.0, -0.5], 0.25],
    ['spiderinf', [0.25, -0.5], 0.0, 0.5], ['spiderinf', [0.0, 0.0], 0.0, 0.25],
    ['shifted', ['rect', [1.5, 1.0], None], [0.5, -0.25]], ['obstruction', ['rect', [1.0, 0.75], [0.125, 0.125]]],
    ['obstruction', ['circle', 1.25, [0.5, 0.25]]], ['shifted', ['circle', 1.25, None], [-0.375, 0.5]],
    ['segmented', ['rect', [0.5, 0.25], None], [[-0.5, 0.0], [0.0, 0.0], [0.5, 0.25]], [0.5, 1.0, 0.25]],
    ['segmented', ['circle', 0.625, None], [[-0.625, 0.0], [0.0, 0.0]], 1.0],
]
EXACT_BOUNDARY_GRIDS = [['regular', [25, 25], [0.125, 0.125], [-1.5, -1.5]],
                        ['regular', [13, 9], [-0.25, 0.125], [1.5, -0.5]],
                        ['sep', [0.625, -0.5, 1.0, 0.0, -0.25, 0.375, 0.875, -1.0], [0.5, 0.0, -1.0, 0.25, 0.75, -0.25, 0.625]]]


def run_exact_boundary(ctx):
    lines, meta = [], []
    tiny = rat(2.0 ** -30)
    for sspec in EXACT_BOUNDARY_SHAPES:
        gen, toks, size, binary = build(sspec)
        label = top_kind(sspec)
        for gspec in EXACT_BOUNDARY_GRIDS:
            reps, xs, ys, sep = make_reps(gspec)
            case = {'grid': gspec, 'shape': sspec}
            res = {}
            for nm in ('regular', 'separated', 'unstructured'):
                if reps.get(nm) is None:
                    continue
                vals, err, attached = evaluate(gen, reps[nm])
                if err is not None:
                    ctx.violation('%s:raises:%s:%s' % (label, rep_class(nm), err), '%s raises %s on a %s grid' % (label, err, nm), case)
                    continue
                res[nm] = vals
            # the property ON the boundary: every operation is exact here, so no point is forgiven
            names = list(res)
            for nm in names[1:]:
                d = np.flatnonzero(res[nm] != res[names[0]])
                if len(d):
                    i = int(d[0])
                    ctx.violation('%s:differs-on-boundary:%s' % (label, rep_class(nm)),
                                  '%s: at the point (%r, %r) (exactly representable decision) the value is %r on the %s grid but %r on the %s grid' % (
                                      label, float(xs[i]), float(ys[i]), float(res[names[0]][i]), names[0], float(res[nm][i]), nm), case)
            ctx.count('exact-boundary-cases')
            for mode in ('sep', 'pts'):
                a, b = (sep[0], sep[1]) if mode == 'sep' else (xs, ys)
                for tol in ('0', tiny):
                    lines.append('C12 eval %s %s %s %s %s' % (mode, tol, rat_list(a), rat_list(b), ' '.join(toks)))
                meta.append((mode, label, case, res, xs, ys))
    out = ctx.model(lines)
    for k, (mode, label, case, res, xs, ys) in enumerate(meta):
        p0, p1 = out[2 * k].split(' '), out[2 * k + 1].split(' ')
        if p0[0] != 'ok' or p1[0] != 'ok':
            ctx.disagree('C12 exact-boundary ' + mode, {'case': case, 'model': out[2 * k][:80]})
            continue
        mv, skipped, onb = _rats(p0[1]), _bits(p0[2]), _bits(p1[2])
        if any(skipped):
            ctx.disagree('C12 exact-boundary ' + mode, {'case': case, 'detail': 'tolerance 0 still flags a point'})
        for nm in (('regular', 'separated') if mode == 'sep' else ('unstructured',)):
            rv = res.get(nm)
            if rv is None:
                continue
            ctx.traces_validated += 1
            for i in range(len(rv)):
                ctx.count('points-compared')
                if onb[i]:
                    ctx.count('points-compared-on-boundary')
                    ctx.count('on-boundary-by-maker:' + label)
                if i >= len(mv) or abs(mv[i] - rv[i]) > 0:
                    ctx.disagree('C12 exact-boundary ' + mode, {'case': case, 'rep': nm, 'index': i, 'point': [float(xs[i]), float(ys[i])],
                                                                  'on-boundary': bool(onb[i]), 'model': mv[i] if i < len(mv) else None, 'impl': float(rv[i])},
                                 key='%s:on-boundary:model:%s' % (label, nm))
                    break
    if not ctx.dist.get('points-compared-on-boundary'):
        raise MachineryError('the exact-boundary corpus has no point on a boundary')


# ---------------------------------------------------------------------------------------------
# evaluate_supersampled: where it is defined, and which exception otherwise (model: supersampled_defined_iff)

SUPER_ERROR_CASES = [
    (['regular', [4, 3], [0.5, 0.5], [-0.75, -0.5]], 0), (['regular', [4, 3], [0.5, 0.5], [-0.75, -0.5]], [0, 2]),
    (['regular', [4, 3], [0.5, 0.5], [-0.75, -0.5]], [2, 0]), (['regular', [4, 3], [0.5, 0.5], [-0.75, -0.5]], 0.4),
    (['regular', [4, 3], [0.5, 0.5], [-0.75, -0.5]], 0.6), (['regular', [4, 3], [0.5, 0.5], [-0.75, -0.5]], [1, 3]),
    (['sep', [0.5], [0.0, 1.0]], 2), (['sep', [0.5], [0.0, 1.0]], 0), (['sep', [0.5, 1.0], [0.25]], [2, 0]),
    (['sep', [0.5], [0.25]], 1), (['sep', [1.0, 0.5], [0.25, 0.0, -1.0]], [0, 0]),
]


def run_super_errors(ctx):
    """evaluate_supersampled on separated grids incl. one-point axes and oversampling factors that round to 0: the model
    must be defined exactly where the code is, and name the same exception"""
    import hcipy
    cases = list(SUPER_ERROR_CASES)
    for _ in range(ctx.scale(12, 60)):
        fam = str(ctx.rng.choice(['regular', 'sep-asc', 'sep-desc', 'size1-x', 'size1-y']))
        over = [int(ctx.rng.integers(0, 3)), int(ctx.rng.integers(0, 3))] if ctx.rng.random() < 0.7 else float(ctx.rng.choice([0, 0.3, 0.5, 0.7, 1, 2]))
        cases.append((gen_grid_family(ctx.rng, fam, nmax=5), over))
    spec = ['circle', 1.5, [0.25, 0.0]]
    gen, toks, size, _ = build(spec)
    lines, real = [], []
    for gspec, over in cases:
        reps, xs, ys, sep = make_reps(gspec)
        g = reps.get('regular', reps.get('separated'))
        try:
            with warnings.catch_warnings():
                warnings.simplefilter('ignore')
                f = hcipy.evaluate_supersampled(gen, g, over)
            r = ('ok', np.array(f, float).ravel())
        except Exception as e:                                  # noqa
            r = ('err', type(e).__name__)
        ov = (np.round(over) * np.ones(2)).astype(int)
        if ov.min() < 0:
            continue
        real.append((gspec, over, r))
        lines.append('C12 super %d %d %s %s %s %s' % (ov[0], ov[1], rat(REL_TOL * scale_of(xs, ys, size)), rat_list(sep[0]), rat_list(sep[1]), ' '.join(toks)))
    out = ctx.model(lines)
    names = {'IndexError': 'err index', 'ZeroDivisionError': 'err zerodiv'}
    for (gspec, over, r), resp in zip(real, out):
        ctx.traces_validated += 1
        case = {'kind': 'super-error', 'grid': gspec, 'over': over}
        if r[0] == 'err':
            ctx.count('super-defined:' + r[1])
            if names.get(r[1]) != resp:
                ctx.disagree('C12 super-defined', {'case': case, 'impl': r[1], 'model': resp[:60]}, key='super:error-kind')
        else:
            ctx.count('super-defined:ok')
            parts = resp.split(' ')
            if parts[0] != 'ok':
                ctx.disagree('C12 super-defined', {'case': case, 'impl': 'ok', 'model': resp}, key='super:error-kind')
                continue
            mv, near = _rats(parts[1]), _bits(parts[2])
            for i in range(len(mv)):
                if not near[i] and abs(mv[i] - r[1][i]) > 1e-9:
                    ctx.disagree('C12 super', {'case': case, 'index': i, 'model': mv[i], 'impl': float(r[1][i])}, key='super:value')
                    break


# ---------------------------------------------------------------------------------------------
# evaluate_supersampled: the statistics 'mean' | 'sum' | 'min' | 'max' on separated grids (model: supersampledStat)

SUPER_STATS = ('mean', 'sum', 'min', 'max')
SUPER_STAT_FAMILIES = ('regular', 'regular-xdesc', 'regular-reversed', 'regular-scaled-x', 'sep-asc', 'sep-desc', 'sep-mixed',
                       'sep-permuted', 'sep-repeated', 'alias-sep', 'alias-regular', 'size1-x')
SUPER_STAT_CORPUS = [
    (['regular', [5, 4], [0.5, 0.75], [-1.0, -1.125]], ['circle', 1.5, [0.25, 0.0]], [2, 3]),
    (['sep', [1.75, 1.0, 0.5, 0.0, -0.5, -1.25], [-1.5, -0.375, 0.0, 0.375, 1.25]], ['regpoly', 6, 1.75, 0.25, None], 2),
    (['sep', [-1.0, 0.0, 0.0, 1.5], [0.5, -0.5, 0.25]], ['segmented', ['regpoly', 6, 0.875, 0.0, None], [[0.0, 0.0], [0.75, 0.0]], [0.25, 0.5]], [3, 1]),
    (['regular', [4, 4], [0.5, 0.5], [-0.75, -0.75]], ['obstructed', 2.0, 0.25, 3, 0.125], [1, 1]),
    (['regular', [4, 3], [0.5, 0.5], [-0.75, -0.5]], ['rect', [1.0, 0.5], None], [0, 2]),
    (['sep', [0.5], [0.0, 1.0]], ['circle', 1.5, None], 2),
]


def super_stat_case(ctx, gspec, sspec, over, want_model=True):
    """evaluate_supersampled(gen, grid, over, statistic=...) for all four statistics on the regular / separated
    representation.  Oracle on the real code alone: attached to the grid, regular == separated, min <= mean <= max,
    sum == mean * number of dithers, 'min'/'max' take only values the plain evaluation can take (0/1 or a transmission),
    mean/min/max of a binary aperture in [0,1], the statistic does not change whether the call fails (which exception it
    raises is compared with the model only).
    -> (request lines, check(out))"""
    import hcipy
    reps, xs, ys, sep = make_reps(gspec)
    gen, toks, size, binary = build(sspec)
    label = root_kind(sspec)
    case = {'kind': 'super-stat', 'grid': gspec, 'shape': sspec, 'over': over}
    ov = (np.round(over) * np.ones(2)).astype(int)
    allowed = None if transmissions(sspec) is None else sorted(set(transmissions(sspec)) | {0.0, 1.0})
    real = {}
    for name in ('regular', 'separated'):
        g = reps.get(name)
        if g is None or sep is None:
            continue
        for st in SUPER_STATS:
            try:
                with warnings.catch_warnings():
                    warnings.simplefilter('ignore')
                    f = hcipy.evaluate_supersampled(gen, g, over, statistic=st)
                real[name, st] = ('ok', np.array(f, float).ravel())
                if f.grid is not g:
                    ctx.violation('%s:super-not-attached:%s' % (label, st), "evaluate_supersampled(..., statistic=%r) is not attached to the %s grid" % (st, name), case)
            except Exception as e:                              # noqa
                real[name, st] = ('err', type(e).__name__)
        kinds = {st: real[name, st][0] if real[name, st][0] == 'ok' else real[name, st][1] for st in SUPER_STATS}
        if len(set(k == 'ok' for k in kinds.values())) != 1:
            ctx.violation('%s:super-stat:definedness' % label, 'the statistic changes whether evaluate_supersampled is defined on a %s grid: %r' % (name, kinds), case)
            continue
        if real[name, 'mean'][0] != 'ok':
            # which exception: not part of the property; the model says which (supersampled_statistic_error_kinds)
            ctx.count('super-stat:' + '/'.join(kinds[st] for st in SUPER_STATS))
            continue
        mean, sm, mn, mx = (real[name, st][1] for st in SUPER_STATS)
        nd = int(ov[0] * ov[1])
        tolv = 1e-9 * max(1.0, nd)
        if (mn > mean + tolv).any() or (mean > mx + tolv).any():
            i = int(np.flatnonzero((mn > mean + tolv) | (mean > mx + tolv))[0])
            ctx.violation('%s:super-stat:order' % label, 'min <= mean <= max fails on a %s grid at pixel %d: %r %r %r' % (name, i, mn[i], mean[i], mx[i]), case)
        if np.abs(sm - mean * nd).max() > tolv:
            ctx.violation('%s:super-stat:sum' % label, "'sum' differs from 'mean' times the %d dithers on a %s grid (max %g)" % (nd, name, np.abs(sm - mean * nd).max()), case)
        if allowed is not None:
            for st, v in (('min', mn), ('max', mx)):
                badv = [float(t) for t in v if min(abs(t - a) for a in allowed) > 1e-12]
                if badv:
                    ctx.violation('%s:super-stat:%s-value' % (label, st), "'%s' returns %r, not a value of the aperture (%r), on a %s grid" % (st, badv[0], allowed, name), case)
        if binary:
            for st, v in (('mean', mean), ('min', mn), ('max', mx)):
                if v.min() < -1e-12 or v.max() > 1 + 1e-12:
                    ctx.violation('%s:super-range:%s' % (label, st), "supersampled '%s' leaves [0,1] on a %s grid: %r %r" % (st, name, v.min(), v.max()), case)
        ctx.count('super-stat:ok')
        ctx.count('super-stat-over:%dx%d' % (ov[0], ov[1]))
    for st in SUPER_STATS:
        a, b = real.get(('regular', st)), real.get(('separated', st))
        if a is not None and b is not None and a[0] == b[0] == 'ok' and np.abs(a[1] - b[1]).max() > 1e-9:
            ctx.violation('%s:super-differs:%s' % (label, st), "supersampled '%s' differs between the regular and the separated grid" % st, case)
    ctx.case(None, ('super-stat', label, gspec[0], tuple(int(t) for t in ov), len(xs)) if any(v[0] == 'ok' and 0 < np.count_nonzero(v[1]) < len(v[1]) for v in real.values()) else None)
    if not want_model or sep is None or ov.min() < 0 or not real:
        return [], lambda out: None
    tol = rat(REL_TOL * scale_of(xs, ys, size))
    lines = ['C12 superstat %s %d %d %s %s %s %s' % (st, ov[0], ov[1], tol, rat_list(sep[0]), rat_list(sep[1]), ' '.join(toks)) for st in SUPER_STATS]
    names = {'IndexError': 'err index', 'ZeroDivisionError': 'err zerodiv', 'AttributeError': 'err attribute'}

    def check(out):
        for st, resp in zip(SUPER_STATS, out):
            parts = resp.split(' ')
            for name in ('regular', 'separated'):
                r = real.get((name, st))
                if r is None:
                    continue
                ctx.traces_validated += 1
                key = 'super-stat:%s:model:%s' % (st, name)
                if r[0] == 'err':
                    if names.get(r[1]) != resp:
                        ctx.disagree('C12 superstat', {'case': case, 'statistic': st, 'impl': r[1], 'model': resp[:60]}, key=key)
                    continue
                if parts[0] != 'ok':
                    ctx.disagree('C12 superstat', {'case': case, 'statistic': st, 'impl': 'ok', 'model': resp[:60]}, key=key)
                    continue
                mv, near = _rats(parts[1]), _bits(parts[2])
                if len(mv) != len(r[1]):
                    ctx.disagree('C12 superstat', {'case': case, 'statistic': st, 'detail': 'length', 'model': len(mv), 'impl': len(r[1])}, key=key)
                    continue
                for i in range(len(mv)):
                    if near[i]:
                        ctx.boundary_skipped += 1
                        ctx.count('super-stat-boundary-skipped')
                        continue
                    ctx.count('super-stat-points-compared:' + st)
                    if abs(mv[i] - r[1][i]) > 1e-9:
                        ctx.disagree('C12 superstat', {'case': case, 'statistic': st, 'rep': name, 'index': i, 'model': mv[i], 'impl': float(r[1][i])}, key=key)
                        break
    return lines, check


def run_super_stats(ctx):
    cases = list(SUPER_STAT_CORPUS)
    for _ in range(ctx.scale(16, 100)):
        fam = str(ctx.rng.choice(SUPER_STAT_FAMILIES))
        gspec = gen_grid_family(ctx.rng, fam, nmax=6)
        sspec = gen_shape(ctx.rng)
        r = ctx.rng.random()
        over = int(ctx.rng.integers(1, 4)) if r < 0.4 else [int(ctx.rng.integers(1, 4)), int(ctx.rng.integers(1, 4))] if r < 0.9 else [int(ctx.rng.integers(0, 2)), int(ctx.rng.integers(0, 3))]
        cases.append((gspec, sspec, over))
    lines, checks = [], []
    for gspec, sspec, over in cases:
        l, chk = super_stat_case(ctx, gspec, sspec, over)
        checks.append((len(lines), len(l), chk))
        lines += l
    out = ctx.model(lines)
    for base, cnt, chk in checks:
        chk(out[base:base + cnt])


# ---------------------------------------------------------------------------------------------
# evaluate_supersampled with a LIST of generators -> ModeBasis (model: supersampledList)

def super_list_case(ctx, gspec, specs, over, st, sparse, want_model=True):
    """evaluate_supersampled([gen, ...], grid, over, statistic=st, make_sparse=sparse) on the regular / separated
    representation.  Oracle on the real code alone: the ModeBasis is attached to the grid, has one mode per generator, in
    order, each mode attached to the grid and exactly the field the generator gives on its own; `is_sparse` as asked.
    -> (request lines, check(out))"""
    import hcipy
    reps, xs, ys, sep = make_reps(gspec)
    built = [build(sp) for sp in specs]
    gens = [b[0] for b in built]
    case = {'kind': 'super-list', 'grid': gspec, 'shapes': specs, 'over': over, 'stat': st, 'sparse': sparse}
    ov = (np.round(over) * np.ones(2)).astype(int)
    real = {}
    for name in ('regular', 'separated'):
        g = reps.get(name)
        if g is None or sep is None:
            continue
        try:
            with warnings.catch_warnings():
                warnings.simplefilter('ignore')
                mb = hcipy.evaluate_supersampled(list(gens) if len(specs) % 2 else tuple(gens), g, over, statistic=st, make_sparse=sparse)
        except Exception as e:                                  # noqa
            real[name] = ('err', type(e).__name__)
            ctx.count('super-list:' + type(e).__name__)
            # a list must fail exactly when its first generator does (an empty list: ValueError from ModeBasis)
            if specs:
                try:
                    with warnings.catch_warnings():
                        warnings.simplefilter('ignore')
                        hcipy.evaluate_supersampled(gens[0], g, over, statistic=st)
                    ctx.violation('super-list:raises', 'evaluate_supersampled raises %s for a list of generators but not for its first generator on a %s grid' % (type(e).__name__, name), case)
                except Exception as e2:                         # noqa
                    if type(e2) is not type(e):
                        ctx.violation('super-list:raises', 'a list of generators raises %s, its first generator alone %s' % (type(e).__name__, type(e2).__name__), case)
            continue
        modes = [np.array(mb[i], float).ravel() for i in range(len(mb))]
        real[name] = ('ok', modes)
        ctx.count('super-list:ok')
        ctx.count('super-list-modes', len(modes))
        if mb.grid is not g or any(getattr(mb[i], 'grid', None) is not g for i in range(len(mb))):
            ctx.violation('super-list:not-attached', 'the ModeBasis of evaluate_supersampled([...]) (or one of its modes) is not attached to the %s grid' % name, case)
        if len(modes) != len(specs):
            ctx.violation('super-list:length', '%d generators give %d modes' % (len(specs), len(modes)), case)
            continue
        if bool(mb.is_sparse) != bool(sparse):
            ctx.violation('super-list:sparse', 'make_sparse=%r gives is_sparse=%r' % (sparse, mb.is_sparse), case)
        for i, gen in enumerate(gens):
            with warnings.catch_warnings():
                warnings.simplefilter('ignore')
                single = np.array(hcipy.evaluate_supersampled(gen, g, over, statistic=st), float).ravel()
            if single.shape != modes[i].shape or np.abs(single - modes[i]).max() > 0:
                ctx.violation('super-list:mode-differs', 'mode %d of the list form differs from the generator evaluated on its own (%s, %s grid)' % (i, st, name), case)
                break
    ctx.case(None, ('super-list', len(specs), st, sparse, gspec[0], tuple(int(t) for t in ov)) if any(v[0] == 'ok' and any(0 < np.count_nonzero(m) < len(m) for m in v[1]) for v in real.values()) else None)
    if not want_model or sep is None or ov.min() < 0 or not real:
        return [], lambda out: None
    tol = rat(REL_TOL * scale_of(xs, ys, max([b[2] for b in built] + [1.0])))
    line = 'C12 superlist %s %d %d %s %s %s %d %s' % (st, ov[0], ov[1], tol, rat_list(sep[0]), rat_list(sep[1]), len(specs), ' '.join(' '.join(b[1]) for b in built))
    names = {'IndexError': 'err index', 'ZeroDivisionError': 'err zerodiv', 'AttributeError': 'err attribute', 'ValueError': 'err value'}

    def check(out):
        resp = out[0]
        parts = resp.split(' ')
        for name, r in real.items():
            ctx.traces_validated += 1
            key = 'super-list:model:%s' % name
            if r[0] == 'err':
                if names.get(r[1]) != resp:
                    ctx.disagree('C12 superlist', {'case': case, 'impl': r[1], 'model': resp[:60]}, key=key)
                continue
            if parts[0] != 'ok' or len(parts) != 1 + 2 * len(r[1]):
                ctx.disagree('C12 superlist', {'case': case, 'impl': 'ok, %d modes' % len(r[1]), 'model': resp[:60]}, key=key)
                continue
            for i, rv in enumerate(r[1]):
                mv, near = _rats(parts[1 + 2 * i]), _bits(parts[2 + 2 * i])
                if len(mv) != len(rv):
                    ctx.disagree('C12 superlist', {'case': case, 'mode': i, 'detail': 'length', 'model': len(mv), 'impl': len(rv)}, key=key)
                    break
                bad = [j for j in range(len(mv)) if not near[j] and abs(mv[j] - rv[j]) > 1e-9]
                ctx.count('super-list-points-compared', len(mv) - sum(near))
                if bad:
                    ctx.disagree('C12 superlist', {'case': case, 'mode': i, 'rep': name, 'index': bad[0], 'model': mv[bad[0]], 'impl': float(rv[bad[0]])}, key=key)
                    break
    return [line], check


SUPER_LIST_CORPUS = [
    (['regular', [5, 4], [0.5, 0.75], [-1.0, -1.125]], [['circle', 1.5, [0.25, 0.0]], ['rect', [1.0, 0.5], None], ['regpoly', 6, 1.75, 0.25, None]], [2, 3], 'mean', True),
    (['sep', [1.75, 1.0, 0.5, 0.0, -0.5, -1.25], [-1.5, -0.375, 0.0, 0.375, 1.25]], [['circle', 4.0, None], ['circle', 0.125, [5.0, 5.0]]], 2, 'max', True),
    (['regular', [4, 4], [0.5, 0.5], [-0.75, -0.75]], [], 2, 'mean', True),
    (['regular', [4, 3], [0.5, 0.5], [-0.75, -0.5]], [['rect', [1.0, 0.5], None], ['circle', 1.0, None]], [0, 2], 'sum', False),
    (['sep', [0.5], [0.0, 1.0]], [['circle', 1.5, None]], 2, 'min', False),
]


def run_super_lists(ctx):
    cases = list(SUPER_LIST_CORPUS)
    for _ in range(ctx.scale(10, 50)):
        fam = str(ctx.rng.choice(SUPER_STAT_FAMILIES))
        gspec = gen_grid_family(ctx.rng, fam, nmax=6)
        specs = [gen_shape(ctx.rng) for _ in range(int(ctx.rng.integers(1, 5)))]
        over = int(ctx.rng.integers(1, 3)) if ctx.rng.random() < 0.5 else [int(ctx.rng.integers(1, 3)), int(ctx.rng.integers(1, 4))]
        if ctx.rng.random() < 0.08:
            over = [0, 1]
        cases.append((gspec, specs, over, str(ctx.rng.choice(SUPER_STATS)), bool(ctx.rng.random() < 0.6)))
    lines, checks = [], []
    for gspec, specs, over, st, sparse in cases:
        l, chk = super_list_case(ctx, gspec, specs, over, st, sparse)
        checks.append((len(lines), len(l), chk))
        lines += l
    out = ctx.model(lines)
    for base, cnt, chk in checks:
        if cnt:
            chk(out[base:base + cnt])


# ---------------------------------------------------------------------------------------------
# negative diameters: outside the domain of the property; the model predicts what the code does (documented, not reported)

def run_negative_diameter(ctx):
    """`make_circular_aperture(d)` with d < 0 and no centre: the Cartesian paths square the radius (a disk of radius |d|/2),
    the polar shortcut `r <= d/2` is empty.  theorem polar_circle_negative_diameter_counterexample says the model does the
    same; here both are run and compared, and the representation dependence is recorded (not a VIOLATION: a negative
    diameter is not a size)."""
    import hcipy
    seen = 0
    for gspec, d in [(['regular', [8, 8], [0.5, 0.5], [-1.75, -1.75]], -1.0), (CORNER_GRIDS[1], -1.5), (CORNER_GRIDS[0], -2.25),
                     (['polarsep', [0.0, 0.5, 1.0], [0.0, 1.0, 2.0]], -0.75)]:
        reps, xs, ys, sep = make_reps(gspec)
        gen = hcipy.make_circular_aperture(d)
        toks = ['disk', rat(d / 2)]
        tol = rat(REL_TOL * scale_of(xs, ys, abs(d)))
        cart = evaluate(gen, reps['unstructured'])[0]
        pol = evaluate(gen, reps['polar'])[0]
        out = ctx.model(['C12 eval pts %s %s %s %s' % (tol, rat_list(xs), rat_list(ys), ' '.join(toks)), polar_request('eval', tol, reps['polar'], ' '.join(toks))])
        for rv, resp, nm in ((cart, out[0], 'unstructured'), (pol, out[1], 'polar')):
            parts = resp.split(' ')
            mv, near = _rats(parts[1]), _bits(parts[2])
            ctx.traces_validated += 1
            bad = [i for i in range(len(mv)) if not near[i] and abs(mv[i] - rv[i]) > 1e-9]
            if rv is None or bad:
                ctx.disagree('C12 negative-diameter', {'grid': gspec, 'diameter': d, 'rep': nm, 'index': bad[:3]}, key='negative-diameter:model:' + nm)
        if out[1].split(' ')[4] == '0':
            ctx.disagree('C12 negative-diameter', {'grid': gspec, 'diameter': d, 'detail': 'the model does not show the representation dependence'})
        if np.count_nonzero(cart != pol):
            seen += 1
            ctx.count('negative-diameter:representation-dependent')
        ctx.extra.setdefault('negative_diameter', []).append({'diameter': d, 'grid': gspec[0], 'cartesian_pixels': int(cart.sum()), 'polar_pixels': int(pol.sum())})
    return seen


# D120: VLT segment generators on a separated grid with a single row
DIRECTED_PUPILS = [('make_vlt_aperture', {'normalized': False, 'with_spiders': False, 'with_M3_cover': False, 'return_segments': True},
                    948772170, 'size1-y', None),
                   # HST mirror pads: circles whose centre has a zero component (x = -0.0); fine grids around pad 0
                   ('make_hst_aperture', {'normalized': False, 'with_spiders': True, 'with_pads': True}, 1, 'regular',
                    ['regular', [7, 7], [0.03125, 0.03125], [-0.09375, 0.97677]]),
                   ('make_hst_aperture', {'normalized': True, 'with_spiders': False, 'with_pads': True}, 2, 'regular',
                    ['regular', [7, 7], [0.015625, 0.015625], [-0.046875, 0.399175]])]

KECK_CONFIGS = [{}, {'normalized': True}, {'with_spiders': False}, {'with_segment_gaps': False}, {'gap_padding': 3},
                {'normalized': True, 'with_spiders': False, 'gap_padding': 30}, {'transmissions': True},
                {'transmissions': True, 'normalized': True, 'with_segment_gaps': False}]


# ---------------------------------------------------------------------------------------------
# round 6: in-place history on ONE grid object — every in-place operation of Grid (scale, shift, rotate, reverse,
# weights assignment, and pairs of them) between two evaluations on the SAME object, for every coordinate system x
# storage (Cartesian/polar x regular/separated/unstructured), the first evaluation with a maker that converts the
# grid (as_), one that does not, an explicit as_() or none at all.  Expected values: the point predicate at the
# CURRENT points (fresh grid objects built from copies of the current coordinates; the Lean model at those points).

INPLACE_REPS = ('cart-regular', 'cart-separated', 'cart-unstructured', 'polar-regular', 'polar-separated', 'polar-unstructured')
INPLACE_OPS = ('none', 'scale', 'scale-neg', 'scale-xy', 'shift', 'rotate', 'reverse', 'weights-scalar', 'weights-array',
               'weights-auto', 'reverse+shift', 'scale+reverse', 'rotate+reverse', 'reverse+reverse', 'shift+rotate')
INPLACE_FIRST = ('none', 'disk', 'converting', 'as', 'same')
INPLACE_PUPILS = (('make_magellan_aperture', {}), ('make_hst_aperture', {}), ('make_vlt_aperture', {}), ('make_keck_aperture', {}),
                  ('make_gmt_aperture', {}), ('make_jwst_aperture', {}), ('make_hicat_aperture', {}), ('make_luvoir_b_aperture', {}))


def gen_igrid(rng, rep, half=2.5):
    """a grid of the named (system, storage) class as a JSON-able spec; dyadic Cartesian coordinates"""
    if rep == 'cart-regular':
        g = gen_grid_family(rng, str(rng.choice(['regular', 'regular-xdesc', 'regular-ydesc'])), nmax=7, half=half)
        return [rep, g[1], g[2], g[3]]
    if rep in ('cart-separated', 'cart-unstructured'):
        g = gen_grid_family(rng, str(rng.choice(['sep-asc', 'sep-desc', 'sep-mixed', 'sep-permuted'])), nmax=7, half=half)
        if rep == 'cart-separated':
            return [rep, g[1], g[2]]
        s = make_reps(g)
        return [rep, [float(v) for v in s[1]], [float(v) for v in s[2]]]
    if rep == 'polar-regular':
        nr, nt = int(rng.integers(2, 6)), int(rng.integers(3, 8))
        r0 = 0.0 if rng.random() < 0.3 else half * dyadic(rng, 0.0625, 0.5, 6)
        dr = half * dyadic(rng, 0.125, 0.5, 6)
        return [rep, [nr, nt], [dr, dyadic(rng, 0.25, 1, 5) * (1.0 if rng.random() < 0.7 else -1.0)], [r0, dyadic(rng, -3, 3, 4)]]
    g = gen_grid_family(rng, 'polar-r0' if rng.random() < 0.3 else 'polar', nmax=7, half=half)
    if rep == 'polar-separated':
        return [rep, g[1], g[2]]
    rs, ths = np.meshgrid(np.array(g[1], float), np.array(g[2], float))
    return [rep, [float(v) for v in rs.ravel()], [float(v) for v in ths.ravel()]]


def build_igrid(ispec):
    import hcipy
    rep = ispec[0]
    cls = hcipy.CartesianGrid if rep.startswith('cart') else hcipy.PolarGrid
    if rep.endswith('regular'):
        return cls(hcipy.RegularCoords(np.array(ispec[2], float), np.array(ispec[1], int), np.array(ispec[3], float)))
    if rep.endswith('separated'):
        return cls(hcipy.SeparatedCoords([np.array(ispec[1], float), np.array(ispec[2], float)]))
    return cls(hcipy.UnstructuredCoords([np.array(ispec[1], float), np.array(ispec[2], float)]))


def clone_fresh(g):
    """a brand-new grid object of the same class and storage built from COPIES of the current raw coordinates and
    weights of `g` (nothing of g's history can travel along)"""
    import hcipy
    c = g.coords
    if g.is_regular:
        nc = hcipy.RegularCoords(np.array(c.delta, float).copy(), np.array(c.dims).copy(), np.array(c.zero, float).copy())
    elif g.is_separated:
        nc = hcipy.SeparatedCoords([np.array(a, float).copy() for a in c.separated_coords])
    else:
        nc = hcipy.UnstructuredCoords([np.array(a, float).copy() for a in c.coords])
    w = g._weights
    return type(g)(nc, None if w is None else (np.array(w).copy() if np.ndim(w) > 0 else w))


def current_xy(g):
    """the physical (Cartesian) positions of the current points, read from the coordinates themselves (never through as_)"""
    a, b = np.array(g.coords[0], float).ravel(), np.array(g.coords[1], float).ravel()
    if g.is_('polar'):
        return a * np.cos(b), a * np.sin(b)
    return a.copy(), b.copy()


def gen_iops(rng, opname, polar, n, unit=1.0):
    """the named in-place operation(s) with parameters, JSON-able"""
    ops = []
    for nm in opname.split('+'):
        if nm == 'none':
            continue
        if nm == 'scale':
            ops.append(['scale', float(rng.choice([0.5, 2.0, 1.5, 0.75]))])
        elif nm == 'scale-neg':
            ops.append(['scale', 0.5 if polar else -1.0 * float(rng.choice([1.0, 0.5, 2.0]))])
        elif nm == 'scale-xy':
            ops.append(['scale', 1.25 if polar else [float(rng.choice([-1.0, 0.5, 2.0])), float(rng.choice([1.0, -1.0, 1.5]))]])
        elif nm == 'shift':
            ops.append(['shift', [unit * dyadic(rng, -1, 1, 4), unit * dyadic(rng, -1, 1, 4)]])
        elif nm == 'rotate':
            ops.append(['rotate', _angle(rng)])
        elif nm == 'reverse':
            ops.append(['reverse'])
        elif nm == 'weights-scalar':
            ops.append(['weights', 0.25])
        elif nm == 'weights-array':
            ops.append(['weights', [float(v) for v in (1 + np.arange(n)) / 8.0]])
        elif nm == 'weights-auto':
            ops.append(['weights', None])
        else:
            raise MachineryError('unknown in-place operation %r' % (nm,))
    return ops


def apply_iop(g, op, px, py):
    """apply one in-place operation to the grid object; -> the positions the points must have afterwards"""
    k = op[0]
    if k == 'scale':
        s = op[1]
        g.scale(np.array(s, float) if isinstance(s, list) else s)
        sx, sy = (s if isinstance(s, list) else (s, s))
        return px * sx, py * sy
    if k == 'shift':
        g.shift(np.array(op[1], float))
        return px + op[1][0], py + op[1][1]
    if k == 'rotate':
        g.rotate(op[1])
        c, s = np.cos(op[1]), np.sin(op[1])
        return c * px - s * py, s * px + c * py
    if k == 'reverse':
        g.reverse()
        return px[::-1].copy(), py[::-1].copy()
    if k == 'weights':
        w = op[1]
        g.weights = np.array(w, float) if isinstance(w, list) else w
        return px, py
    raise MachineryError('unknown in-place operation %r' % (op,))


def inplace_maker(bspec):
    """-> (generator, model tokens or None, size, binary, label)"""
    if bspec[0] == 'pupil':
        import hcipy.aperture.realistic as rl
        with warnings.catch_warnings():
            warnings.simplefilter('ignore')
            return getattr(rl, bspec[1])(**bspec[2]), None, PUPIL_DIAMETER[bspec[1]], True, 'pupil:' + bspec[1][5:]
    gen, toks, size, binary = build(bspec)
    return gen, toks, size, binary, root_kind(bspec)


def run_inplace_case(ctx, ispec, first, ops, bspec, want_model=True, opname=None):
    """One history on one grid object.  Returns (model request or None, checker)."""
    rep = ispec[0]
    opname = opname or '+'.join(o[0] for o in ops) or 'none'
    case = {'kind': 'inplace', 'grid': ispec, 'first': first, 'ops': ops, 'shape': bspec, 'opname': opname}
    gen_b, toks, size, binary, label = inplace_maker(bspec)
    D = size if bspec[0] == 'pupil' else 1.0
    g = build_igrid(ispec)
    other = 'polar' if rep.startswith('cart') else 'cartesian'
    init = (np.array(g.coords[0], float).ravel().copy(), np.array(g.coords[1], float).ravel().copy())
    nothing = (None, lambda resp: None)
    # --- the first use of the object
    conv = ['ellipse', [2.0 * D, 1.0 * D], [0.5 * D, 0.25 * D], 0.5]
    gen_a = None
    if first == 'disk':
        gen_a = build(['circle', 2.5 * D, None])[0]            # polar grid: radius shortcut, no conversion
    elif first == 'converting':
        gen_a = build(conv)[0]                                  # polar grid: as_('cartesian')
    elif first == 'same':
        gen_a = gen_b
    try:
        if first == 'as':
            g.as_(other)
        elif gen_a is not None:
            a1, err, _ = evaluate(gen_a, g)
            if err is not None:
                ctx.violation('%s:raises:%s:%s' % (label if first == 'same' else 'first', rep_class(rep), err),
                              'the first evaluation (%s) raises %s on a fresh %s grid' % (first, err, rep), case)
                return nothing
        # --- the in-place operations
        px, py = current_xy(g)
        for op in ops:
            try:
                with warnings.catch_warnings():
                    warnings.simplefilter('ignore')
                    px, py = apply_iop(g, op, px, py)
            except MachineryError:
                raise
            except Exception as e:                              # noqa  (the operation itself is not this property's business)
                ctx.count('inplace-op-raises:%s:%s:%s' % (op[0], rep, type(e).__name__))
                return nothing
        cx, cy = current_xy(g)
    except MachineryError:
        raise
    except Exception as e:                                      # noqa
        ctx.violation('grid:inplace-raises:%s:%s' % (rep, type(e).__name__), 'reading the coordinates of a %s grid after %s raises %s' % (rep, opname, type(e).__name__), case)
        return nothing
    scale = scale_of(cx, cy, size)
    tol = REL_TOL * scale
    if len(cx) != len(px) or np.abs(cx - px).max() > 1e-9 * scale or np.abs(cy - py).max() > 1e-9 * scale:
        ctx.violation('grid:inplace-points:%s:%s' % (opname, rep), 'after %s on a %s grid (first use: %s) the points are not the transformed points' % (opname, rep, first), case)
    # --- the second use: the values belong to the CURRENT points
    materialise_weights(g)
    before = snapshot(g)
    vals, err, attached = evaluate(gen_b, g)
    if snapshot(g) != before:
        ctx.violation('%s:grid-modified:%s' % (label, rep_class(rep)), '%s: the %s grid is not bit-identical after the evaluation (history: %s, %s)' % (label, rep, first, opname), case)
    fresh = clone_fresh(g)
    ref, err_f, _ = evaluate(gen_b, fresh)
    import hcipy
    cart = hcipy.CartesianGrid(hcipy.UnstructuredCoords([cx.copy(), cy.copy()]))
    cref, err_c, _ = evaluate(gen_b, cart)
    ctx.count('inplace:' + rep)
    ctx.count('inplace-op:' + opname)
    ctx.count('inplace-first:' + first)
    ctx.count('inplace-cover:%s|%s|%s' % (rep, opname, first))
    ctx.count('inplace-maker:%s|%s' % (label, rep))
    ctx.count('inplace-maker-op:%s|%s' % (label, opname))
    what_hist = 'grid object used before (%s), then %s in place' % (first, opname)
    if err is not None:
        if err_f is None or err_c is None:
            ctx.violation('%s:raises:%s:%s' % (label, rep_class(rep), err), '%s raises %s on a %s %s' % (label, err, rep, what_hist), case)
        return nothing
    if not attached:
        ctx.violation('%s:not-attached' % label, '%s: the returned field is not attached to the %s grid it was asked for' % (label, rep), case)
    if binary and (vals.min() < 0 or vals.max() > 1):
        ctx.violation('%s:range' % label, '%s leaves [0,1] on a %s grid' % (label, rep), case)
    if ref is not None and not np.array_equal(vals, ref):
        d = np.flatnonzero(vals != ref)
        i = int(d[0])
        ctx.violation('%s:inplace-history:%s:%s' % (label, opname, rep),
                      '%s: on a %s %s, the value at point %d = (%r, %r) is %r, but %r on a new grid object with the same current coordinates (%d of %d points differ)' % (
                          label, rep, what_hist, i, float(cx[i]), float(cy[i]), float(vals[i]), float(ref[i]), len(d), len(vals)), case)
    if cref is not None:
        d = [int(i) for i in np.flatnonzero(np.abs(vals - cref) > 1e-12)[:12]]
        genuine = []
        for i in d:
            if on_boundary(gen_b, cx[i], cy[i], tol):
                ctx.boundary_skipped += 1
                ctx.count('oracle-boundary-skipped')
            else:
                genuine.append(i)
        if genuine:
            i = genuine[0]
            ctx.violation('%s:inplace-differs:%s:%s' % (label, opname, rep),
                          '%s: on a %s %s, the value at the current point %d = (%r, %r) is %r but %r on an unstructured Cartesian grid of the current points' % (
                              label, rep, what_hist, i, float(cx[i]), float(cy[i]), float(vals[i]), float(cref[i])), case)
    # the first maker once more on the same object: the values of the current points again
    if gen_a is not None and gen_a is not gen_b:
        a2, _, _ = evaluate(gen_a, g)
        a0, _, _ = evaluate(gen_a, fresh)
        if (a2 is None) != (a0 is None) or (a2 is not None and not np.array_equal(a2, a0)):
            ctx.violation('first:inplace-history:%s:%s' % (opname, rep), 'the maker of the first use (%s) evaluated again on the %s %s differs from a new grid object with the same coordinates' % (first, rep, what_hist), case)
    # conversions of the object follow the current coordinates
    try:
        # (positions, not bits: NumPy's hypot/arctan2/cos/sin may round differently on a reversed view and on a copy)
        (ox, oy), (fx, fy) = current_xy(g.as_(other)), current_xy(fresh.as_(other))
        same = len(ox) == len(cx) and max(np.abs(ox - fx).max(), np.abs(oy - fy).max(), np.abs(ox - cx).max(), np.abs(oy - cy).max()) <= 1e-9 * scale
    except Exception as e:                                      # noqa
        same = True
        ctx.count('inplace-as-raises:%s' % type(e).__name__)
    if not same:
        ctx.violation('grid:as-stale:%s:%s' % (opname, rep), 'as_(%r) of a %s %s is not the conversion of its current coordinates' % (other, rep, what_hist), case)
    mixed = 0 < np.count_nonzero(vals) < len(vals)
    ctx.case({'grid': ispec, 'ops': ops, 'shape': bspec} if mixed else None, ('inplace', label, rep, opname, first, len(vals), int(np.count_nonzero(vals))) if mixed else None)
    if not want_model or toks is None:
        return nothing
    # the model: the history itself (`evalAfter`, Model/ApertureHistory.lean) where it is rational, else the point
    # predicate at the current points
    polar = rep.startswith('polar')
    expressible = not (polar and any(o[0] == 'shift' or (o[0] == 'scale' and isinstance(o[1], list)) for o in ops))
    if expressible:
        mops = []
        for o in ops:
            if o[0] == 'scale':
                sx, sy = o[1] if isinstance(o[1], list) else (o[1], o[1])
                mops.append('scale:%s:%s' % (rat(sx), rat(sy)))
            elif o[0] == 'shift':
                mops.append('shift:%s:%s' % (rat(o[1][0]), rat(o[1][1])))
            elif o[0] == 'rotate':
                mops.append('rot:%s:%s' % (rat(float(np.cos(o[1]))), rat(float(np.sin(o[1])))))
            else:
                mops.append(o[0])
        if polar:
            cs = np.empty(2 * len(init[0]))
            cs[0::2] = np.cos(init[1])
            cs[1::2] = np.sin(init[1])
            coords = '%s %s' % (rat_list(init[0]), rat_list(cs))
        else:
            coords = '%s %s' % (rat_list(init[0]), rat_list(init[1]))
        req = 'C12 hist %s %s %s %s %s' % ('polar' if polar else 'cart', rat(tol), coords, ';'.join(mops) or '-', ' '.join(toks))
        ctx.count('inplace-model:history')
    else:
        req = 'C12 eval pts %s %s %s %s' % (rat(tol), rat_list(cx), rat_list(cy), ' '.join(toks))
        ctx.count('inplace-model:current-points-only')

    def check(resp):
        parts = resp.split(' ')
        if parts[0] != 'ok':
            ctx.disagree('C12 inplace', {'case': case, 'model': resp[:80]})
            return
        mv, near = _rats(parts[1]), _bits(parts[2])
        ctx.traces_validated += 1
        if parts[3] != '1':
            ctx.disagree('C12 model-self', {'case': case, 'detail': 'code-path model on the object differs from point semantics'})
        if len(mv) != len(vals):
            ctx.disagree('C12 inplace', {'case': case, 'detail': 'length', 'model': len(mv), 'impl': len(vals)})
            return
        if expressible:
            mp = np.array([float(t) for t in _rats(parts[4])])
            if len(mp) != 2 * len(cx) or max(np.abs(mp[0::2] - cx).max(), np.abs(mp[1::2] - cy).max()) > 1e-9 * scale:
                ctx.disagree('C12 inplace', {'case': case, 'detail': 'the points of the object after the history differ from the model'},
                             key='grid:inplace-model-points:%s:%s' % (opname, rep))
                return
        for i in range(len(vals)):
            if near[i]:
                ctx.boundary_skipped += 1
                ctx.count('model-boundary-skipped')
                continue
            ctx.count('points-compared')
            ctx.count('inplace-points-compared')
            if abs(float(mv[i]) - vals[i]) > 1e-9:
                ctx.disagree('C12 inplace', {'case': case, 'index': i, 'point': [float(cx[i]), float(cy[i])], 'model': float(mv[i]), 'impl': float(vals[i])},
                             key='%s:inplace-model:%s:%s' % (label, opname, rep))
                break
    return req, check


def run_inplace(ctx):
    rng = ctx.rng
    jobs = []
    off = int(rng.integers(0, len(SWEEP_MAKERS)))
    k = 0
    for _ in range(ctx.scale(1, 6)):
        for rep in INPLACE_REPS:
            for opname in INPLACE_OPS:
                for first in INPLACE_FIRST:
                    if ctx.quick() and first == 'none' and opname != 'none' and (k % 2):
                        k += 1
                        continue                    # quick tier: the control (no first use) for every second operation only
                    mk = SWEEP_MAKERS[(off + k) % len(SWEEP_MAKERS)]
                    k += 1
                    ispec = gen_igrid(rng, rep)
                    n = build_igrid(ispec).size
                    jobs.append((ispec, first, gen_iops(rng, opname, rep.startswith('polar'), n), mk(rng), opname))
    # every maker x every basic operation with the maker ITSELF as the first use (state remembered by a helper that only
    # one maker calls), on every polar storage and (quick: one, thorough: every) Cartesian storage; operation 'none' on the
    # separated / regular polar storages also guards helpers that look at is_separated before the coordinate system
    basic = ('none', 'scale', 'shift', 'rotate', 'reverse', 'weights-array')
    for mi, mk in enumerate(SWEEP_MAKERS):
        for oi, opname in enumerate(basic):
            for ri, rep in enumerate(INPLACE_REPS):
                if ctx.quick() and rep.startswith('cart') and ri != (mi + oi) % 3 and opname not in ('shift', 'reverse'):
                    continue
                ispec = gen_igrid(rng, rep)
                n = build_igrid(ispec).size
                jobs.append((ispec, 'same', gen_iops(rng, opname, rep.startswith('polar'), n), mk(rng), opname))
    # telescope pupils on one grid object with a history
    for pi, (name, kw) in enumerate(INPLACE_PUPILS):
        for ri, rep in enumerate(INPLACE_REPS):
            for j in range(ctx.scale(1, 4)):
                opname = ('reverse', 'rotate+reverse', 'shift', 'scale+reverse', 'weights-array', 'scale-xy', 'reverse+shift')[(pi + ri + j) % 7]
                first = ('same', 'converting', 'same', 'as')[(pi + ri + j) % 4]
                ispec = gen_igrid(rng, rep, half=0.55 * PUPIL_DIAMETER[name])
                n = build_igrid(ispec).size
                jobs.append((ispec, first, gen_iops(rng, opname, rep.startswith('polar'), n, unit=PUPIL_DIAMETER[name] / 4.0), ['pupil', name, kw], opname))
    lines, checks = [], []
    for ispec, first, ops, bspec, opname in jobs:
        req, chk = run_inplace_case(ctx, ispec, first, ops, bspec, opname=opname)
        if req is not None:
            lines.append(req)
            checks.append(chk)
    out = ctx.model(lines) if lines else []
    for chk, resp in zip(checks, out):
        chk(resp)
    # coverage assertions: every (representation, operation, first-use) combination and every maker on every representation
    for rep in INPLACE_REPS:
        for opname in INPLACE_OPS:
            for first in INPLACE_FIRST:
                if first == 'none' and opname != 'none' and ctx.quick():
                    continue
                if not ctx.dist.get('inplace-cover:%s|%s|%s' % (rep, opname, first), 0) and not any(
                        k.startswith('inplace-op-raises:') and k.split(':')[2] == rep for k in ctx.dist):
                    raise MachineryError('in-place history: %s / %s / first use %s was never run' % (rep, opname, first))
    ctx.extra['inplace_history'] = {
        'cases': len(jobs), 'model_requests': len(lines),
        'by_representation': {r: ctx.dist.get('inplace:' + r, 0) for r in INPLACE_REPS},
        'by_operation': {o: ctx.dist.get('inplace-op:' + o, 0) for o in INPLACE_OPS},
        'by_first_use': {f: ctx.dist.get('inplace-first:' + f, 0) for f in INPLACE_FIRST},
        'operation_raises': {k[len('inplace-op-raises:'):]: v for k, v in ctx.dist.items() if k.startswith('inplace-op-raises:')},
    }


def check_hexqr(ctx):
    """the model's integer ring arithmetic against make_hexagonal_grid (exact: q, r recovered from the positions)"""
    import hcipy
    for rings in range(0, 6):
        g = hcipy.make_hexagonal_grid(2.0, rings, pointy_top=True)
        x, y = np.array(g.x), np.array(g.y)
        qr = []
        for a, b in zip(x, y):
            # circum_diameter 2: x = (r - q), y = (q + r) * sqrt(3)
            sm = b / np.sqrt(3)
            q, r = (sm - a) / 2, (sm + a) / 2
            qr.append('%d,%d' % (int(round(q)), int(round(r))))
        out = ctx.model(['C12 hexqr %d' % rings])[0]
        ctx.traces_validated += 1
        if out != 'ok ' + ';'.join(qr):
            ctx.disagree('C12 hexqr', {'rings': rings, 'model': out[:200], 'impl': ';'.join(qr)[:200]})


def check_hexcount(ctx):
    """the concrete constants of Model/ApertureTelescopes.lean (theorems luvoir_a_keeps_120_segments, luvoir_b_keeps_55_segments)
    against the NumPy expressions of the makers, and the proved counts against the segments the real makers return"""
    import hcipy.aperture.realistic as rl
    from fractions import Fraction
    for short, name, proved in (('luvoir_a', 'make_luvoir_a_aperture', 120), ('luvoir_b', 'make_luvoir_b_aperture', 55)):
        cfg = hexpupil_cfg(name, {})
        out = ctx.model(['C12 hexcount ' + short])[0].split(' ')
        ctx.traces_validated += 1
        try:
            with warnings.catch_warnings():
                warnings.simplefilter('ignore')
                nreal = len(getattr(rl, name)(return_segments=True)[1])
        except Exception as e:                                  # noqa
            ctx.disagree('C12 hexcount', {'name': name, 'detail': 'the maker raises %s' % type(e).__name__})
            continue
        want = [Fraction(float(cfg['pitch'])), Fraction(float(cfg['pitch'] * np.sqrt(3) / 4))] + [_frac(sel[-1]) for sel in cfg['sels']]
        try:
            got = [_frac(out[3]), _frac(out[4])] + [_frac(t) for t in out[5][1:-1].split(',')]
            ok = out[0] == 'ok' and int(out[1]) == proved and int(out[2]) == cfg['rings'] and got == want
        except Exception:                                       # noqa
            ok = False
        if not ok:
            ctx.disagree('C12 hexcount', {'name': name, 'model': ' '.join(out)[:300], 'detail': 'constants of the model differ from the maker\'s expressions'})
        if nreal != proved:
            ctx.disagree('C12 hexcount', {'name': name, 'proved': proved, 'impl': nreal}, key='pupil:%s:segment-count' % name[5:])
        ctx.count('hexcount-checked')


# ---------------------------------------------------------------------------------------------

def run(ctx):
    ctx.rule = ('Generic makers: directed corpus, then random shape trees (circle, ellipse, rectangle, regular polygons n=3..12, '
                'irregular polygons incl. self-intersecting, spiders, obstructed, obstruction, rotated, shifted, segmented with '
                'transmissions, hexagonal segmented) with dyadic parameters and Pythagorean angles, on point sets given as '
                'regular grids (non-square, offset, negative delta, size 1), separated grids (sorted, reversed, permuted, '
                'repeated coordinates) and separated polar grids; each point set is presented in every representation it has '
                '(regular/separated/unstructured/polar). Oracle: pointwise equality across representations (a difference is '
                'forgiven only if the real generator changes value within 1e-7*scale of the point), values in {0,1} or a '
                'transmission, field attached to the grid, evaluate_supersampled in [0,1] and equal on regular/separated. '
                'Correspondence: Lean model of both code paths, point by point, skipping points the model flags as within '
                '1e-7*scale of a decision (counted in boundary_skipped). Telescope pupils: every maker of realistic.py with '
                'every combination of its boolean flags (+ telescope variants, random transmissions, gap padding), oracle only; '
                'Keck, VLT (+quadrants), LUVOIR A/B, ELT, TMT, HiCAT (+returned segments) also against the model, which derives the '
                'segment lattice, the dropped segments, obscuration and spiders itself (segment centres observed on the real maker), '
                'on directed zooms at dropped sites / gaps / rims / spider crossings; Magellan, Hale, HabEx, HST as recipes. '
                'Exactly representable boundaries (dyadic axis-aligned rectangles, circles, spiders) are compared ON the boundary '
                'with tolerance 0. '
                'Non-trivial = the field is neither all zero nor all non-zero; distinct by (maker, grid kind, #points, #non-zero).')
    ctx.assumptions += ['matplotlib Path.contains_points implements the even-odd crossing rule away from the boundary',
                        'cos/sin/apothem constants are recomputed by the harness with the NumPy expressions of the maker closures',
                        'as_(polar)/as_(cartesian) round trips move a point by far less than 1e-7*scale']
    big = ctx.tier == 'thorough'
    n = ctx.scale(300, 5000)          # round 4: every case also runs the polar path and the regsub probes; 9000 -> 5000 keeps thorough < 10 min
    cases = [(g, s, None, None) for g, s in DIRECTED]
    corners = corner_cases()
    for k, (mk, cls, spec) in enumerate(corners):
        for gi, g in enumerate(CORNER_GRIDS):
            if gi == 2 and ctx.quick() and k % 3:
                continue            # quick tier: the descending separated grid for every third corner case only
            cases.append((g, spec, None, (mk, cls)))
    for k in range(n):
        g = gen_grid(ctx.rng, big and k % 2 == 0)
        s = gen_shape(ctx.rng)
        over = None
        if ctx.rng.random() < 0.3:
            over = int(ctx.rng.integers(1, 5)) if ctx.rng.random() < 0.7 else [int(ctx.rng.integers(1, 4)), int(ctx.rng.integers(1, 4))]
        cases.append((g, s, over, None))
    # coverage sweep: every maker on every grid family (descending / mixed-direction / library-reversed
    # / size-1 axes, polar grids containing the origin)
    sweep_rounds = ctx.scale(1, 4)
    for _ in range(sweep_rounds):
        for mk in SWEEP_MAKERS:
            for fam in FAMILIES:
                cases.append((gen_grid_family(ctx.rng, fam), mk(ctx.rng), None, None))
    lines, checks = [], []
    for k, (g, s, over, corner) in enumerate(cases):
        # history on one grid object: always on grids with aliased buffers, else for about a third of the cases
        hist = k if (g[0].startswith('alias') or k % 3 == 0) else None
        l, chk = run_generic(ctx, g, s, over, corner=corner, hist=hist)
        checks.append((len(lines), len(l), chk))
        lines += l
    # coverage assertion for the corner sweep: every (maker, corner class) was evaluated without error on a polar and on
    # every Cartesian representation
    ncorner = 0
    for mk, cls, _ in corners:
        for rep in ('regular', 'separated', 'unstructured', 'polar'):
            if not ctx.dist.get('corner:%s|%s|%s' % (mk, cls, rep), 0):
                raise MachineryError('corner sweep: %s with %s was never evaluated on a %s grid' % (mk, cls, rep))
        ncorner += 1
    ctx.extra['corner_sweep'] = {'maker_corner_pairs': ncorner, 'grids': len(CORNER_GRIDS), 'cases': sum(1 for c in cases if c[3] is not None)}
    for _ in range(ctx.scale(1, 4)):
        for kw in KECK_CONFIGS:
            for fam in FAMILIES:
                if ctx.quick() and ctx.rng.random() < 0.75:
                    continue
                l, chk = run_keck(ctx, kw, int(ctx.rng.integers(0, 2 ** 31)), fam)
                checks.append((len(lines), len(l), chk))
                lines += l
    # the VLT pupil and its quadrants inside the model, on every grid family
    for _ in range(ctx.scale(1, 3)):
        for kw in VLT_CONFIGS:
            for fam in FAMILIES:
                if ctx.quick() and ctx.rng.random() < 0.8:
                    continue
                l, chk = run_vlt(ctx, kw, int(ctx.rng.integers(0, 2 ** 31)), fam, nseg=ctx.scale(1, 2))
                checks.append((len(lines), len(l), chk))
                lines += l
    # the simple telescope pupils as compositions of the modelled makers
    for name, kw in RECIPE_PUPILS:
        for i in range(len(recipe_pupil(name, kw)[2])):
            for fine in (0, 1):
                fam = 'regular' if (i + fine) % 2 == 0 else str(ctx.rng.choice(['sep-asc', 'sep-desc', 'sep-permuted', 'regular-reversed', 'regular-scaled-1']))
                l, chk = run_recipe(ctx, name, kw, int(ctx.rng.integers(0, 2 ** 31)), fam, feat=[i, fine])
                checks.append((len(lines), len(l), chk))
                lines += l
    for _ in range(ctx.scale(1, 2)):
        for name, kw in RECIPE_PUPILS:
            for fam in FAMILIES:
                if ctx.quick() and ctx.rng.random() < 0.8:
                    continue
                l, chk = run_recipe(ctx, name, kw, int(ctx.rng.integers(0, 2 ** 31)), fam)
                checks.append((len(lines), len(l), chk))
                lines += l
    # round 5: the hexagonally segmented pupils with the parameter derivation inside the model; directed feature zooms first
    for name in HEXMODEL_PUPILS:
        cfgs5 = HEXMODEL_CONFIGS[name]
        for li, flabel in enumerate(HEXMODEL_FEATURES[name]):
            if flabel == 'spider' and ctx.quick():
                continue            # quick tier: 'spider-crossings' visits every spider in one case
            for k in ([int(ctx.rng.integers(0, 5))] if ctx.quick() else range(2 if name in HEAVY else 3)):
                for fine in ([bool(ctx.rng.integers(0, 2))] if ctx.quick() or flabel == 'spider-crossings' else (False, True)):
                    kw = cfgs5[int(ctx.rng.integers(0, len(cfgs5)))]
                    if flabel.startswith('spider') and kw.get('with_spiders') is False:
                        kw = cfgs5[0]
                    fam = 'regular' if (li + k) % 2 == 0 else str(ctx.rng.choice(['sep-asc', 'sep-desc', 'sep-permuted', 'regular-reversed', 'regular-scaled-1']))
                    if flabel == 'spider-crossings':
                        fam = 'pts'
                    if flabel == 'obscuration-rim' and ctx.quick():
                        # the returned segments are wrapped differently with and without spiders: both branches in every run
                        for kw2 in (cfgs5[0], cfgs5[2]):
                            l, chk = run_hexpupil(ctx, name, kw2, int(ctx.rng.integers(0, 2 ** 31)), fam, feat=[flabel, k, False])
                            checks.append((len(lines), len(l), chk))
                            lines += l
                        continue
                    l, chk = run_hexpupil(ctx, name, kw, int(ctx.rng.integers(0, 2 ** 31)), fam, feat=[flabel, k, fine])
                    checks.append((len(lines), len(l), chk))
                    lines += l
        for _ in range(ctx.scale(1, 1 if name in HEAVY else 2)):
            fams = ([str(f) for f in ctx.rng.choice(FAMILIES, 1 if name in HEAVY else 2, replace=False)] if ctx.quick()
                    else [f for f in FAMILIES if name not in HEAVY or ctx.rng.random() < 0.5])
            for fam in fams:
                kw = cfgs5[int(ctx.rng.integers(0, len(cfgs5)))]
                l, chk = run_hexpupil(ctx, name, kw, int(ctx.rng.integers(0, 2 ** 31)), fam)
                checks.append((len(lines), len(l), chk))
                lines += l
    check_hexqr(ctx)
    check_hexcount(ctx)
    run_super_errors(ctx)
    run_super_stats(ctx)
    run_super_lists(ctx)
    run_negative_diameter(ctx)
    run_exact_boundary(ctx)
    run_inplace(ctx)
    out = ctx.model(lines)
    for base, cnt, chk in checks:
        chk(out[base:base + cnt])
    compared = ctx.dist.get('points-compared', 0)
    skipped = ctx.dist.get('model-boundary-skipped', 0)
    if compared + skipped and skipped > 0.05 * (compared + skipped):
        raise MachineryError('more than 5%% of the points were boundary-skipped (%d of %d): the generator is broken' % (skipped, compared + skipped))
    # telescope pupils
    for name, kw, gseed, fam, gfix in DIRECTED_PUPILS:
        run_pupil(ctx, name, kw, gseed, None, fam, gfix)
    cfgs = pupil_configs()
    rounds = ctx.scale(1, 12)
    for rnd in range(rounds):
        for name, kw in cfgs:
            if not big and name in HEAVY and ctx.rng.random() < 0.5 and kw:
                ctx.count('pupil-config-skipped-quick')
                continue
            over = int(ctx.rng.integers(2, 4)) if ctx.rng.random() < (0.15 if name in HEAVY else 0.3) and not kw.get('return_segments') else None
            run_pupil(ctx, name, kw, int(ctx.rng.integers(0, 2 ** 31)), over)
    for _ in range(sweep_rounds):
        for name in HEX_PUPILS:
            for fam in FAMILIES:
                if fam == 'regular':
                    continue
                kw = {'with_spiders': bool(ctx.rng.random() < 0.5)} if name != 'make_luvoir_b_aperture' else {}
                run_pupil(ctx, name, kw, int(ctx.rng.integers(0, 2 ** 31)), None, fam)
    ctx.extra['pupil_configurations'] = len(cfgs)
    frac = {}
    for k, v in ctx.dist.items():
        if k.startswith('skipped-by-maker:') or k.startswith('compared-by-maker:'):
            kind, mk = k.split(':', 1)
            frac.setdefault(mk, {'skipped': 0, 'compared': 0})[kind.split('-')[0]] += v
    frac['hexpupil(model)'] = {'skipped': ctx.dist.get('boundary-skipped:hexpupil', 0), 'compared': ctx.dist.get('hexpupil-points-compared', 0)}
    for mk, d in frac.items():
        d['skipped_fraction'] = round(d['skipped'] / max(1, d['skipped'] + d['compared']), 5)
    ctx.extra['boundary_skipped_by_maker'] = frac
    ctx.extra['compared_on_boundary'] = {k.split(':', 1)[1]: v for k, v in ctx.dist.items() if k.startswith('on-boundary-by-maker:')}
    ctx.extra['axis_distribution'] = {k[5:]: v for k, v in sorted(ctx.dist.items()) if k.startswith('axes:')}
    cover = {}
    for k, v in ctx.dist.items():
        if k.startswith('cover:'):
            mk, feat = k[6:].split('|')
            cover.setdefault(mk, {})[feat] = v
    ctx.extra['maker_by_axes'] = cover
    # coarse classes, and the least-covered (maker, class) pair among generic makers and hex pupils
    def classes(feat):
        out = []
        if feat == 'polar:r0=0':
            out.append('polar-with-origin')
        if feat.startswith('polar'):
            return out
        kind, axes = feat.split(':')
        if kind.startswith('alias'):
            out.append('aliased-axes')
        if kind == 'alias-pts':
            return out
        ax = axes.split(',')
        if any(a.endswith('-desc') for a in ax):
            out.append('descending-axis')
        if sorted(a[2:] for a in ax) == ['asc', 'desc']:
            out.append('mixed-direction')
        if any(a.endswith('-mixed') for a in ax):
            out.append('unsorted-axis')
        if any(a.endswith('-single') for a in ax):
            out.append('size-1-axis')
        if '(' in kind:
            out.append('library-reversed/scaled(-1)')
        if kind.startswith('regular') and any(a.endswith('-desc') for a in ax):
            out.append('regular-negative-delta')
        return out
    coarse = {}
    for mk, feats in cover.items():
        for feat, v in feats.items():
            for c in classes(feat):
                coarse.setdefault(mk, {})
                coarse[mk][c] = coarse[mk].get(c, 0) + v
    ctx.extra['maker_by_axis_class'] = coarse
    all_classes = ['descending-axis', 'mixed-direction', 'unsorted-axis', 'size-1-axis', 'library-reversed/scaled(-1)',
                   'regular-negative-delta', 'polar-with-origin', 'aliased-axes']
    watched = ['circle', 'ellipse', 'rect', 'regpoly', 'irrpoly', 'spider', 'spiderinf', 'obstructed', 'obstruction', 'rotated',
               'shifted', 'segmented(regpoly)', 'segmented(circle)', 'hexseg'] + ['pupil:' + n[5:] for n in HEX_PUPILS]
    least = min(((coarse.get(m, {}).get(c, 0), m, c) for m in watched for c in all_classes), default=None)
    ctx.extra['least_covered_maker_axis_class'] = least
    if least is not None and least[0] == 0:
        raise MachineryError('the generator never presented %s on a grid of class %s' % (least[1], least[2]))


def replay(ctx, case):
    if case.get('kind') == 'keck':
        run_keck(ctx, case['kw'], case['gseed'], case['fam'])
    elif case.get('kind') == 'vlt':
        run_vlt(ctx, case['kw'], case['gseed'], case['fam'], case.get('nseg', 2))
    elif case.get('kind') == 'hexpupil':
        run_hexpupil(ctx, case['name'], case['kw'], case['gseed'], case['fam'], case.get('feat'))   # oracle part; the model part needs the driver
    elif case.get('kind') == 'recipe':
        run_recipe(ctx, case['name'], case['kw'], case['gseed'], case['fam'], case.get('feat'))
    elif case.get('kind') == 'super-list':
        super_list_case(ctx, case['grid'], case['shapes'], case['over'], case['stat'], case['sparse'], want_model=False)
    elif case.get('kind') == 'super-stat':
        super_stat_case(ctx, case['grid'], case['shape'], case['over'], want_model=False)
    elif case.get('kind') == 'inplace':
        run_inplace_case(ctx, case['grid'], case['first'], case['ops'], case['shape'], want_model=False, opname=case.get('opname'))
    elif case.get('kind') == 'pupil':
        run_pupil(ctx, case['name'], case['kw'], case['gseed'], case.get('over'), case.get('fam'), case.get('gspec_fixed'))
    else:
        run_generic(ctx, case['grid'], case['shape'], case.get('over'), want_model=False, hist=case.get('hist'))
    for v in ctx.violations:
        print('  fails:', v['key'], '-', v['what'])
    return not ctx.violations
