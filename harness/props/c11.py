"""C11 — grid geometry: correspondence with the Lean grid model + direct oracle on hcipy's grids."""
import math
import warnings
from fractions import Fraction

import numpy as np

from harness.common import rat, rat_list, parse_rat_lists, MachineryError
from harness.props import gridlib as G
from harness.props.c10 import coord_arrays, count_shared

MAXLIVE = 7
NONMUT = ('new', 'copy', 'scaled', 'shifted', 'reversed', 'rotated', 'protated', 'as', 'pshifted', 'super', 'sub')
FROM_IMPL = ('as', 'pshifted', 'pshift')     # results the rational model takes from the implementation (oracle-checked)
TWO_PI = 2 * np.pi


# ---------------------------------------------------------------------------------------------
# generation of transformation histories

def gen_scale_arg(rng, ndim, polar):
    vals = [-2.0, -1.0, -0.5, 0.5, 2.0, 1.5, 4.0, 1.0, -0.25, 3.0, -1.5]
    if polar:
        return ['s', float(rng.choice([2.0, 0.5, 1.5, 4.0, 1.0, 3.0])), str(rng.choice(G.SCALAR_FORMS))]
    if rng.random() < 0.45:
        return ['s', float(rng.choice(vals)), str(rng.choice(G.SCALAR_FORMS))]
    return ['v', [float(rng.choice(vals)) for _ in range(ndim)], str(rng.choice(G.VECTOR_FORMS))]


def gen_shift_arg(rng, ndim):
    vals = [0.0, 0.5, -1.0, 2.0, 0.125, -3.25, 1.0]
    if rng.random() < 0.3:
        return ['s', float(rng.choice(vals)), str(rng.choice(G.SCALAR_FORMS))]
    return ['v', [float(rng.choice(vals)) for _ in range(ndim)], str(rng.choice(G.VECTOR_FORMS))]


def gen_rot(rng, ndim):
    c, s = G.gen_angle(rng)
    if ndim == 3:
        ax = G.UNIT3[int(rng.integers(0, len(G.UNIT3)))]
        return {'c': G.fr(c), 's': G.fr(s), 'axis': [G.fr(Fraction(a)) for a in ax]}
    return {'c': G.fr(c), 's': G.fr(s)}


def spec_ndim(spec):
    return len(spec['data'][1]) if spec['kind'] == 'reg' else len(spec['data'])


def gen_pyth_spec(rng):
    """A Cartesian 2-D grid all of whose points have a rational distance from the origin (multiples of
    Pythagorean pairs, points on the axes, the origin), so that the exact conversion model is defined on
    every point; any kind of coordinates."""
    t = float(rng.choice([1.0, 0.5, 2.0, 0.25, 1.5]))
    a, b, _ = G.PYTH[int(rng.integers(0, len(G.PYTH)))]
    if rng.random() < 0.5:
        a, b = b, a
    kind = str(rng.choice(['uns', 'uns', 'sep', 'reg']))
    if kind == 'uns':
        pts = []
        for _ in range(int(rng.integers(1, 9))):
            r = rng.random()
            if r < 0.15:
                pts.append((0.0, 0.0))
            elif r < 0.35:
                v = float(rng.choice([-3.0, -1.0, 0.5, 2.0, 4.0])) * t
                pts.append((v, 0.0) if rng.random() < 0.5 else (0.0, v))
            else:
                aa, bb, _ = G.PYTH[int(rng.integers(0, len(G.PYTH)))]
                k = float(rng.choice([1.0, 0.5, 2.0, 0.25])) * float(rng.choice([-1.0, 1.0]))
                sg = float(rng.choice([-1.0, 1.0]))
                pts.append((aa * k, bb * k * sg) if rng.random() < 0.5 else (bb * k, aa * k * sg))
        data = [[p[0] for p in pts], [p[1] for p in pts]]
    elif kind == 'sep':
        r = rng.random()
        if r < 0.4:
            data = [[-a * t, 0.0, a * t][int(rng.integers(0, 2)):], [-b * t, 0.0, b * t][:int(rng.integers(2, 4))]]
        elif r < 0.7:
            data = [[float(v) * t for v in rng.integers(-4, 5, size=int(rng.integers(2, 6)))], [0.0]]
        else:
            data = [[a * t, -a * t], [b * t, -b * t, 0.0]]
    else:
        r = rng.random()
        if r < 0.5:
            data = [[a * t, b * t], [3, 3], [-a * t, -b * t]]
        elif r < 0.75:
            data = [[-a * t, b * t], [2, 3], [a * t, -b * t]]
        else:
            data = [[0.5 * t, 1.0], [int(rng.integers(1, 7)), 1], [float(rng.choice([-1.0, 0.0, 0.25])), 0.0]]
    w = None if rng.random() < 0.7 else 0.5
    return {'sys': 'c', 'kind': kind, 'data': data, 'w': w, 'int': False, 'lowbits': False, 'pyth': True}


def gen_history(rng, big):
    r = rng.random()
    if r < 0.12:
        return gen_pyth_history(rng, big)
    if r < 0.30:
        return gen_identity_history(rng, big)
    return gen_history0(rng, big)


def canon_polar(spec):
    """radii positive, angles within (-pi, pi]: a polar grid in canonical form"""
    if spec['kind'] == 'reg':
        d, n, z = spec['data']
        d[0] = abs(d[0]) + 0.125
        z[0] = abs(z[0]) + 0.25
        d[1] = min(abs(d[1]), 0.5) or 0.25
        z[1] = max(min(z[1], 0.5), -3.0)
        while z[1] + d[1] * (n[1] - 1) > 3.0:
            d[1] /= 2
    else:
        spec['data'][0] = [abs(v) + 0.25 for v in spec['data'][0]]
        spec['data'][1] = [max(min(v, 3.0), -3.0) for v in spec['data'][1]]


SAMPLE_FORMS = ['pyint', 'pyfloat', 'list', 'float64', 'int64']
IDENT_VECTOR_FORMS = G.VECTOR_FORMS + ['computed', 'intarr']


def gen_identity_op(rng, sysm, ndim, kind):
    """One non-mutating (or in-place) operation whose ARGUMENT is the identity of its group, in one of its
    spellings.  Returns a list of ops (reversing twice takes two) with `i` to be filled in by the caller."""
    c = ['scaled:s', 'scaled:v', 'copy', 'rev2', 'assame', 'scale:s', 'scaled:s', 'scaled:v']
    if sysm == 'c':
        c += ['shifted:s', 'shifted:v', 'shifted:s', 'shifted:v', 'shift:v']
        if ndim >= 2:
            c += ['rotated', 'rotated']
    else:
        c += ['protated', 'pshifted', 'protated']
    if kind == 'reg':
        c += ['super', 'sub', 'super']
    o = str(rng.choice(c))
    if o in ('scaled:s', 'scale:s'):
        return [[o[:-2], None, ['s', 1.0, str(rng.choice(G.SCALAR_FORMS))]]]
    if o == 'scaled:v':
        if sysm == 'p':
            return [['scaled', None, ['s', 1.0, str(rng.choice(['len1', 'list1', '0d', 'pyint']))]]]
        return [['scaled', None, ['v', [1.0] * ndim, str(rng.choice(IDENT_VECTOR_FORMS))]]]
    if o == 'shifted:s':
        return [['shifted', None, ['s', float(rng.choice([0.0, 0.0, -0.0])), str(rng.choice(G.SCALAR_FORMS))]]]
    if o in ('shifted:v', 'shift:v'):
        z = [float(rng.choice([0.0, 0.0, 0.0, -0.0])) for _ in range(ndim)]
        return [[o[:-2], None, ['v', z, str(rng.choice(IDENT_VECTOR_FORMS))]]]
    if o == 'rotated':
        r = {'c': '1', 's': '0', 'turns': int(rng.choice([0, 0, 1, -1, 2]))}
        if ndim == 3:
            ax = G.UNIT3[int(rng.integers(0, len(G.UNIT3)))]
            r['axis'] = [G.fr(Fraction(a)) for a in ax]
        return [['rotated', None, r]]
    if o == 'protated':
        return [['protated', None, {'c': '1', 's': '0'}]]
    if o == 'pshifted':
        return [['pshifted', None, ['v', [0.0, 0.0], str(rng.choice(IDENT_VECTOR_FORMS))]]]
    if o in ('super', 'sub'):
        return [[o, None, [1] * ndim, str(rng.choice(SAMPLE_FORMS))]]
    if o == 'rev2':
        return [['reversed', None], ['reversed', 'last']]
    return [[o, None]]


def gen_identity_history(rng, big):
    """Identity arguments, every op and spelling: scale by 1 / 1.0 / [1, 1] / np.cos([0, 0]), shift by 0 / -0.0 /
    zeros, rotation by 0 or whole turns, reversing twice, super/subsampling by 1, as_(own system), copy — each
    followed by in-place edits of the result OR of the original.  The result must have the same points and
    weights and be an independent object (never the source itself, never sharing an array with it)."""
    spec = G.gen_spec(rng, maxn=5 if not big else 9)
    if spec['sys'] == 'p':
        canon_polar(spec)
    if rng.random() < 0.3:
        if spec['sys'] == 'c':
            G.make_shared(rng, spec)
        else:
            spec['shared'] = True
    ops = [['new', spec]]
    meta = [[spec['sys'], spec_ndim(spec), spec['kind']]]

    def add(new_ops, i):
        for op in new_ops:
            src = len(meta) - 1 if op[1] == 'last' else i
            op[1] = src
            ops.append(op)
            sysm, ndim, kind = meta[src]
            if op[0] in ('rotated', 'pshifted'):
                meta.append(['c', ndim, 'uns'])
            elif op[0] in NONMUT:
                meta.append([sysm, ndim, kind])
            elif op[0] in ('rotate', 'pshift'):
                meta[src][2] = 'uns'
                if op[0] == 'rotate':
                    meta[src][0] = 'c'

    for _ in range(int(rng.integers(1, 4))):
        if len(meta) >= MAXLIVE - 2:
            break
        i = int(rng.integers(0, len(meta)))
        idop = gen_identity_op(rng, *meta[i])
        twice = [list(o) for o in idop] if (rng.random() < 0.3 and len(meta) + 2 * len(idop) <= MAXLIVE) else None
        add(idop, i)
        if twice is not None:
            add(twice, i)       # the same identity call again: a memoised result would come back
        # the edit that exposes a result that is not independent: in place, on the result or on the original
        for _ in range(int(rng.integers(1, 3))):
            j = int(rng.choice([i, len(meta) - 1, int(rng.integers(0, len(meta)))]))
            sysm, ndim, kind = meta[j]
            if sysm == 'p':
                e = str(rng.choice(['scale', 'reverse', 'protate', 'pshift', 'mat']))
            else:
                e = str(rng.choice(['scale', 'shift', 'reverse', 'scale', 'shift', 'mat'] + (['rotate'] if ndim >= 2 else [])))
            if e == 'scale':
                a = gen_scale_arg(rng, ndim, sysm == 'p')
                if a[0] == 's' and a[1] == 1.0:
                    a[1] = 2.0
                add([[e, None, a]], j)
            elif e == 'shift':
                add([[e, None, ['v', [float(rng.choice([0.5, -1.0, 2.0, 0.125])) for _ in range(ndim)], 'float64']]], j)
            elif e == 'rotate':
                add([[e, None, gen_rot(rng, ndim)]], j)
            elif e == 'protate':
                cc, ss = G.gen_angle(rng)
                add([[e, None, {'c': G.fr(cc), 's': G.fr(ss)}]], j)
            elif e == 'pshift':
                add([[e, None, ['v', [0.5, -1.0], 'float64']]], j)
            else:
                add([[e, None]], j)
    return {'family': 'history', 'ops': ops, 'identity': True}


def gen_pyth_history(rng, big):
    """conversion-heavy history on a grid with Pythagorean points: only operations that keep every radius
    rational (isotropic scale of either sign, reverse, rotation by Pythagorean angles, copies) on the Cartesian
    grids; the polar grids that `as_` produces take part in every operation"""
    spec = gen_pyth_spec(rng)
    ops = [['new', spec]]
    meta = ['c']
    for _ in range(int(rng.integers(3, 8 if not big else 11))):
        i = int(rng.integers(0, len(meta)))
        if meta[i] == 'c':
            op = str(rng.choice(['as', 'as', 'as', 'scale', 'scaled', 'reverse', 'reversed', 'rotate', 'rotated', 'copy', 'mat']))
        else:
            op = str(rng.choice(['as', 'as', 'scale', 'scaled', 'reverse', 'reversed', 'protate', 'copy']))
        if len(meta) >= MAXLIVE and op in NONMUT:
            op = {'scaled': 'scale', 'reversed': 'reverse', 'rotated': 'rotate', 'copy': 'reverse', 'as': 'reverse'}[op]
        if op in ('scale', 'scaled'):
            vals = [2.0, 0.5, 1.5, 4.0, 3.0] + ([-2.0, -1.0, -0.5] if meta[i] == 'c' else [])
            ops.append([op, i, ['s', float(rng.choice(vals)), str(rng.choice(G.SCALAR_FORMS))]])
        elif op in ('rotate', 'rotated', 'protate'):
            c, s_ = G.gen_angle(rng)
            ops.append([op, i, {'c': G.fr(c), 's': G.fr(s_)}])
        else:
            ops.append([op, i])
        if op == 'as':
            meta.append('p' if meta[i] == 'c' else 'c')
        elif op in NONMUT:
            meta.append(meta[i])
    return {'family': 'history', 'ops': ops, 'pyth': True}


def gen_history0(rng, big):
    maxn = 6 if not big else int(rng.choice([6, 12, 30]))
    spec = G.gen_spec(rng, maxn=maxn)
    if spec['sys'] == 'p':
        canon_polar(spec)
    shared = bool(rng.random() < 0.4)        # constructor inputs alias each other / are reused for a second grid
    if shared and spec['sys'] == 'c':
        G.make_shared(rng, spec)
    elif shared:
        spec['shared'] = True
        if isinstance(spec['w'], list) and spec['kind'] != 'reg' and len(spec['data'][0]) == len(spec['w']) and rng.random() < 0.5:
            spec['w'] = list(spec['data'][0])
    if not shared and rng.random() < 0.5:
        G.gen_forms(rng, spec)               # dtype / container of every constructor argument
    f32 = bool(spec.get('f32'))
    size0 = G.spec_size(spec)                # every grid of such a history has this many points
    ops = [['new', spec]]
    meta = [(spec['sys'], spec_ndim(spec), f32)]
    if shared and rng.random() < 0.4:
        ops.append(['new', dict(spec)])      # a second grid built from the very same arrays
        meta.append(meta[0])
    nops = int(rng.integers(2, 7 if not big else 10))
    convy = rng.random() < 0.35              # a history that keeps converting between coordinate systems
    for _ in range(nops):
        i = int(rng.integers(0, len(meta)))
        sysm, ndim, f32 = meta[i]
        if sysm == 'p':
            choices = ['copy', 'mat', 'scale', 'scaled', 'reverse', 'reversed']
            if not f32:
                # (float32 coordinates: transcendental results would be rounded to float32; left to float64 grids)
                choices += ['protate', 'protated', 'protate', 'as', 'pshifted', 'pshift'] + (['as', 'as', 'pshifted', 'reverse'] if convy else [])
        else:
            choices = ['copy', 'mat', 'mat', 'scale', 'scaled', 'shift', 'shifted', 'reverse', 'reversed', 'scale', 'reverse']
            if ndim >= 2:
                choices += ['rotate', 'rotated']
            elif rng.random() < 0.1:
                choices += ['rotate']          # 1-D: must be refused with ValueError
            if ndim == 2 and not f32:
                choices += ['as'] + (['as', 'as', 'as', 'reverse', 'reversed'] if convy else [])
        op = str(rng.choice(choices))
        if len(meta) >= MAXLIVE and op in NONMUT:
            op = {'scaled': 'scale', 'shifted': 'shift', 'reversed': 'reverse', 'rotated': 'rotate', 'protated': 'protate', 'copy': 'mat',
                  'as': 'reverse', 'pshifted': 'pshift'}[op]
        if rng.random() < 0.1:
            # `grid.weights = w`: a scalar, an array the caller keeps (one object, possibly assigned to several grids), a list
            r = rng.random()
            if r < 0.3:
                ops.append(['setw', i, ['ws', float(rng.choice([2.5, 0.125, 1.0, 3.0]))]])
            else:
                k = float(rng.choice([1.0, 0.5, 2.0]))
                ops.append(['setw', i, ['wa' if r < 0.8 else 'wl', [k * (1.0 + 0.25 * (q % 5)) for q in range(size0)]]])
            continue
        if op in ('scale', 'scaled'):
            ops.append([op, i, gen_scale_arg(rng, ndim, sysm == 'p')])
        elif op in ('shift', 'shifted'):
            ops.append([op, i, gen_shift_arg(rng, ndim)])
        elif op in ('rotate', 'rotated'):
            ops.append([op, i, gen_rot(rng, ndim)])
        elif op in ('protate', 'protated'):
            c, s = G.gen_angle(rng)
            ops.append([op, i, {'c': G.fr(c), 's': G.fr(s)}])
        elif op in ('pshifted', 'pshift'):
            ops.append([op, i, ['v', [float(rng.choice([0.0, 0.5, -1.0, 2.0, 0.125])) for _ in range(2)], str(rng.choice(G.VECTOR_FORMS))]])
        else:
            ops.append([op, i])
        if op == 'as':
            meta.append(('p' if sysm == 'c' else 'c', 2, False))
        elif op == 'pshifted':
            meta.append(('c', 2, False))
        elif op == 'rotated':
            meta.append(('c', ndim, False))
        elif op in NONMUT:
            meta.append((sysm, ndim, f32))
        elif op == 'rotate':
            meta[i] = ('c', ndim, False)
    return {'family': 'history', 'ops': ops}


# ---------------------------------------------------------------------------------------------
# the real code: histories

def angle_of(r):
    # `turns`: whole turns added to the angle (rotation by 2*pi*n: the identity map, spelled differently)
    return math.atan2(float(Fraction(r['s'])), float(Fraction(r['c']))) + TWO_PI * r.get('turns', 0)


def sample_arg(k, form):
    """the factor argument of make_supersampled_grid / make_subsampled_grid in one of its spellings"""
    if form == 'pyint' and len(set(k)) == 1:
        return int(k[0])
    if form == 'pyfloat' and len(set(k)) == 1:
        return float(k[0])
    if form == 'list':
        return [int(v) for v in k]
    if form == 'float64':
        return np.array(k, dtype='float64')
    return np.array([int(v) for v in k])


def apply_real(grids, op, pool=None):
    kind = op[0]
    try:
        with warnings.catch_warnings():
            warnings.simplefilter('ignore')
            if kind == 'new':
                g = G.build(op[1], pool)
                G.validate(g)
                grids.append(g)
            elif kind == 'as':
                src = grids[op[1]]
                grids.append(src.as_('polar' if src._coordinate_system == 'cartesian' else 'cartesian'))
            elif kind == 'pshifted':
                grids.append(grids[op[1]].shifted(G.op_arg(op[2])))
            elif kind == 'pshift':
                grids[op[1]].shift(G.op_arg(op[2]))
            elif kind == 'copy':
                grids.append(grids[op[1]].copy())
            elif kind in ('super', 'sub'):
                import hcipy
                f = hcipy.make_supersampled_grid if kind == 'super' else hcipy.make_subsampled_grid
                grids.append(f(grids[op[1]], sample_arg(op[2], op[3] if len(op) > 3 else 'int64')))
            elif kind == 'assame':
                src = grids[op[1]]
                if src.as_(src._coordinate_system) is not src:
                    return 'err:notself'
            elif kind == 'mat':
                grids[op[1]].weights
            elif kind == 'setw':
                form, val = op[2]
                if form == 'ws':
                    grids[op[1]].weights = float(val)
                elif form == 'wa':
                    grids[op[1]].weights = pool.get(val) if pool is not None else np.array(val, dtype='float64')
                else:
                    grids[op[1]].weights = [float(v) for v in val]
            elif kind in ('scale', 'scaled'):
                a = G.op_arg(op[2])
                if kind == 'scaled':
                    grids.append(grids[op[1]].scaled(a))
                else:
                    grids[op[1]].scale(a)
            elif kind in ('shift', 'shifted'):
                b = G.op_arg(op[2])
                if kind == 'shifted':
                    grids.append(grids[op[1]].shifted(b))
                else:
                    grids[op[1]].shift(b)
            elif kind == 'reverse':
                grids[op[1]].reverse()
            elif kind == 'reversed':
                grids.append(grids[op[1]].reversed())
            elif kind in ('rotate', 'rotated', 'protate', 'protated'):
                ang = angle_of(op[2])
                axis = [float(Fraction(a)) for a in op[2]['axis']] if 'axis' in op[2] else None
                if kind in ('rotated', 'protated'):
                    grids.append(grids[op[1]].rotated(ang, axis))
                else:
                    grids[op[1]].rotate(ang, axis)
            else:
                raise MachineryError('unknown op %r' % (op,))
    except MachineryError:
        raise
    except Exception as e:  # noqa
        return 'err:' + G.errkind(e)
    return 'ok'


def observe(grids):
    out = []
    for g in grids:
        s = G.snap(g)
        s['points'] = G.points(g)
        s['getw'] = G.get_weights(g)
        wl = G.weight_list(g)
        s['wl'] = wl
        out.append(s)
    return out


def grid_arrays(g):
    """the ndarray objects a grid holds and writes to in place: its coordinate arrays, then the stored weights if they are an array"""
    a = coord_arrays(g)
    w = g._weights
    if isinstance(w, np.ndarray) and w.ndim >= 1:
        a = a + [w]
    return a


def ref_ops(kind, op, ncoord, has_w, snap):
    """array operations of an in-place scale / shift / polar rotate on a grid (`ncoord` coordinate arrays, a weights array or not)"""
    reg = snap['kind'] == 'reg'
    ndim = snap['points'].shape[1]
    wop = 'k'
    if kind == 'scale':
        a = op[2]
        f = [a[1]] * ndim if a[0] == 's' else list(a[1])
        jac = abs(float(a[1])) ** ndim if a[0] == 's' else float(np.prod(np.abs(f)))
        if snap['sys'] == 'p':
            f = [a[1], 1.0]
        ops = ['mv:' + rat_list(f)] * 2 if reg else ['ms:' + rat(x) for x in f]
        wop = 'ms:' + rat(jac)
    else:
        if kind == 'shift':
            b = [op[2][1]] * ndim if op[2][0] == 's' else list(op[2][1])
        else:
            b = [0.0, angle_of(op[2])]
        ops = ['k', 'av:' + rat_list(b)] if reg else ['as:' + rat(x) for x in b]
    if len(ops) != ncoord:
        return None
    return ops + ([wop] if has_w else [])


def ref_plan(steps):
    """`ref …` requests mirroring a history on the reference model (Model/GridHeap.lean), with what to compare after each step"""
    lines = ['C11 ref reset']
    checks = []
    nobj = 0
    gobj = []
    prev = []
    for st in steps:
        if st['status'] != 'ok':
            break
        op, kind = st['op'], st['op'][0]
        vals = st['refvals']
        base_kind = {'scaled': 'scale', 'shifted': 'shift', 'protated': 'protate'}.get(kind, kind)
        ops = None
        if base_kind in ('scale', 'shift', 'protate'):
            src = st['before'][op[1]]
            tgt = vals[-1] if kind in NONMUT else vals[op[1]]
            if len(tgt) == len(prev[op[1]]):
                ncoord = 2 if src['kind'] == 'reg' else src['points'].shape[1]
                ops = ref_ops(base_kind, op, ncoord, len(prev[op[1]]) > ncoord, src)
        if kind in NONMUT:
            if kind == 'copy':
                lines.append('C11 ref copy %d' % gobj[op[1]])
            elif ops is not None:
                lines.append('C11 ref copied %d %s' % (gobj[op[1]], ' '.join(ops)))
            else:
                lines.append('C11 ref new ' + G.rat_lists(vals[-1]))
            gobj.append(nobj)
            nobj += 1
        elif ops is not None:
            lines.append('C11 ref inplace %d %s' % (gobj[op[1]], ' '.join(ops)))
        else:
            # reverse / rotate / reading .weights / polar shift / an operation that materialises the weights:
            # the grid's arrays are re-bound to new ones — a fresh object takes its place
            lines.append('C11 ref new ' + G.rat_lists(vals[op[1]]))
            gobj[op[1]] = nobj
            nobj += 1
        if len(gobj) != len(vals):
            raise MachineryError('reference model: %d objects for %d live grids' % (len(gobj), len(vals)))
        shared_at = len(lines)
        lines.append('C11 ref shared')
        at = []
        for k, o in enumerate(gobj):
            at.append((len(lines), vals[k]))
            lines.append('C11 ref val %d' % o)
        checks.append((shared_at, st['shared'], at, op, 'inplace' if (ops is not None and kind not in NONMUT) else
                       'copied' if ops is not None else 'copy' if kind == 'copy' else 'fresh'))
        prev = vals
    return lines, checks


def run_history(case):
    grids = []
    steps = []
    pool = G.Pool()
    for op in case['ops']:
        before = observe(grids)
        nbefore = len(grids)
        status = apply_real(grids, op, pool)
        ch = pool.changed()
        steps.append({'op': op, 'status': status, 'before': before, 'after': observe(grids),
                      'same_obj': [k for k in range(nbefore) if len(grids) > nbefore and grids[-1] is grids[k]],
                      'shared': count_shared([a for g in grids for a in grid_arrays(g)] + list(pool.arrays)),
                      'refvals': [[[float(v) for v in np.asarray(a).ravel()] for a in grid_arrays(g)] for g in grids],
                      'caller_changed': [(list(pool.keys[k])[:6], pool.arrays[k].tolist()[:6]) for k in ch]})
        if status != 'ok':
            break
    return steps


def model_history_lines(case):
    """one entry per op: a request line, a list of lines (construction from caller arrays), or None"""
    lines = []
    mpool = G.Pool()
    for op in case['ops']:
        kind = op[0]
        if kind == 'new':
            lines.append(G.new_lines('C11', op[1], mpool))
        elif kind in ('copy', 'mat', 'reverse', 'reversed'):
            lines.append('C11 %s %d' % (kind, op[1]))
        elif kind in ('super', 'sub'):
            lines.append('C11 %s %d [%s]' % (kind, op[1], ','.join(str(int(v)) for v in op[2])))
        elif kind == 'assame':
            lines.append('C11 same %d' % op[1])
        elif kind == 'setw':
            lines.append('C11 setw %d %s' % (op[1], G.w_text(op[2][1])))
        elif kind in ('scale', 'scaled'):
            a = op[2]
            lines.append('C11 %s %d %s' % (kind, op[1], ('s:' + rat(a[1])) if a[0] == 's' else ('v:' + rat_list(a[1]))))
        elif kind in ('shift', 'shifted'):
            lines.append(None)      # needs ndim: filled in by the caller
        elif kind in ('rotate', 'rotated'):
            r = op[2]
            if 'axis' in r:
                lines.append('C11 %s %d r3 %s %s %s %s %s' % (kind, op[1], r['axis'][0], r['axis'][1], r['axis'][2], r['c'], r['s']))
            else:
                lines.append('C11 %s %d r2 %s %s' % (kind, op[1], r['c'], r['s']))
        elif kind in ('protate', 'protated'):
            lines.append('C11 %s %d %s' % (kind, op[1], rat(angle_of(op[2]))))
        elif kind in FROM_IMPL:
            lines.append('IMPL')
    return lines


def conv_query(st):
    """The model request that runs the executable conversion on the source grid's current value
    (before the implementation's result enters the store), and the real points it must reproduce."""
    op = st['op']
    src = st['before'][op[1]]
    if src['points'].shape[1] != 2:
        return None
    if src['sys'] == 'c':
        return 'C11 aspolar %d' % op[1]
    th = src['points'][:, 1]
    return 'C11 ascart %d %s %s' % (op[1], rat_list([float(v) for v in np.cos(th)]), rat_list([float(v) for v in np.sin(th)]))


def compare_conv(ans, st):
    """None, or a description of the first difference between the executable conversion model and the
    grid `as_()` returned.  Second value: (points compared exactly defined, points outside the exact model)."""
    op = st['op']
    src = st['before'][op[1]]
    real = st['after'][-1]['points']
    if not ans.startswith('ok'):
        return 'model answered %r' % ans, (0, 0)
    body = ans.split(' ', 1)[1] if ' ' in ans else '-'
    mp = parse_rat_lists(body)
    if len(mp) != len(real):
        return 'number of points %d vs %d' % (len(mp), len(real)), (0, 0)
    exact = skipped = 0
    for k, (m, r) in enumerate(zip(mp, real)):
        if src['sys'] == 'c':
            if len(m) == 0:
                skipped += 1
                continue
            exact += 1
            rr, c, s_ = [float(x) for x in m]
            if abs(r[0] - rr) > G.TOL * max(1.0, rr):
                return 'point %d: radius %r vs hypot %r' % (k, float(r[0]), rr), (exact, skipped)
            if rr == 0:
                continue        # the origin: every angle names the same point (arctan2 of signed zeros gives 0, ±pi)
            want = math.atan2(s_, c)
            d = (float(r[1]) - want + math.pi) % (2 * math.pi) - math.pi
            if abs(d) > G.TOL:
                return 'point %d: angle %r vs direction (%r, %r)' % (k, float(r[1]), c, s_), (exact, skipped)
        else:
            exact += 1
            scale = max(1.0, float(np.max(np.abs(real))))
            if abs(r[0] - float(m[0])) > G.TOL * scale or abs(r[1] - float(m[1])) > G.TOL * scale:
                return 'point %d: (%r, %r) vs r*(cos, sin) = (%r, %r)' % (k, float(r[0]), float(r[1]), float(m[0]), float(m[1])), (exact, skipped)
    return None, (exact, skipped)


def pshift_queries(st):
    """The executed composite of `PolarGrid.shift(ed)` (Model/Grid.lean `pshiftedPts` / `pshiftPts`) on the source grid's
    current value: the shifted Cartesian points, and for the in-place form also the polar points `[r, cos, sin]`."""
    op = st['op']
    src = st['before'][op[1]]
    if src['sys'] != 'p' or src['points'].shape[1] != 2:
        return []
    th = src['points'][:, 1]
    args = '%d %s %s %s' % (op[1], rat_list([float(v) for v in np.cos(th)]), rat_list([float(v) for v in np.sin(th)]),
                            rat_list([float(v) for v in op[2][1]]))
    return ['C11 pshifted ' + args] + (['C11 pshift ' + args] if op[0] == 'pshift' else [])


def compare_pshift(answers, st):
    """None or the first difference between the composed model and what PolarGrid.shift(ed) returned; (exact, skipped)."""
    op = st['op']
    new = st['after'][-1] if op[0] == 'pshifted' else st['after'][op[1]]
    real = new['points']
    cart = real if new['sys'] == 'c' else (polar_to_cart(real) if len(real) else real)
    if not answers[0].startswith('ok'):
        return 'model answered %r' % answers[0], (0, 0)
    body = answers[0].split(' ', 1)[1] if ' ' in answers[0] else '-'
    mp = parse_rat_lists(body)
    if len(mp) != len(cart):
        return 'number of points %d vs %d' % (len(mp), len(cart)), (0, 0)
    if len(mp):
        M = np.array([[float(x) for x in q] for q in mp], dtype=float).reshape(len(mp), 2)
        if not close_arr(cart, M):
            k = int(np.argmax(np.max(np.abs(cart - M), axis=1)))
            return 'shifted Cartesian point %d: %r vs model %r' % (k, cart[k].tolist(), M[k].tolist()), (0, 0)
    exact = skipped = 0
    if len(answers) > 1:
        if not answers[1].startswith('ok'):
            return 'model answered %r' % answers[1], (0, 0)
        body = answers[1].split(' ', 1)[1] if ' ' in answers[1] else '-'
        pp = parse_rat_lists(body)
        if len(pp) != len(real):
            return 'number of polar points %d vs %d' % (len(pp), len(real)), (0, 0)
        for k, (m, r) in enumerate(zip(pp, real)):
            if len(m) == 0:
                skipped += 1
                continue
            exact += 1
            rr, c, s_ = [float(x) for x in m]
            if abs(r[0] - rr) > G.TOL * max(1.0, rr):
                return 'polar point %d: radius %r vs %r' % (k, float(r[0]), rr), (exact, skipped)
            if rr > 0:
                d = (float(r[1]) - math.atan2(s_, c) + math.pi) % (2 * math.pi) - math.pi
                if abs(d) > 1e-7:
                    return 'polar point %d: angle %r vs direction (%r, %r)' % (k, float(r[1]), c, s_), (exact, skipped)
    return None, (exact, skipped)


def impl_line(st):
    """The model request that enters the implementation's result of a coordinate-system conversion
    (or of a polar shift, which goes through one) into the store."""
    op = st['op']
    if st['status'] != 'ok':
        return '# %s failed in the implementation' % op[0]
    if op[0] == 'pshift':
        a = st['after'][op[1]]
        return 'C11 set %d %s %s %s' % (op[1], a['sys'], G.coords_text(a['kind'], a['data']), G.w_text(a['w']))
    a = st['after'][-1]
    return 'C11 new %s %s %s' % (a['sys'], G.coords_text(a['kind'], a['data']), G.w_text(a['w']))


# ---------------------------------------------------------------------------------------------
# the property on the observations of a history

def close_arr(a, b, scale=None):
    a = np.asarray(a, dtype=float)
    b = np.asarray(b, dtype=float)
    if a.shape != b.shape:
        return False
    if a.size == 0:
        return True
    if scale is None:
        scale = max(1.0, float(np.max(np.abs(b))))
    return bool(np.all(np.abs(a - b) <= G.TOL * scale))


def rot_points(P, r):
    c = float(Fraction(r['c']))
    s = float(Fraction(r['s']))
    if 'axis' in r:
        k = np.array([float(Fraction(a)) for a in r['axis']])
        return P * c + np.cross(k[None, :], P) * s + np.outer(P.dot(k), k) * (1 - c)
    return np.stack([c * P[:, 0] - s * P[:, 1], s * P[:, 0] + c * P[:, 1]], axis=1)


def factors(arg, ndim):
    return np.full(ndim, arg[1], dtype=float) if arg[0] == 's' else np.array(arg[1], dtype=float)


def oracle_history(steps):
    bad = []
    for st in steps:
        op, status, before, after = st['op'], st['status'], st['before'], st['after']
        name = op[0]
        if st.get('caller_changed'):
            bad.append(('caller-array-changed', '%s changed an array owned by the caller (array %r is now %r)' % (
                name, st['caller_changed'][0][0], st['caller_changed'][0][1])))
        src = before[op[1]] if name != 'new' else None
        ndim = src['points'].shape[1] if src is not None else None
        if status != 'ok':
            allowed = False
            if name in ('rotate', 'rotated') and ndim == 1 and status == 'err:value':
                allowed = True          # documented: a one-dimensional grid cannot be rotated
            if name in ('scale', 'scaled', 'mat') and src['sys'] == 'c' and src['kind'] == 'sep' and src['w'] is None and src['getw'][0] == 'err':
                allowed = True          # automatic weights undefined (axis with fewer than two points)
            if name in ('super', 'sub') and ((src['kind'] == 'sep' and status == 'err:notimpl') or (src['kind'] == 'uns' and status == 'err:value')):
                allowed = True          # documented: only regular grids can be resampled
            if not allowed and src is None:
                bad.append(('new-raises', 'constructing (or reading the points of) a %s %s grid with argument forms %r raised %s' % (
                    op[1]['sys'], op[1]['kind'], op[1].get('forms'), status[4:])))
            elif not allowed:
                bad.append(('op-raises %s%s' % (base(name), arg_class(op)),
                            '%s%s raised %s on a %s %s grid' % (name, arg_form(op), status[4:], src['sys'], src['kind'])))
            if len(after) != len(before) or any(not same_snap(a, b) for a, b in zip(after, before)):
                bad.append(('failed-op-side-effect', 'a failed %s changed a live grid' % name))
            continue
        if name == 'assame':
            if len(after) != len(before) or any(not same_snap(a, b) for a, b in zip(after, before)):
                bad.append(('alias assame', 'as_(own system) changed a live grid'))
            continue
        tgt = len(after) - 1 if name in NONMUT else op[1]
        new = after[tgt]
        if st.get('same_obj'):
            # "the non-mutating forms return independent copies": whatever the argument — also for the identity
            bad.append(('alias %s returns-existing-object' % name, '%s%s returned grid %d itself instead of a new grid' % (
                name, arg_form(op), st['same_obj'][0])))
        # untouched grids
        for k in range(len(before)):
            if name not in NONMUT and k == tgt:
                continue
            if not same_snap(after[k], before[k]):
                bad.append(('alias %s' % name, '%s on grid %d changed grid %d (%s %s)' % (name, op[1] if src else -1, k, after[k]['sys'], after[k]['kind'])))
        if name in ('new',):
            if new['kind'] == 'reg' and new['sys'] == 'c' and new['w'] is None and new['wl'] is not None:
                d, n, z = new['data']
                want = float(np.prod([nn * abs(dd) for nn, dd in zip(n, d)]))
                if not G.num_close(float(np.sum(new['wl'])), want, want):
                    bad.append(('regular-weights-sum', 'weights of a regular grid sum to %r, covered area is %r' % (float(np.sum(new['wl'])), want)))
            continue
        P, W = src['points'], src['wl']
        if name == 'copy':
            wantP, wantW = P, W
        elif name == 'mat':
            wantP, wantW = P, W
        elif name == 'setw':
            # assignment of the weights: the points stay, every cell weight is the assigned one
            wantP = P
            wantW = np.full(len(P), float(op[2][1])) if op[2][0] == 'ws' else np.array(op[2][1], dtype='float64')
        elif name in ('scale', 'scaled'):
            if src['sys'] == 'p':
                f = np.array([op[2][1], 1.0])
                J = abs(op[2][1]) ** 2
            else:
                f = factors(op[2], ndim)
                J = float(np.prod(np.abs(f)))
            wantP, wantW = P * f[None, :], (W * J if W is not None else None)
        elif name in ('shift', 'shifted'):
            wantP, wantW = P + factors(op[2], ndim)[None, :], W
        elif name in ('reverse', 'reversed'):
            wantP, wantW = P[::-1], (W[::-1] if W is not None else None)
        elif name in ('super', 'sub'):
            # from the definition: every cell is cut into k equal sub-cells (super) / k consecutive cells are merged (sub);
            # the samples sit at the cell centres
            if src['kind'] != 'reg':
                bad.append(('op-accepts %s' % name, '%s%s of a %s grid did not raise (only regular grids can be resampled)' % (name, arg_form(op), src['kind'])))
                continue
            d, n, z = src['data']
            axes = []
            for dd, nn, zz, k in zip(d, n, z, op[2]):
                if name == 'super':
                    axes.append([zz + j * dd - dd / 2 + (m + 0.5) * dd / k for j in range(nn) for m in range(k)])
                else:
                    axes.append([float(np.mean([zz + (j * k + m) * dd for m in range(k)])) for j in range(nn // k)])
            mesh = np.meshgrid(*axes[::-1], indexing='ij')
            wantP = np.stack([mm.ravel() for mm in mesh[::-1]], axis=1) if all(len(a) for a in axes) else np.zeros((0, len(axes)))
            wantW = None
            if new['kind'] != 'reg' or new['sys'] != src['sys']:
                bad.append(('points %s' % name, '%s of a regular %s grid returned a %s %s grid' % (name, src['sys'], new['sys'], new['kind'])))
            elif all(k == 1 for k in op[2]) and W is not None and src['w'] is None and new['wl'] is not None and not close_arr(new['wl'], W):
                bad.append(('weights %s' % name, 'resampling by 1 changed the automatic weights'))
        elif name in ('rotate', 'rotated'):
            wantP, wantW = rot_points(P, op[2]), None
        elif name in ('protate', 'protated'):
            wantP = P + np.array([0.0, angle_of(op[2])])[None, :]
            wantW = W
        elif name == 'as':
            # a conversion is a pure function of the *current* points, whatever was converted before
            if src['sys'] == 'c':
                wantP = np.stack([np.hypot(P[:, 0], P[:, 1]), np.arctan2(P[:, 1], P[:, 0])], axis=1) if len(P) else P
            else:
                wantP = polar_to_cart(P) if len(P) else P
            wantW = None
            if new['sys'] == src['sys']:
                bad.append(('conversion system', 'as_() returned a grid in the old coordinate system'))
        elif name in ('pshifted', 'pshift'):
            C = polar_to_cart(P) if len(P) else P
            wantP = C + factors(op[2], 2)[None, :] if len(P) else P
            wantW = W if name == 'pshift' else None
            got = new['points'] if new['sys'] == 'c' else (polar_to_cart(new['points']) if len(P) else P)
            if (name == 'pshifted') != (new['sys'] == 'c'):
                bad.append(('conversion system', 'PolarGrid.%s returned a %s grid' % (name, new['sys'])))
            new = dict(new)
            new['points'] = got
        else:
            raise MachineryError(name)
        if not close_arr(new['points'], wantP):
            bad.append(('points %s' % base(name), 'points after %s%s of a %s %s grid are not the images of the points' % (
                name, arg_class(op), src['sys'], src['kind'])))
        if wantW is not None:
            if new['wl'] is None:
                bad.append(('weights %s unreadable' % base(name), 'weights cannot be read after %s' % name))
            elif not close_arr(new['wl'], wantW):
                hist = 'cached' if src['w'] is not None else 'uncached'
                bad.append(('weights %s %s' % (base(name), hist), 'weights after %s%s of a %s %s grid (%s weights) are %s, expected %s' % (
                    name, arg_class(op), src['sys'], src['kind'], hist, np.round(new['wl'][:6], 6).tolist(), np.round(wantW[:6], 6).tolist())))
    out, seen = [], set()
    for k, w in bad:
        if k not in seen:
            seen.add(k)
            out.append((k, w))
    return out


def aliased(spec):
    arrs = [tuple(a) for a in (spec['data'] if spec['kind'] != 'reg' else [spec['data'][0], spec['data'][2]])]
    if isinstance(spec['w'], list):
        arrs.append(tuple(spec['w']))
    return len(set(arrs)) < len(arrs)


def base(name):
    return {'scaled': 'scale', 'shifted': 'shift', 'reversed': 'reverse', 'rotated': 'rotate', 'protated': 'protate',
            'pshifted': 'pshift'}.get(name, name)


def is_sv(op):
    return len(op) > 2 and isinstance(op[2], list) and len(op[2]) > 0 and op[2][0] in ('s', 'v')


def arg_form(op):
    if len(op) > 3 and not is_sv(op) and isinstance(op[2], list):
        return '(factor %r as %s)' % (op[2], op[3])
    if is_sv(op):
        return '(%s as %s)' % ('scalar' if op[2][0] == 's' else 'vector', op[2][2] if len(op[2]) > 2 else 'default')
    return ''


def arg_class(op):
    if is_sv(op):
        return '(scalar)' if op[2][0] == 's' else '(vector)'
    return ''


def same_snap(a, b):
    return G.ident(a) == G.ident(b) and a['w'] == b['w']


# ---------------------------------------------------------------------------------------------
# constructors, sampling, polar conversion

def gen_ctor(rng, big):
    fam = str(rng.choice(['uniform', 'focal', 'focal', 'pupil', 'pupil', 'sample', 'sample', 'polar', 'pshift', 'hex', 'focalfull']))
    maxn = 8 if not big else 24
    if fam == 'hex':
        c = None if rng.random() < 0.4 else [float(rng.choice([0.0, 0.5, -1.25, 3.0, 10.0])), float(rng.choice([0.0, 0.5, -1.25, 3.0]))]
        return {'family': fam, 'd': float(rng.choice([1.0, 0.5, 2.0, 0.125, 3.0, 1.5])), 'rings': int(rng.integers(0, 5 if not big else 9)),
                'pointy': bool(rng.random() < 0.5), 'center': c}
    if fam == 'focalfull':
        qs = [1.0, 2.0, 1.5, 3.0, 4.0, 2.5]
        nas = [1.0, 2.0, 3.0, 0.5, 1.5, 2.5, 4.0]
        q, na = float(rng.choice(qs)), float(rng.choice(nas))
        while 2 * na * q < 1:
            na *= 2
        def opt(vals, p):
            return float(rng.choice(vals)) if rng.random() < p else None
        path = str(rng.choice(['sr', 'fnum', 'pdfl', 'none', 'mixed', 'mixed']))
        kw = {'sr': None, 'fnum': None, 'pd': None, 'fl': None, 'wl': None}
        if path == 'sr':
            kw['sr'] = float(rng.choice([1.0, 0.5, 2.0, 0.015625]))
            kw['wl'] = opt([1.0, 0.5], 0.3)
        elif path == 'fnum':
            kw['fnum'], kw['wl'] = float(rng.choice([10.0, 2.5, 40.0])), opt([1.0, 0.5, 0.000001], 0.8)
        elif path == 'pdfl':
            kw['pd'], kw['fl'], kw['wl'] = float(rng.choice([1.0, 0.5, 8.0])), float(rng.choice([1.0, 10.0, 2.5])), opt([1.0, 0.5], 0.8)
        elif path == 'mixed':
            kw = {'sr': opt([1.0, 0.5], 0.2), 'fnum': opt([10.0, 2.5], 0.3), 'pd': opt([1.0, 0.5, 8.0], 0.5), 'fl': opt([1.0, 10.0], 0.5),
                  'wl': opt([1.0, 0.5], 0.5)}
        return dict({'family': fam, 'q': q, 'na': na}, **kw)
    if fam == 'uniform':
        ndim = int(rng.choice([1, 2, 2, 3]))
        return {'family': fam, 'dims': [int(rng.integers(1, maxn + 1)) for _ in range(ndim)],
                'extent': [G.dy(rng, 0, 8, 3) + 0.125 for _ in range(ndim)],
                'center': [float(rng.choice([0.0, 0.0, 0.5, -1.25, 3.0])) for _ in range(ndim)],
                'hc': bool(rng.random() < 0.5)}
    if fam == 'focal':
        qs = [1.0, 2.0, 1.5, 3.0, 4.0, 2.5, 0.5, 1.25, 8.0]
        nas = [1.0, 2.0, 3.0, 0.5, 1.5, 2.5, 4.0, 5.25, 0.75, 7.0]
        srs = [1.0, 1.0, 0.5, 2.0, 0.015625, 3.0]
        vec = rng.random() < 0.4
        def pick(vals):
            return [float(rng.choice(vals)), float(rng.choice(vals))] if vec else [float(rng.choice(vals))] * 2
        q, na = pick(qs), pick(nas)
        for k in range(2):
            while 2 * na[k] * q[k] < 1:
                na[k] *= 2
        return {'family': fam, 'q': q, 'na': na, 'sr': pick(srs), 'vec': bool(vec)}
    if fam == 'pupil':
        n0 = int(rng.choice([2, 4, 8, 16, 3, 5, 6, 7, 9, 12]))
        dims = [n0, n0] if rng.random() < 0.7 else [n0, int(rng.choice([2, 4, 8, 16, 5, 6]))]
        return {'family': fam, 'dims': dims, 'diameter': float(rng.choice([1.0, 2.0, 0.5, 6.5])),
                'q': float(rng.choice([1.0, 2.0, 1.5, 3.0, 4.0, 2.5])),
                'na': None if rng.random() < 0.3 else float(rng.choice([1.0, 2.0, 3.0, 1.5, 0.5, 2.5, 4.0])),
                'fl': float(rng.choice([1.0, 1.0, 2.0, 0.5]))}
    if fam == 'sample':
        spec = G.gen_spec(rng, maxn=maxn if not big else 12, kinds=('reg', 'reg', 'reg', 'reg', 'sep', 'uns'))
        ndim = spec_ndim(spec)
        k0 = int(rng.integers(1, 6))
        k = [k0] * ndim if rng.random() < 0.5 else [int(rng.integers(1, 6)) for _ in range(ndim)]
        return {'family': fam, 'spec': spec, 'k': k, 'scalar': bool(len(set(k)) == 1 and rng.random() < 0.5)}
    if fam == 'polar':
        spec = G.gen_spec(rng, maxn=6, polar_ok=False, ndim=2)
        return {'family': fam, 'spec': spec}
    spec = G.gen_spec(rng, maxn=5, polar_ok=False, ndim=2)
    spec['sys'] = 'p'
    if spec['kind'] == 'reg':
        spec['data'][0] = [abs(v) + 0.125 for v in spec['data'][0]]
        spec['data'][2][0] = abs(spec['data'][2][0]) + 0.25
    else:
        spec['data'][0] = [abs(v) + 0.25 for v in spec['data'][0]]
    return {'family': 'pshift', 'spec': spec, 'b': [float(rng.choice([0.0, 0.5, -1.0, 2.0])) for _ in range(2)]}


def has_origin(g):
    P = G.points(g)
    if P.shape[0] == 0:
        return False, float('inf')
    scale = max(1.0, float(np.max(np.abs(P))))
    d = float(np.min(np.max(np.abs(P), axis=1)))
    return d <= 1e-12 * scale, d


def polar_to_cart(P):
    return np.stack([P[:, 0] * np.cos(P[:, 1]), P[:, 0] * np.sin(P[:, 1])], axis=1)


def check_ctor(case):
    """Runs one constructor case on the real code.  Returns (violations, model lines, checker)
    where checker(answers) yields (stream, detail) disagreements."""
    import hcipy
    fam = case['family']
    bad = []
    lines = ['C11 reset']
    checks = []        # (line index, real grid) -> compare show

    def want_show(line, g):
        lines.append(line)
        lines.append('C11 show %d' % (sum(1 for c in checks)))
        checks.append((len(lines) - 1, g))

    with warnings.catch_warnings():
        warnings.simplefilter('ignore')
        if fam == 'uniform':
            dims, ext, cen, hc = case['dims'], case['extent'], case['center'], case['hc']
            g = hcipy.make_uniform_grid(dims, ext, cen, hc)
            P = G.points(g)
            for k in range(len(dims)):
                ax = np.unique(P[:, k])
                if not G.num_close(g.delta[k] * dims[k], ext[k], ext[k]):
                    bad.append(('uniform-extent', 'dims*delta differs from the requested extent'))
                if not hc and not G.num_close(ax.min() + ax.max(), 2 * cen[k], max(abs(cen[k]), ext[k])):
                    bad.append(('uniform-centre', 'uniform grid is not symmetric around its centre'))
                if hc and not np.any(np.abs(ax - cen[k]) <= 1e-12 * max(1.0, abs(cen[k]), ext[k])):
                    bad.append(('uniform-has-centre', 'has_center=True but the centre is not a grid point (dims %r)' % (dims,)))
            wl = G.weight_list(g)
            if not G.num_close(float(np.sum(wl)), float(np.prod(ext)), float(np.prod(ext))):
                bad.append(('regular-weights-sum', 'weights of a uniform grid do not sum to the covered area'))
            want_show('C11 uniform %s %s %s %d' % ('[' + ','.join(map(str, dims)) + ']', rat_list(ext), rat_list(cen), 1 if hc else 0), g)
        elif fam == 'focal':
            q, na, sr = case['q'], case['na'], case['sr']
            if case['vec']:
                g = hcipy.make_focal_grid(np.array(q), np.array(na), np.array(sr))
            else:
                g = hcipy.make_focal_grid(q[0], na[0], sr[0])
            ok, d = has_origin(g)
            if not ok:
                bad.append(('focal-origin make_focal_grid', 'make_focal_grid(q=%r, num_airy=%r) has no point at the origin (dims %r, nearest %.3g)' % (q, na, [int(v) for v in g.dims], d)))
            wl = G.weight_list(g)
            want = float(np.prod(g.dims * np.abs(g.delta)))
            if not G.num_close(float(np.sum(wl)), want, want):
                bad.append(('regular-weights-sum', 'weights of a focal grid do not sum to the covered area'))
            want_show('C11 focal %s %s %s' % (rat_list(q), rat_list(na), rat_list(sr)), g)
        elif fam == 'pupil':
            dims, diam, q, na, fl = case['dims'], case['diameter'], case['q'], case['na'], case['fl']
            pg = hcipy.make_pupil_grid(dims, diam)
            Pp = G.points(pg)
            if not close_arr(np.asarray(pg.delta, dtype=float) * np.asarray(dims, dtype=float), np.full(2, diam), diam) or \
                    not close_arr(Pp.min(axis=0) + Pp.max(axis=0), np.zeros(2), max(1.0, diam)):
                bad.append(('pupil-extent', 'make_pupil_grid(%r, %r) does not cover the diameter symmetrically about the origin on both axes' % (dims, diam)))
            g = hcipy.make_focal_grid_from_pupil_grid(pg, q, na, fl, 1)
            ok, d = has_origin(g) if g.size > 0 else (True, 0.0)
            if not ok:
                bad.append(('focal-origin from_pupil_grid', 'make_focal_grid_from_pupil_grid(dims=%r, q=%r, num_airy=%r) has no point at the origin (dims %r, nearest %.3g)' % (
                    dims, q, na, [int(v) for v in g.dims], d)))
            # model: uniform pupil grid, fft grid with the fov the code computes, then scaled
            if na is None:
                fov = [1.0, 1.0]
            else:
                fov = [float(v) for v in (na * np.ones(2, dtype='float')) / (pg.shape / 2)]
            exactq = [Fraction(q) * n for n in dims]
            qq = [Fraction(round_half_even(x), n) for x, n in zip(exactq, dims)]
            slack = [abs((Fraction(n) * Fraction(f) * qv) - round(Fraction(n) * Fraction(f) * qv)) for n, f, qv in zip(dims, fov, qq)]
            exact_fov = all(Fraction(f).denominator & (Fraction(f).denominator - 1) == 0 and Fraction(f).denominator <= 2 ** 20 for f in fov)
            lines.append('C11 pupil %s %s' % ('[' + ','.join(map(str, dims)) + ']', rat_list([diam, diam])))
            lines.append('C11 show 0')
            checks.append((len(lines) - 1, pg))
            lines.append('C11 fft 0 %s %s %s %s' % (rat(TWO_PI), rat_list([q, q]), rat_list(fov), rat_list([0.0, 0.0])))
            lines.append('C11 scaled 1 s:%s' % rat(fl * 1 / TWO_PI))
            lines.append('C11 show 2')
            if exact_fov or all(s > Fraction(1, 10 ** 6) for s in slack):
                checks.append((len(lines) - 1, g))
            else:
                checks.append((len(lines) - 1, None))
        elif fam == 'hex':
            d, n, pointy, cen = case['d'], case['rings'], case['pointy'], case['center']
            g = hcipy.make_hexagonal_grid(d, n, pointy, None if cen is None else np.array(cen))
            P = G.points(g)
            c0 = np.array(cen if cen is not None else [0.0, 0.0])
            pitch = d          # (the parameter called circum_diameter is the distance between neighbouring centres)
            if len(P) != 1 + 3 * n * (n + 1):
                bad.append(('hex-count', 'make_hexagonal_grid with %d rings has %d points, expected %d' % (n, len(P), 1 + 3 * n * (n + 1))))
            else:
                D2 = np.sqrt(((P[:, None, :] - P[None, :, :]) ** 2).sum(axis=2)) + np.eye(len(P)) * 1e9
                if n >= 1 and not np.all(np.abs(D2.min(axis=1) - pitch) <= 1e-9 * max(1.0, pitch)):
                    bad.append(('hex-pitch', 'hexagon centres are not %r apart from their nearest neighbours' % pitch))
                if n >= 1:
                    # flat top: neighbours along y at distance `pitch`; pointy top: along x
                    ax = 0 if pointy else 1
                    if not np.any(np.all(np.abs(P - (P[0] + np.eye(2)[ax] * pitch)) <= 1e-9 * max(1.0, float(np.max(np.abs(P)))), axis=1)):
                        bad.append(('hex-orientation', 'no neighbour of the central hexagon along the %s axis (pointy_top=%r)' % ('xy'[ax], pointy)))
                # the centre: as the code has it, a flat-topped grid (pointy_top=False) is centred on (cy, cx) — the centre is added
                # before the axes are exchanged.  Observed, outside the binding statement of C11 (proposed repair:
                # pending_fixes/D86-hexagonal-grid-center.diff); judged here only as "the grid is centred on the centre the code
                # documents up to that exchange", so that a regression of either orientation is still seen.
                cc = c0 if pointy else c0[::-1]
                if not close_arr(P.mean(axis=0), cc, max(1.0, float(np.max(np.abs(c0))))) or not close_arr(P[0], cc, max(1.0, float(np.max(np.abs(c0))))):
                    bad.append(('hex-centre', 'make_hexagonal_grid(%r, %d, pointy_top=%r, center=%r) is centred on %r' % (d, n, pointy, cen, P.mean(axis=0).tolist())))
            wl = G.weight_list(g)
            if wl is None or len(wl) != len(P) or not np.all(wl > 0) or not close_arr(wl, np.full(len(P), wl[0]), wl[0]):
                bad.append(('hex-weights', 'weights of a hexagonal grid are not one positive constant'))
            want_show('C11 hex %s %s %d %d %s %s' % (rat(float(np.sqrt(3))), rat(d), n, 1 if pointy else 0, rat(c0[0]), rat(c0[1])), g)
            lines.append('C11 hexqr %d' % n)
            checks.append((len(lines) - 1, ('hexqr', n, d, pointy, P - P[0][None, :])))   # relative to the central hexagon
        elif fam == 'focalfull':
            q, na = case['q'], case['na']
            kw = {}
            names = {'sr': 'spatial_resolution', 'fnum': 'f_number', 'pd': 'pupil_diameter', 'fl': 'focal_length', 'wl': 'reference_wavelength'}
            for k_, name in names.items():
                if case[k_] is not None:
                    kw[name] = case[k_]
            try:
                g = hcipy.make_focal_grid(q, na, **kw)
                st = 'ok'
            except Exception as e:  # noqa
                g, st = None, 'err ' + G.errkind(e)
            # the documented resolution, independently: given; else f_number * wavelength with f_number given or
            # focal_length / pupil_diameter; else 1 if nothing was given; an incomplete set raises ValueError
            if case['sr'] is not None:
                want = case['sr']
            else:
                fn = case['fnum'] if case['fnum'] is not None else (case['fl'] / case['pd'] if case['pd'] is not None and case['fl'] is not None else None)
                want = (1.0 if case['wl'] is None else 'err') if fn is None else ('err' if case['wl'] is None else fn * case['wl'])
            if want == 'err' and g is not None:
                bad.append(('focal-resolution incomplete', 'make_focal_grid(%r) accepted an incomplete set of arguments' % (kw,)))
            elif want != 'err' and g is None:
                bad.append(('focal-resolution raises', 'make_focal_grid(%r) raised %s' % (kw, st[4:])))
            elif g is not None and not close_arr(np.asarray(g.delta, dtype=float), np.full(2, want / q), max(1.0, want / q)):
                bad.append(('focal-resolution', 'make_focal_grid(q=%r, %r) has sample pitch %r, documented resolution/q = %r' % (q, kw, [float(v) for v in g.delta], want / q)))
            lines.append('C11 focalfull %s %s %s' % (rat_list([q, q]), rat_list([na, na]), ' '.join('-' if case[k_] is None else rat(case[k_]) for k_ in ('sr', 'fnum', 'pd', 'fl', 'wl'))))
            checks.append((len(lines) - 1, ('status', st)))
            if g is not None:
                ok, dd = has_origin(g)
                if not ok:
                    bad.append(('focal-origin make_focal_grid', 'make_focal_grid(q=%r, num_airy=%r, %r) has no point at the origin (nearest %.3g)' % (q, na, kw, dd)))
                lines.append('C11 show 0')
                checks.append((len(lines) - 1, g))
        elif fam == 'sample':
            spec, k = case['spec'], case['k']
            g = G.build(spec)
            karg = k[0] if case['scalar'] else np.array(k)
            lines.append(G.new_line('C11', spec))
            try:
                sup = hcipy.make_supersampled_grid(g, karg)
                st = 'ok'
            except Exception as e:  # noqa
                sup, st = None, 'err ' + G.errkind(e)
            lines.append('C11 super 0 %s' % ('[' + ','.join(map(str, k)) + ']'))
            checks.append((len(lines) - 1, ('status', st)))
            if sup is not None:
                lines.append('C11 show 1')
                checks.append((len(lines) - 1, sup))
                back = hcipy.make_subsampled_grid(sup, karg)
                lines.append('C11 sub 1 %s' % ('[' + ','.join(map(str, k)) + ']'))
                lines.append('C11 show 2')
                checks.append((len(lines) - 1, back))
                s0, s1 = G.snap(g), G.snap(back)
                if s0['sys'] != s1['sys'] or s1['kind'] != 'reg' or s0['data'][1] != s1['data'][1] or \
                        not G.lists_close(s1['data'][0], s0['data'][0]) or not G.lists_close(s1['data'][2], s0['data'][2], max([abs(v) for v in s0['data'][0] + s0['data'][2]] + [1.0])):
                    bad.append(('sub-super-roundtrip', 'subsample(supersample(g, %r), %r) is not g' % (k, k)))
                # every original sample is the mean of its k sub-samples, along every axis
                for a, (ax0, ax1) in enumerate(zip(g.separated_coords, sup.separated_coords)):
                    m = np.asarray(ax1).reshape(len(ax0), k[a]).mean(axis=1) if len(ax0) else np.zeros(0)
                    if not close_arr(m, ax0, max(1.0, float(np.max(np.abs(ax0))) if len(ax0) else 1.0)):
                        bad.append(('supersample-cells', 'supersampled points are not centred in the original cells (axis %d, factor %d)' % (a, k[a])))
                if spec['sys'] == 'c':
                    w0 = G.weight_list(hcipy.CartesianGrid(g.coords.copy()))
                    w1 = G.weight_list(sup)
                    if not G.num_close(float(np.sum(w0)), float(np.sum(w1)), float(np.sum(w0))):
                        bad.append(('supersample-area', 'supersampling changed the covered area'))
            else:
                try:
                    hcipy.make_subsampled_grid(g, karg)
                    st2 = 'ok'
                except Exception as e:  # noqa
                    st2 = 'err ' + G.errkind(e)
                lines.append('C11 sub 0 %s' % ('[' + ','.join(map(str, k)) + ']'))
                checks.append((len(lines) - 1, ('status', st2)))
        elif fam == 'polar':
            g = G.build(case['spec'])
            P = G.points(g)
            pol = g.as_('polar')
            back = pol.as_('cartesian')
            if not close_arr(G.points(back), P):
                bad.append(('polar-roundtrip %s' % case['spec']['kind'], "as_('polar').as_('cartesian') does not return the same points"))
            Pp = G.points(pol)
            if pol.size and (np.any(Pp[:, 0] < 0) or not close_arr(Pp[:, 0], np.hypot(P[:, 0], P[:, 1]))):
                bad.append(('polar-radius', 'polar radius is not the distance to the origin'))
            if g.as_('cartesian') is not g:
                bad.append(('as-same-system', "as_() to the grid's own system must return the grid"))
        elif fam == 'pshift':
            g = G.build(case['spec'])
            b = np.array(case['b'])
            C = polar_to_cart(G.points(g))
            sh = g.shifted(b)
            if sh._coordinate_system != 'cartesian' or not close_arr(G.points(sh), C + b[None, :], max(1.0, float(np.max(np.abs(C))) if C.size else 1.0)):
                bad.append(('points shift polar', 'PolarGrid.shifted does not move the physical points by the shift'))
            sh2 = g.shifted(b)
            if sh2 is sh or not close_arr(G.points(sh2), C + b[None, :], max(1.0, float(np.max(np.abs(C))) if C.size else 1.0)):
                bad.append(('points shift polar', 'a second PolarGrid.shifted() with the same shift gives a different result (or the same object)'))
            if not close_arr(G.points(sh), C + b[None, :], max(1.0, float(np.max(np.abs(C))) if C.size else 1.0)):
                bad.append(('alias pshift', 'the result of an earlier PolarGrid.shifted() changed'))
            h = g.copy()
            h.shift(b)
            if h._coordinate_system != 'polar' or not close_arr(polar_to_cart(G.points(h)), C + b[None, :], max(1.0, float(np.max(np.abs(C))) if C.size else 1.0)):
                bad.append(('points shift polar', 'PolarGrid.shift does not move the physical points by the shift'))
            if G.ident(G.snap(g)) != G.ident(G.snap(G.build(case['spec']))):
                bad.append(('alias shifted', 'PolarGrid.shifted changed the original'))
        else:
            raise MachineryError(fam)
    return bad, lines, checks


def round_half_even(x):
    f = math.floor(x)
    r = x - f
    if r < Fraction(1, 2):
        return f
    if r > Fraction(1, 2):
        return f + 1
    return f if f % 2 == 0 else f + 1


# ---------------------------------------------------------------------------------------------

def S(sysm, kind, data, w=None):
    return {'sys': sysm, 'kind': kind, 'data': data, 'w': w, 'int': False}


def SH(sysm, kind, data, w=None):
    d = S(sysm, kind, data, w)
    d['shared'] = True
    return d


R345 = {'c': '3/5', 's': '4/5'}
AX = [0.0, 1.0, 3.0]
V10 = ['v', [1.0, 0.0], 'float64']
DIRECTED = [
    # conversion histories: as_() interleaved with in-place and copying ops; every conversion must reflect the current value
    {'family': 'history', 'ops': [['new', S('c', 'reg', [[0.5, 0.5], [3, 2], [0.5, -0.25]])], ['as', 0], ['reverse', 0], ['as', 0], ['reversed', 0], ['as', 3],
                                  ['shift', 0, V10], ['as', 0], ['scale', 1, ['s', 2.0, 'pyfloat']], ['as', 0]]},
    {'family': 'history', 'ops': [['new', S('p', 'sep', [[1.0, 2.0], [0.0, 1.0, 2.0]])], ['pshifted', 0, V10], ['pshifted', 0, V10], ['as', 0], ['reverse', 0], ['as', 0],
                                  ['pshift', 0, V10], ['as', 0], ['reversed', 0], ['as', 6]]},
    {'family': 'history', 'ops': [['new', S('c', 'uns', [[1.0, 0.0, -2.0], [0.0, 3.0, 1.0]], [1.0, 2.0, 3.0])], ['as', 0], ['as', 1], ['reverse', 1], ['as', 1], ['copy', 1], ['as', 4],
                                  ['scale', 0, ['s', 2.0, '0d']], ['as', 0]]},
    # polar shift on points whose shifted image has a rational radius (the composed exact model is defined there)
    {'family': 'history', 'ops': [['new', S('p', 'sep', [[3.0, 6.0, 0.0], [0.0]])], ['pshifted', 0, ['v', [0.0, 4.0], 'float64']], ['pshift', 0, ['v', [0.0, 4.0], 'float64']],
                                  ['pshift', 0, ['v', [0.0, 0.0], 'float64']]]},
    {'family': 'history', 'ops': [['new', S('p', 'uns', [[5.0, 1.0, 2.5], [0.0, 0.0, 0.0]])], ['pshift', 0, ['v', [-2.0, 4.0], 'list']], ['pshifted', 0, ['v', [0.0, 0.0], 'tuple']]]},
    # dtype / container of every argument
    {'family': 'history', 'ops': [['new', dict(S('c', 'reg', [[0.5, 0.5], [3, 2], [1.0, 1.0]]), forms={'dims': 'uint8', 'coord': '0d', 'outer': 'list'})],
                                  ['scaled', 0, ['s', 2.0, '0d']], ['scaled', 0, ['s', 2.0, 'len1']], ['scale', 0, ['s', 2.0, 'list1']], ['shift', 0, ['s', 1.0, '0d']],
                                  ['shifted', 0, ['v', [1.0, 2.0], 'tuple']], ['scaled', 0, ['v', [2.0, -3.0], 'list']]]},
    {'family': 'history', 'ops': [['new', dict(S('c', 'sep', [[0.0, 1.0, 3.0], [0.0, 2.0]]), forms={'coord': 'list', 'outer': 'tuple'})], ['mat', 0],
                                  ['scaled', 0, ['s', 2.0, '0d']], ['scale', 0, ['s', 2.0, 'len1']], ['shift', 0, ['s', 1.0, 'len1']], ['reversed', 0], ['scaled', 0, ['v', [2.0, 3.0], 'tuple']]]},
    {'family': 'history', 'ops': [['new', dict(S('c', 'uns', [[0.0, 1.0, 3.0], [0.0, 2.0, 5.0]], [1.0, 2.0, 3.0]), forms={'coord': 'float32', 'outer': 'list', 'w': 'float32'})],
                                  ['scaled', 0, ['s', 2.0, '0dint']], ['scale', 0, ['s', 0.5, 'npfloat32']], ['shift', 0, ['v', [1.0, 0.5], 'float32']], ['reverse', 0]]},
    {'family': 'history', 'ops': [['new', dict(S('p', 'sep', [[1.0, 2.0], [0.0, 1.0, 2.0]]), forms={'coord': 'tuple', 'outer': 'list'})],
                                  ['scaled', 0, ['s', 2.0, 'len1']], ['scale', 0, ['s', 2.0, '0d']], ['scale', 0, ['s', 2.0, 'pyint']]]},
    # aliased constructor inputs: one array for both axes / for delta and zero / for weights and a column / for two grids
    {'family': 'history', 'ops': [['new', SH('c', 'sep', [AX, AX])], ['scaled', 0, ['s', 2.0]], ['copy', 0], ['scale', 2, ['v', [2.0, 0.5]]], ['shift', 0, ['v', [1.0, 0.0]]],
                                  ['scale', 0, ['s', -2.0]], ['reverse', 0], ['rotated', 0, R345]]},
    {'family': 'history', 'ops': [['new', SH('c', 'sep', [AX, AX])], ['new', SH('c', 'sep', [AX, AX])], ['mat', 0], ['shift', 0, ['s', 1.0]], ['scale', 1, ['s', 2.0]], ['reversed', 1]]},
    {'family': 'history', 'ops': [['new', SH('c', 'uns', [AX, AX, AX], AX)], ['scaled', 0, ['s', 2.0]], ['shift', 0, ['v', [1.0, 0.0, 0.5]]], ['scale', 0, ['v', [2.0, 1.0, -1.0]]], ['reverse', 0]]},
    {'family': 'history', 'ops': [['new', SH('c', 'reg', [[0.5, 0.5], [3, 2], [0.5, 0.5]])], ['new', SH('c', 'reg', [[0.5, 0.5], [3, 2], [0.5, 0.5]])], ['scale', 0, ['s', 2.0]],
                                  ['shift', 0, ['v', [1.0, 1.0]]], ['scaled', 1, ['v', [2.0, -1.0]]], ['reverse', 1]]},
    {'family': 'history', 'ops': [['new', SH('p', 'uns', [[1.0, 2.0, 3.0], [0.5, 1.0, 2.0]], [1.0, 2.0, 3.0])], ['new', SH('p', 'uns', [[1.0, 2.0, 3.0], [0.5, 1.0, 2.0]], [1.0, 2.0, 3.0])],
                                  ['scale', 0, ['s', 2.0]], ['protate', 1, R345], ['reverse', 0]]},
    # D20: polar rotate
    {'family': 'history', 'ops': [['new', S('p', 'sep', [[1.0, 2.0], [0.0, 1.0, 2.0]])], ['protated', 0, R345], ['protate', 0, R345]]},
    {'family': 'history', 'ops': [['new', S('p', 'reg', [[0.5, 0.25], [3, 4], [1.0, -1.0]])], ['protate', 0, {'c': '0', 's': '1'}], ['scaled', 0, ['s', 2.0]]]},
    # D21: reversed regular / separated grids, cached and uncached weights
    {'family': 'history', 'ops': [['new', S('c', 'reg', [[0.5], [4], [0.0]])], ['reversed', 0], ['mat', 0], ['reversed', 0], ['reverse', 0]]},
    {'family': 'history', 'ops': [['new', S('c', 'reg', [[0.5, 1.0, 2.0], [2, 3, 2], [0.0, 0.0, 1.0]])], ['reversed', 0], ['scaled', 1, ['s', -1.0]]]},
    {'family': 'history', 'ops': [['new', S('c', 'sep', [[0.0, 1.0, 3.0]])], ['reversed', 0], ['mat', 0], ['reversed', 0], ['reverse', 0]]},
    {'family': 'history', 'ops': [['new', S('c', 'sep', [[0.0, 1.0, 3.0], [0.0, 2.0, 3.0, 7.0]])], ['mat', 0], ['reverse', 0], ['scale', 0, ['v', [-1.0, 2.0]]]]},
    {'family': 'history', 'ops': [['new', S('c', 'reg', [[-0.5, 1.0], [3, 2], [1.0, 0.0]])], ['scaled', 0, ['v', [2.0, -3.0]]], ['shifted', 0, ['s', 1.0]]]},
    # D27: scalar shift on every kind
    {'family': 'history', 'ops': [['new', S('c', 'sep', [[0.0, 1.0, 3.0], [0.0, 1.0]])], ['shifted', 0, ['s', 1.0]], ['shift', 0, ['s', -0.5]]]},
    {'family': 'history', 'ops': [['new', S('c', 'uns', [[0.0, 1.0, 3.0], [0.0, 1.0, 5.0]], [1.0, 2.0, 3.0])], ['shifted', 0, ['s', 1.0]], ['reversed', 0], ['scaled', 0, ['v', [2.0, -0.5]]]]},
    # rotations
    {'family': 'history', 'ops': [['new', S('c', 'reg', [[0.5, 0.25], [3, 2], [-0.5, 0.0]])], ['rotated', 0, R345], ['rotate', 0, {'c': '-4/5', 's': '3/5'}], ['mat', 0]]},
    {'family': 'history', 'ops': [['new', S('c', 'sep', [[0.0, 1.0], [0.0, 2.0], [1.0, 3.0]])], ['rotated', 0, {'c': '3/5', 's': '4/5', 'axis': ['2/3', '2/3', '1/3']}],
                                  ['rotate', 0, {'c': '0', 's': '1', 'axis': ['0', '0', '1']}]]},
    {'family': 'history', 'ops': [['new', S('c', 'reg', [[0.5], [3], [0.0]])], ['rotate', 0, R345]]},
    # constructors
    {'family': 'focal', 'q': [2.0, 2.0], 'na': [3.0, 3.0], 'sr': [1.0, 1.0], 'vec': False},
    {'family': 'focal', 'q': [1.5, 3.0], 'na': [3.0, 2.5], 'sr': [1.0, 0.5], 'vec': True},
    {'family': 'focal', 'q': [1.0, 1.0], 'na': [0.5, 0.5], 'sr': [1.0, 1.0], 'vec': False},
    {'family': 'pupil', 'dims': [8, 8], 'diameter': 1.0, 'q': 2.0, 'na': 3.0, 'fl': 1.0},
    {'family': 'pupil', 'dims': [8, 4], 'diameter': 1.0, 'q': 1.5, 'na': 2.0, 'fl': 2.0},
    {'family': 'pupil', 'dims': [5, 5], 'diameter': 2.0, 'q': 3.0, 'na': None, 'fl': 1.0},
    {'family': 'hex', 'd': 1.0, 'rings': 2, 'pointy': False, 'center': None},
    {'family': 'hex', 'd': 0.5, 'rings': 1, 'pointy': True, 'center': [3.0, -1.25]},
    {'family': 'hex', 'd': 2.0, 'rings': 0, 'pointy': False, 'center': [0.5, 0.5]},
    {'family': 'focalfull', 'q': 2.0, 'na': 3.0, 'sr': None, 'fnum': 10.0, 'pd': None, 'fl': None, 'wl': 0.5},
    {'family': 'focalfull', 'q': 2.0, 'na': 3.0, 'sr': None, 'fnum': None, 'pd': 0.5, 'fl': 10.0, 'wl': 1.0},
    {'family': 'focalfull', 'q': 2.0, 'na': 3.0, 'sr': None, 'fnum': None, 'pd': None, 'fl': None, 'wl': None},
    {'family': 'focalfull', 'q': 2.0, 'na': 3.0, 'sr': None, 'fnum': None, 'pd': None, 'fl': None, 'wl': 1.0},
    {'family': 'focalfull', 'q': 2.0, 'na': 3.0, 'sr': None, 'fnum': 10.0, 'pd': None, 'fl': None, 'wl': None},
    {'family': 'uniform', 'dims': [4, 5], 'extent': [1.0, 2.5], 'center': [0.0, 0.5], 'hc': True},
    {'family': 'uniform', 'dims': [3], 'extent': [1.5], 'center': [-1.25], 'hc': False},
    {'family': 'sample', 'spec': S('c', 'reg', [[0.5, 1.0], [3, 2], [0.25, -0.5]]), 'k': [2, 2], 'scalar': True},
    {'family': 'sample', 'spec': S('c', 'reg', [[-0.5, 1.0], [3, 4], [0.25, -0.5]]), 'k': [3, 2], 'scalar': False},
    {'family': 'sample', 'spec': S('c', 'sep', [[0.0, 1.0], [0.0, 2.0]]), 'k': [2, 2], 'scalar': True},
    {'family': 'polar', 'spec': S('c', 'reg', [[0.5, 0.5], [4, 4], [-0.75, -0.75]])},
    {'family': 'polar', 'spec': S('c', 'uns', [[0.0, -1.0, 0.0, 3.0], [0.0, 0.0, -2.0, -4.0]])},
    {'family': 'pshift', 'spec': S('p', 'sep', [[1.0, 2.0], [0.0, 1.0, 2.0]]), 'b': [0.5, -1.0]},
]


IMAGE_OF = {'scale': 'scale', 'scaled': 'scale', 'shift': 'shift', 'shifted': 'shift', 'reverse': 'reverse', 'reversed': 'reverse',
            'rotate': 'rotate', 'rotated': 'rotate'}


def dis(ctx, stream, detail, key=None):
    ctx.count('disagree:' + stream)
    ctx.disagree(stream, detail, key)


def run(ctx):
    ctx.rule = ('(a) transformation histories over a store of live grids: a base grid (Cartesian 1-3 D or polar; regular / separated '
                'incl. ragged, descending, unsorted / unstructured; stored weights none, scalar or per point; in 40 % of the histories '
                'built from caller-owned arrays in which equal arrays are ONE object — same array for several axes, for delta and '
                'zero, for weights and a column — and often a second grid from the very same arrays; in half of the others every '
                'constructor argument in a random dtype / container, see C10), then 2-9 of copy, '
                'materialise-weights, scale(d) by scalars or per-axis vectors of either sign, shift(ed) by scalar or vector, '
                'reverse(d), rotate(d) by Pythagorean angles (2-D; 3-D about rational unit axes), polar rotate, as_(other system) of any '
                'live 2-D grid (the result becomes a live grid itself: later ops on it, later conversions of its source), polar '
                'shift/shifted; scalar arguments as Python/NumPy scalars, 0-d, one-element arrays; after EVERY op all '
                'live grids are re-read (representation, stored weights, weights getter on a deep copy, points). Oracle: new points '
                'are the affine images of the old points; weights scale by |J|, are kept by shift, travel with the points on reverse '
                '— whether or not they had been cached; every conversion equals the pointwise conversion of the CURRENT points; '
                'other grids (earlier conversion results included) and the caller\'s arrays untouched. (b) constructors: make_uniform_grid, make_focal_grid, '
                'make_focal_grid_from_pupil_grid (origin present; weights sum), supersample/subsample round trip and cell centring, '
                'Cartesian->polar->Cartesian, polar shift, make_hexagonal_grid (count, pitch, orientation, centre, weights), make_focal_grid '
                'with every combination of its optional arguments (documented resolution, refused sets), make_pupil_grid. (c) 18 % of the '
                'histories are identity-argument histories: scale by 1 / shift by 0 / whole turns / resampling by 1 / as_(own system) / '
                'reversed twice in every spelling, each followed by in-place edits of the result or the original; a non-mutating form '
                'must never return an existing object. Every polar shift is also run through the composed model (pshifted/pshift). '
                'Model: `show`/`points` compared after every op. Non-trivial = at least '
                'one transformation applied or a constructor clause evaluated; distinct by (family, op sequence with argument '
                'classes, kind, ndim) or constructor parameters.')
    ctx.assumptions += ['coordinates are finite floats; inputs dyadic so that most arithmetic is exact, outputs compared at 1e-9 relative',
                        'rotation angles are atan2 of Pythagorean pairs; cos/sin of them agree with the pair to 1 ulp',
                        'automatic weights of a separated axis with fewer than two points are undefined (IndexError) — outside the quantifier',
                        'weights under rotation are not part of the statement (rotated() drops them, rotate() keeps the cached value): recorded, not judged',
                        'make_fft_grid float truncation is taken as given when the exact value is within 1e-6 of an integer and fov is inexact (boundary_skipped)']
    n_hist = ctx.scale(1800, 7500)
    n_ctor = ctx.scale(1000, 5000)
    cases = list(DIRECTED)
    for k in range(n_hist):
        cases.append(gen_history(ctx.rng, big=(ctx.tier == 'thorough' and k % 4 == 0)))
    for k in range(n_ctor):
        cases.append(gen_ctor(ctx.rng, big=(ctx.tier == 'thorough' and k % 4 == 0)))
    all_lines = []
    plan = []
    ref_plans = []
    for case in cases:
        fam = case['family']
        ctx.count('family:' + fam)
        if fam == 'history':
            steps = run_history(case)
            bad = oracle_history(steps)
            for key, what in bad:
                ctx.violation(key, what, case)
            lines = ['C11 reset']
            marks = []
            raw = model_history_lines(case)
            for st, ml in zip(steps, raw):
                op = st['op']
                ctx.count('op:' + op[0] + G_arg(op))
                if st['status'] != 'ok':
                    ctx.count('status:%s:%s' % (op[0], st['status']))
                if ml is None:
                    nd = st['before'][op[1]]['points'].shape[1]
                    b = [op[2][1]] * nd if op[2][0] == 's' else op[2][1]
                    ml = 'C11 %s %d %s' % (op[0], op[1], rat_list(b))
                conv = None
                psh = None
                if ml == 'IMPL':
                    if op[0] == 'as' and st['status'] == 'ok':
                        cq = conv_query(st)
                        if cq is not None:
                            conv = len(lines)
                            lines.append(cq)
                    if op[0] in ('pshifted', 'pshift') and st['status'] == 'ok':
                        pq = pshift_queries(st)
                        if pq:
                            psh = (len(lines), len(pq))
                            lines += pq
                    ml = impl_line(st)
                img = None
                if op[0] in IMAGE_OF and st['status'] == 'ok' and isinstance(ml, str):
                    # the right-hand side of the `points_*` theorem for this op, from the value BEFORE it
                    t = ml.split(' ')
                    img = len(lines)
                    lines.append(' '.join(['C11', 'image', t[2], IMAGE_OF[op[0]]] + t[3:]))
                if isinstance(ml, list):
                    lines += ml
                else:
                    lines.append(ml)
                m = {'op': len(lines) - 1, 'impl': op[0] in FROM_IMPL, 'conv': conv, 'img': img, 'psh': psh}
                nlive = len(st['after'])
                m['show'] = len(lines)
                lines += ['C11 show %d' % k for k in range(nlive)]
                m['points'] = len(lines)
                lines += ['C11 points %d' % k for k in range(nlive)]
                m['n'] = nlive
                marks.append(m)
            base_spec = case['ops'][0][1]
            if base_spec.get('shared'):
                ctx.count('histories-with-caller-arrays')
                if len(case['ops']) > 1 and case['ops'][1][0] == 'new':
                    ctx.count('two-grids-from-the-same-arrays')
                if aliased(base_spec):
                    ctx.count('aliased-constructor-inputs')
            if case.get('pyth'):
                ctx.count('histories-pythagorean')
            if case.get('identity'):
                ctx.count('histories-identity-arguments')
                for o in case['ops'][1:len(steps)]:
                    if o[0] in NONMUT or o[0] == 'assame':
                        ctx.count('identity:' + o[0] + (':' + str(o[2][2] if len(o[2]) > 2 else '') if len(o) > 2 and isinstance(o[2], list) and o[2] and o[2][0] in ('s', 'v') else
                                                  ':' + str(o[3]) if len(o) > 3 else ':turns=%d' % o[2].get('turns', 0) if len(o) > 2 and isinstance(o[2], dict) else ''))
            ctx.count('grid:%s-%s-%dD' % (base_spec['sys'], base_spec['kind'], spec_ndim(base_spec)))
            ctx.count('weights:' + ('none' if base_spec['w'] is None else 'array' if isinstance(base_spec['w'], list) else 'scalar'))
            sig = ('history', tuple(o[0] + G_arg(o) for o in case['ops']), base_spec['sys'], base_spec['kind'], spec_ndim(base_spec))
            ctx.case(case if len(ctx.samples) < 3 else None, nontrivial_key=sig if len(steps) > 1 else None)
            plan.append(('history', case, steps, len(all_lines), marks))
            all_lines += lines
            rlines, rchecks = ref_plan(steps)
            ref_plans.append((case, len(all_lines), rchecks))
            all_lines += rlines
        else:
            bad, lines, checks = check_ctor(case)
            for key, what in bad:
                ctx.violation(key, what, case)
            sig = (fam, G_json(case))
            ctx.case(case if len(ctx.samples) < 6 and fam in ('focal', 'pupil', 'sample') else None, nontrivial_key=sig)
            ctx.count('ctor:' + fam)
            plan.append(('ctor', case, checks, len(all_lines), None))
            all_lines += lines
    out = ctx.model(all_lines)
    for case, rbase, rchecks in ref_plans:
        for shared_at, real_shared, vals, op, how in rchecks:
            ctx.traces_validated += 1
            ctx.count('ref:' + how)
            ans = out[rbase + shared_at]
            if ans != 'ok %d' % real_shared:
                dis(ctx, 'C11 ref shared', {'case': case, 'after': op, 'impl-shared-array-pairs': real_shared, 'model': ans})
                break
            bad = None
            for at, real in vals:
                ma = parse_rat_lists(out[rbase + at].split(' ', 1)[1]) if out[rbase + at].startswith('ok ') else None
                if ma is None or len(ma) != len(real) or not all(G.lists_close(a, b) for a, b in zip(ma, real)):
                    bad = {'case': case, 'after': op, 'impl': [r[:8] for r in real], 'model': out[rbase + at][:200]}
                    break
            if bad is not None:
                dis(ctx, 'C11 ref values', bad)
                break
    for kind, case, data, base_i, marks in plan:
        if kind == 'history':
            for st, m in zip(data, marks):
                ans = out[base_i + m['op']]
                mstatus = 'ok' if ans.startswith('ok') else 'err:' + (ans.split(' ') + ['refused'])[1]
                ctx.traces_validated += 1
                if m.get('impl') and st['status'] != 'ok':
                    break
                if m.get('conv') is not None:
                    d, (nex, nskip) = compare_conv(out[base_i + m['conv']], st)
                    ctx.count('as-model:points-compared', nex)
                    ctx.count('as-model:points-irrational-radius', nskip)
                    ctx.count('as-model:' + ('c->p' if st['before'][st['op'][1]]['sys'] == 'c' else 'p->c'))
                    ctx.traces_validated += 1
                    if d is not None:
                        dis(ctx, 'C11 as_ model', {'case': case, 'op': st['op'], 'diff': d, 'model': out[base_i + m['conv']][:300]})
                        break
                if m.get('psh') is not None:
                    at, cnt = m['psh']
                    d, (nex, nskip) = compare_pshift(out[base_i + at: base_i + at + cnt], st)
                    ctx.count('pshift-model:' + st['op'][0])
                    ctx.count('pshift-model:polar-points-compared', nex)
                    ctx.count('pshift-model:polar-points-irrational-radius', nskip)
                    ctx.traces_validated += 1
                    if d is not None:
                        dis(ctx, 'C11 pshift model', {'case': case, 'op': st['op'], 'diff': d})
                        break
                if m.get('img') is not None:
                    op = st['op']
                    real = st['after'][-1 if op[0] in NONMUT else op[1]]['points']
                    ia = out[base_i + m['img']]
                    mp = parse_rat_lists(ia.split(' ', 1)[1]) if ia.startswith('ok ') else None
                    ctx.traces_validated += 1
                    ctx.count('image:' + IMAGE_OF[op[0]])
                    if mp is None or len(mp) != len(real) or not close_arr(
                            np.array([[float(x) for x in p] for p in mp], dtype=float).reshape(len(mp), real.shape[1]), real):
                        dis(ctx, 'C11 image', {'case': case, 'op': op, 'model': ia[:300], 'impl': real.tolist()[:6]})
                        break
                if mstatus != st['status']:
                    dis(ctx, 'C11 op status', {'case': case, 'op': st['op'], 'impl': st['status'], 'model': ans})
                    break
                stop = False
                for k in range(m['n']):
                    real = st['after'][k]
                    ms = G.parse_show(out[base_i + m['show'] + k])
                    d = G.compare_show(ms, real, real['getw'])
                    if d is None:
                        mp = parse_rat_lists(out[base_i + m['points'] + k].split(' ', 1)[1])
                        mp = np.array([[float(x) for x in p] for p in mp], dtype=float).reshape(len(mp), real['points'].shape[1])
                        if not close_arr(mp, real['points']):
                            d = 'points differ'
                    if d is not None:
                        dis(ctx, 'C11 show', {'case': case, 'after': st['op'], 'grid': k, 'diff': d})
                        stop = True
                        break
                if stop:
                    break
        else:
            for idx, g in data:
                ans = out[base_i + idx]
                ctx.traces_validated += 1
                if g is None:
                    ctx.boundary_skipped += 1
                    continue
                if isinstance(g, tuple) and g[0] == 'hexqr':
                    # the axial coordinates the model enumerates, against the positions the code produced (centre removed)
                    _, n_, d_, pointy_, rel = g
                    try:
                        qr = [tuple(int(v) for v in t.split(',')) for t in ans.split(' ', 1)[1].split(';')]
                    except Exception:  # noqa
                        qr = None
                    ctx.count('hex:rings=%d' % n_)
                    if qr is None or len(qr) != len(rel):
                        dis(ctx, 'C11 hexqr', {'case': case, 'model': ans[:200]})
                    else:
                        xy = np.array([[(-q_ + r_) * d_ / 2, (q_ + r_) * d_ * np.sqrt(3) / 4 * 2] for q_, r_ in qr])
                        if not pointy_:
                            xy = xy[:, ::-1]
                        if not close_arr(xy, rel, max(1.0, float(np.max(np.abs(rel))) if rel.size else 1.0)):
                            dis(ctx, 'C11 hexqr', {'case': case, 'model': ans[:200], 'impl': rel.tolist()[:7]})
                    continue
                if isinstance(g, tuple):
                    if ans.split(' ')[0:2] != g[1].split(' ')[0:2] and not (ans.startswith('ok') and g[1] == 'ok'):
                        dis(ctx, 'C11 ctor status', {'case': case, 'impl': g[1], 'model': ans})
                    continue
                ms = G.parse_show(ans)
                d = G.compare_show(ms, G.snap(g), G.get_weights(g))
                if d is not None:
                    dis(ctx, 'C11 ctor', {'case': case, 'diff': d, 'model': ans[:300]})


def G_arg(op):
    if is_sv(op):
        return ':' + op[2][0]
    if len(op) > 2 and isinstance(op[2], dict):
        return ':3d' if 'axis' in op[2] else ':2d'
    return ''


def G_json(case):
    import json
    return json.dumps(case, sort_keys=True)


def replay(ctx, case):
    if case['family'] == 'history':
        bad = oracle_history(run_history(case))
    else:
        bad = check_ctor(case)[0]
    for key, what in bad:
        print('  fails:', key, '-', what)
    return not bad
