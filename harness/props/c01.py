"""C01 — every Fourier transform evaluates the same weighted Fourier sum.

* real-code driver: FastFourierTransform (both emulate_fftshifts settings), MatrixFourierTransform
  (precompute/allocate switches), NaiveFourierTransform (precompute on/off), ZoomFastFourierTransform and
  make_fourier_transform's choice, built in-process on generated grid pairs;
* property oracle: forward/backward of every applicable implementation against the defining sum
  evaluated here in numpy longdouble (independent of the Lean model and of hcipy's kernels);
* correspondence: sizes / cut-outs / output grid / weights reported by FastFourierTransform against the
  model's `plan`, the grid-consistency predicate on the reported sizes, and the modelled pipeline on
  impulses (exact phases in turns) against the real forward/backward; the class make_fourier_transform
  returns against the model's decision function (`select`, both outcomes of the planner's float
  comparison where it is consulted) and get_fft_parameters per axis against the exact model (`fftparams`).
"""
import numpy as np
from harness.common import rat, rat_list, Fraction, MachineryError

LD = np.longdouble
CLD = np.clongdouble
PI_LD = LD(4) * np.arctan(LD(1))
TWO_PI_LD = 2 * PI_LD
DIM_POOL = [1, 2, 3, 4, 5, 7, 8, 9, 16, 17, 31, 64, 87, 101]


def tol_for(dtype):
    return 2e-4 if str(dtype) == 'complex64' else 1e-9


# ---------------------------------------------------------------------------------------------
# generation

def tensor_shape_of(r):
    """tensor shape of the field from one uniform draw: scalar, the Jones shapes (2,), (2,2), and other orders/extents
    (odd extents, extent 1, non-square, order 3) — the decorator multiplex_for_tensor_fields and the ZoomFFT accept any"""
    for bound, shape in ((0.55, []), (0.73, [2]), (0.85, [2, 2]), (0.88, [3]), (0.90, [1]), (0.93, [2, 3]), (0.95, [3, 1]), (0.975, [2, 1, 2])):
        if r < bound:
            return list(shape)
    return [1, 3, 2]


def _dy(rng, lo, hi, bits):
    n = int(rng.integers(int(round(lo * (1 << bits))), int(round(hi * (1 << bits))) + 1))
    return n / float(1 << bits)


def d4_family(N, M):
    """(N, M) on which the unrepaired make_fft_grid lands one short: int(N*1.0*(round(q N)/N)) != M."""
    q = np.round(np.float64(M) / N * N) / N
    return int(N * 1.0 * q) != M


def gen_axis(rng, nmax, mmax, style):
    if style == 'd4':
        # the 5 % family on which the old code recomputed the padded size one short
        for _ in range(200):
            N = int(rng.integers(3, nmax + 1))
            M = int(rng.integers(N, min(5 * N, mmax) + 1))
            if d4_family(N, M):
                break
        q = M / N
    else:
        N = int(rng.choice(DIM_POOL)) if rng.random() < 0.55 else int(rng.integers(1, nmax + 1))
        N = min(N, nmax)
        r = rng.random()
        if r < 0.2:
            q = 1.0
        elif r < 0.55:
            q = _dy(rng, 1, 5, 3)
            if q >= 5:
                q = 4.875
        elif r < 0.7:
            # q*N an exact half-integer (np.round goes to even)
            M2 = 2 * int(rng.integers(N, 5 * N)) + 1
            q = M2 / (2.0 * N)
            if Fraction(q) * N != Fraction(M2, 2) or q >= 5:
                q = 1.5
        else:
            M = int(rng.integers(N, 5 * N))
            q = M / N
        while q * N > mmax and q > 1:
            q = max(1.0, q / 2)
    M = int(np.round(np.float64(q) * N))
    r = rng.random()
    if r < 0.4:
        fov = 1.0
    elif r < 0.7:
        fov = _dy(rng, 0.0625, 1, 4)
    else:
        Mo = int(rng.integers(1, M + 1))
        fov = min(1.0, (Mo + 0.5) / M)
    if int(M * fov) < 1:
        fov = 1.0
    delta = _dy(rng, 0.0625, 2, 4)
    r = rng.random()
    if r < 0.35:
        zero = -delta * (N // 2)                    # FFT-native
    elif r < 0.6:
        zero = -delta * (N - 1) / 2.0               # symmetric (make_pupil_grid)
    else:
        zero = _dy(rng, -4, 4, 4)
    shift = 0.0 if rng.random() < 0.4 else _dy(rng, -2, 2, 4)
    return dict(N=N, delta=delta, zero=zero, q=float(q), fov=float(fov), shift=shift)


def gen_field(rng, dims_shape):
    r = rng.random()
    if r < 0.3:
        kind = str(rng.choice(['centre', 'first', 'last', 'random']))
        if kind == 'centre':
            idx = [n // 2 for n in dims_shape]
        elif kind == 'first':
            idx = [0 for n in dims_shape]
        elif kind == 'last':
            idx = [n - 1 for n in dims_shape]
        else:
            idx = [int(rng.integers(0, n)) for n in dims_shape]
        return {'kind': 'impulse', 'index': idx}
    if r < 0.4:
        return {'kind': 'edge', 'seed': int(rng.integers(0, 2 ** 31))}
    return {'kind': 'random', 'seed': int(rng.integers(0, 2 ** 31))}


def gen_case(rng, big, directed=None):
    r = rng.random()
    ndim = 1 if r < 0.45 else (2 if r < 0.85 else 3)
    nmax = {1: 600 if big else 130, 2: 40 if big else 24, 3: 9 if big else 6}[ndim]
    mmax = {1: 2400 if big else 520, 2: 96 if big else 48, 3: 16 if big else 12}[ndim]
    style = 'd4' if rng.random() < 0.12 else 'plain'
    axes = [gen_axis(rng, nmax, mmax, style if d == 0 else 'plain') for d in range(ndim)]
    # square / cubic grids (equal dims and spacing on every axis) whose ORIGINS differ between the axes, on the input side
    # (grid shifted along one axis only) and on the output side (zoom window off-centre along one axis): anything cached per
    # (dims, delta) instead of per axis — e.g. one ChirpZTransform shared by the axes — is wrong exactly here
    square = ndim >= 2 and rng.random() < 0.3
    if square:
        a0 = axes[0]
        a0['zero'] = -a0['delta'] * (a0['N'] - 1) / 2.0 if rng.random() < 0.5 else a0['zero']
        for d in range(1, ndim):
            for kk in ('N', 'delta', 'q', 'fov'):
                axes[d][kk] = a0[kk]
            axes[d]['zero'] = a0['zero'] + a0['delta'] * _dy(rng, 0.125, 3, 3) * (1 if rng.random() < 0.5 else -1)
            axes[d]['shift'] = a0['shift'] + _dy(rng, 0.125, 2, 3) * (1 if rng.random() < 0.5 else -1)
    case = {k: [a[k] for a in axes] for k in ('N', 'delta', 'zero', 'q', 'fov', 'shift')}
    if square:
        case['square'] = True
    r = rng.random()
    case['tensor'] = tensor_shape_of(r)
    case['dtype'] = 'complex64' if rng.random() < 0.2 else 'complex128'
    case['field'] = gen_field(rng, case['N'])
    case['gseed'] = int(rng.integers(0, 2 ** 31))
    case['method'] = [None, None, None, 'numpy', 'scipy'][int(rng.integers(0, 5))]
    case['mft'] = [[bool(rng.integers(0, 2)), bool(rng.integers(0, 2))]]
    case['family'] = 'fft'
    # physical scale: all input coordinates times 2^k (exact), all output coordinates divided by it
    r = rng.random()
    k = (int(rng.integers(-20, 11)) if r < 0.3 else (int(rng.integers(-20, -13)) if r < 0.42 else
         (int(rng.integers(8, 15)) if r < 0.5 else 0)))
    case['scale_exp'] = k
    sc = 2.0 ** k
    case['delta'] = [d * sc for d in case['delta']]
    case['zero'] = [z * sc for z in case['zero']]
    case['shift'] = [s / sc for s in case['shift']]
    if rng.random() < 0.08:
        case['in_kind'] = 'regular-w'
        case['in_weights'] = [_dy(rng, 0.125, 2, 3) * sc ** ndim for _ in range(int(np.prod(case['N'])))]
    elif rng.random() < (0.5 if square else 0.3):
        case['family'] = 'grid'
        kind = str(rng.choice(['regular', 'regular', 'separated', 'unstructured']))
        force_regular = square and rng.random() < 0.75
        if force_regular:
            kind = 'regular'
        out = {'kind': kind}
        if kind == 'regular':
            out['N'] = [int(rng.integers(1, max(2, min(2 * n, 40 if ndim < 3 else 7)) + 1)) for n in case['N']]
            out['delta'] = [_dy(rng, 0.03125, 1.5, 5) / sc for _ in range(ndim)]
            out['zero'] = [_dy(rng, -3, 3, 4) / sc for _ in range(ndim)]
            if square:
                # square zoom window, off-centre by a different amount on every axis (e.g. centred at (7.5, 0))
                out['N'] = [max(2, out['N'][0])] * ndim
                out['delta'] = [out['delta'][0]] * ndim
                out['zero'] = [out['zero'][0]] + [out['zero'][0] + _dy(rng, 0.25, 8, 2) / sc * (1 if rng.random() < 0.5 else -1) for _ in range(ndim - 1)]
        elif kind == 'separated':
            out['coords'] = [sorted(set(_dy(rng, -4, 4, 5) / sc for _ in range(int(rng.integers(2, 12 if ndim < 3 else 5)))))
                             for _ in range(ndim)]
            out['coords'] = [c if len(c) >= 2 else [c[0], c[0] + 1.0 / sc] for c in out['coords']]
        else:
            npts = int(rng.integers(1, 25))
            out['coords'] = [[_dy(rng, -4, 4, 5) / sc for _ in range(npts)] for _ in range(ndim)]
            out['weights'] = [_dy(rng, 0.125, 2, 3) / sc ** ndim for _ in range(npts)]
        case['out'] = out
        r = rng.random()
        case['in_kind'] = 'regular' if r < 0.45 else ('separated' if r < 0.85 else 'unstructured')
        if case['in_kind'] == 'separated' and min(case['N']) < 2:
            case['in_kind'] = 'regular'
        r = rng.random()
        if force_regular:
            case['in_kind'] = 'regular'      # regular square grid -> regular square window: ZoomFFT, MFT, NFT, auto all apply
            r = 0.9
        if r < 0.45:
            # explicit input grid (polar or Cartesian) with a per-point weights array
            case['in_kind'] = 'explicit'
            case['in_spec'] = gen_spec(rng, ndim, sc, 'in')
            case['N'] = list(case['in_spec']['dims'])
            case['field'] = gen_field(rng, case['N'])
        if r < 0.75 and (r >= 0.45 or rng.random() < 0.5):
            case['out'] = gen_spec(rng, ndim, 1.0 / sc, 'out')
        if case['in_kind'] not in ('regular', 'explicit'):
            case['in_jitter'] = [[_dy(rng, -0.25, 0.25, 4) * case['delta'][d] for _ in range(case['N'][d])]
                                 for d in range(ndim)]
            if case['in_kind'] == 'unstructured':
                size = int(np.prod(case['N']))
                case['in_weights'] = [_dy(rng, 0.125, 2, 3) * sc ** ndim for _ in range(size)]
    return case


def _sorted_distinct(vals, step):
    vals = sorted(set(vals))
    return vals if len(vals) >= 2 else [vals[0], vals[0] + step]


def gen_spec(rng, ndim, s, role):
    """An explicit grid: Cartesian or (2-D) polar; regular, separated or unstructured; always with an explicit,
    non-trivial per-point weights array (polar: r·dr·dθ).  `s` is the physical scale of the coordinates."""
    system = 'polar' if (ndim == 2 and rng.random() < 0.55) else 'cartesian'
    layout = str(rng.choice(['regular', 'separated', 'unstructured']))
    nmax = {1: 24, 2: 8, 3: 4}[ndim]
    spec = {'kind': 'explicit', 'system': system, 'layout': layout}
    if layout == 'unstructured':
        npts = int(rng.integers(1, 25))
        spec['dims'] = [npts] + [1] * (ndim - 1)
        if system == 'polar':
            spec['coords'] = [[_dy(rng, 0.125, 4, 4) * s for _ in range(npts)], [_dy(rng, 0, 6.25, 4) for _ in range(npts)]]
            spec['weights'] = [r * s * _dy(rng, 0.0625, 0.5, 4) for r in spec['coords'][0]]
        else:
            spec['coords'] = [[_dy(rng, -4, 4, 5) * s for _ in range(npts)] for _ in range(ndim)]
            spec['weights'] = [_dy(rng, 0.125, 2, 3) * s ** ndim for _ in range(npts)]
        return spec
    if layout == 'regular':
        dims = [int(rng.integers(1 if system == 'cartesian' else 2, nmax + 1)) for _ in range(ndim)]
        if system == 'polar':
            spec['delta'] = [_dy(rng, 0.125, 1, 4) * s, _dy(rng, 0.125, 1.5, 4)]
            spec['zero'] = [_dy(rng, 0.125, 2, 4) * s, _dy(rng, -3, 3, 4)]
        else:
            spec['delta'] = [_dy(rng, 0.0625, 1.5, 5) * s for _ in range(ndim)]
            spec['zero'] = [_dy(rng, -3, 3, 4) * s for _ in range(ndim)]
        axes = [[spec['zero'][d] + spec['delta'][d] * i for i in range(dims[d])] for d in range(ndim)]
    else:
        if system == 'polar':
            axes = [_sorted_distinct([_dy(rng, 0.125, 4, 4) * s for _ in range(int(rng.integers(2, nmax + 1)))], s),
                    _sorted_distinct([_dy(rng, 0, 6.25, 4) for _ in range(int(rng.integers(2, nmax + 1)))], 0.5)]
        else:
            axes = [_sorted_distinct([_dy(rng, -4, 4, 5) * s for _ in range(int(rng.integers(2, nmax + 1)))], s) for _ in range(ndim)]
        spec['coords'] = axes
        dims = [len(a) for a in axes]
    spec['dims'] = dims
    size = int(np.prod(dims))
    if system == 'polar':
        r, th = np.array(axes[0]), np.array(axes[1])
        dr = np.gradient(r) if len(r) > 1 else np.array([s])
        dth = np.gradient(th) if len(th) > 1 else np.array([1.0])
        spec['weights'] = [float(v) for v in np.outer(np.abs(dth), r * np.abs(dr)).ravel()]      # r·dr·dθ, r fastest
    else:
        spec['weights'] = [_dy(rng, 0.125, 2, 3) * s ** ndim for _ in range(size)]
    return spec


def spec_axes(spec):
    if spec['layout'] == 'regular':
        return [[spec['zero'][d] + spec['delta'][d] * i for i in range(spec['dims'][d])] for d in range(len(spec['dims']))]
    return spec['coords']


def spec_grid(spec):
    import hcipy
    cls = hcipy.PolarGrid if spec['system'] == 'polar' else hcipy.CartesianGrid
    w = np.array(spec['weights'])
    if spec['layout'] == 'regular':
        return cls(hcipy.RegularCoords(np.array(spec['delta']), np.array(spec['dims']), np.array(spec['zero'])), weights=w)
    if spec['layout'] == 'separated':
        return cls(hcipy.SeparatedCoords([np.array(c) for c in spec['coords']]), weights=w)
    return cls(hcipy.UnstructuredCoords([np.array(c) for c in spec['coords']]), weights=w)


def spec_cart_full(spec):
    """full Cartesian coordinates (longdouble, from the parameters) and the weights of an explicit grid"""
    if spec['layout'] == 'unstructured':
        full = [np.array(c, dtype=LD) for c in spec['coords']]
    else:
        full = full_coords([np.array(a, dtype=LD) for a in spec_axes(spec)])
    if spec['system'] == 'polar':
        r, th = full
        full = [r * np.cos(th), r * np.sin(th)]
    return full, np.array(spec['weights'], dtype=LD)


def gen_steps(rng, dims, nsteps):
    """a call sequence for ONE transform object: direction, precision, tensor shape and field content change"""
    steps = []
    for _ in range(nsteps):
        r = rng.random()
        steps.append({'dir': 'f' if rng.random() < 0.5 else 'b',
                      'dtype': 'complex64' if rng.random() < 0.4 else 'complex128',
                      'tensor': tensor_shape_of(0.1 + 0.9 * r),
                      'field': gen_field(rng, dims),
                      'gseed': int(rng.integers(0, 2 ** 31))})
    return steps


def gen_seq_case(rng, big):
    """A small case with the parameter corners of the FFT (q = 1; fov < 1 with q·fov < 1, = 1, > 1) and a call
    sequence that re-uses every transform object."""
    case = gen_case(rng, False)
    ndim = len(case['N'])
    nmax = {1: 40 if big else 24, 2: 12 if big else 8, 3: 5}[ndim]
    sc = 2.0 ** case['scale_exp']
    for d in range(ndim):
        N = int(rng.integers(1, nmax + 1))
        q = [1.0, 1.0, 2.0, 1.5, 3.0, 1.25][int(rng.integers(0, 6))]
        M = int(np.round(q * N))
        corner = int(rng.integers(0, 4))
        if corner == 0:
            fov = 1.0
        elif corner == 1:                       # q·fov = 1 : output as large as the input
            fov = (N + 0.5) / M
        elif corner == 2:                       # q·fov < 1
            fov = (max(1, int(rng.integers(1, N + 1)) - 1) + 0.5) / M if N > 1 else 1.0
        else:                                   # q·fov > 1, fov < 1
            fov = (int(rng.integers(N, M + 1)) + 0.5) / M if M > N else 0.5
        fov = min(1.0, fov)
        if int(M * fov) < 1:
            fov = 1.0
        if case.get('in_kind') != 'explicit':
            case['N'][d] = N
        case['q'][d] = q
        case['fov'][d] = float(fov)
    if case.get('in_kind') == 'regular-w':
        case['in_weights'] = [_dy(rng, 0.125, 2, 3) * sc ** ndim for _ in range(int(np.prod(case['N'])))]
    if case['family'] == 'grid' and case.get('in_kind') != 'explicit':
        if case.get('in_kind', 'regular') == 'separated' and min(case['N']) < 2:
            case['in_kind'] = 'regular'
        if case.get('in_kind', 'regular') != 'regular':
            case['in_jitter'] = [[_dy(rng, -0.25, 0.25, 4) * case['delta'][d] for _ in range(case['N'][d])] for d in range(ndim)]
            if case['in_kind'] == 'unstructured':
                case['in_weights'] = [_dy(rng, 0.125, 2, 3) * sc ** ndim for _ in range(int(np.prod(case['N'])))]
    case['field'] = gen_field(rng, case['N'])
    case['seq'] = gen_steps(rng, case['N'], int(rng.integers(3, 7)))
    case['all_switches'] = True
    return case


def _steps(spec):
    return [{'dir': d, 'dtype': t, 'tensor': ts, 'field': {'kind': 'random', 'seed': 100 + i}, 'gseed': 200 + i}
            for i, (d, t, ts) in enumerate(spec)]


# one object re-used: precision changes (MFT intermediate array), backward→forward and backward→forward→backward on
# cropped / padded FFTs (stale internal array), and MFT on non-uniform separated grids at physical scales
DIRECTED_SEQ = [
    dict(family='fft', N=[6, 5], delta=[0.5, 0.25], zero=[-1.5, -0.5], q=[1.0, 1.0], fov=[1.0, 1.0], shift=[0.0, 0.0], tensor=[], dtype='complex128',
         field={'kind': 'random', 'seed': 21}, gseed=21, method=None, mft=[[True, True]], all_switches=True, scale_exp=0,
         seq=_steps([('f', 'complex64', []), ('b', 'complex64', []), ('f', 'complex128', [2]), ('b', 'complex128', []), ('f', 'complex64', [])])),
    dict(family='fft', N=[8], delta=[0.25], zero=[-1.0], q=[2.0], fov=[0.8125], shift=[0.0], tensor=[], dtype='complex128',
         field={'kind': 'random', 'seed': 22}, gseed=22, method=None, mft=[[True, True]], all_switches=True, scale_exp=0,
         seq=_steps([('f', 'complex128', []), ('b', 'complex128', []), ('f', 'complex128', []), ('f', 'complex128', [2]), ('b', 'complex64', [])])),
    dict(family='fft', N=[8, 6], delta=[0.25, 0.5], zero=[-1.0, -1.5], q=[1.0, 2.0], fov=[0.5625, 0.3125], shift=[0.25, 0.0], tensor=[], dtype='complex128',
         field={'kind': 'random', 'seed': 23}, gseed=23, method=None, mft=[[True, True]], all_switches=True, scale_exp=0,
         seq=_steps([('b', 'complex128', []), ('f', 'complex128', []), ('b', 'complex128', []), ('b', 'complex128', [2]), ('f', 'complex64', [])])),
    # a 1 mm aperture in metres on a non-uniformly sampled separated grid: pixel areas ~1e-9
    dict(family='grid', N=[9, 7], delta=[2.0 ** -15, 2.0 ** -15], zero=[-4 * 2.0 ** -15, -3 * 2.0 ** -15], q=[1.0, 1.0], fov=[1.0, 1.0], shift=[0.0, 0.0],
         tensor=[], dtype='complex128', field={'kind': 'random', 'seed': 24}, gseed=24, method=None, mft=[[True, True]], all_switches=True, scale_exp=-15,
         in_kind='separated', in_jitter=[[((i * 7) % 5 - 2) * 2.0 ** -18 for i in range(9)], [((i * 3) % 5 - 2) * 2.0 ** -18 for i in range(7)]],
         out={'kind': 'separated', 'coords': [[-12000.0, -4000.0, -1000.0, 0.0, 2000.0, 10000.0], [-8192.0, -2048.0, 0.0, 1024.0, 12288.0]]},
         seq=_steps([('f', 'complex128', []), ('b', 'complex128', [])])),
    dict(family='grid', N=[6, 8], delta=[512.0, 512.0], zero=[-1536.0, -2048.0], q=[1.0, 1.0], fov=[1.0, 1.0], shift=[0.0, 0.0],
         tensor=[2], dtype='complex128', field={'kind': 'random', 'seed': 25}, gseed=25, method=None, mft=[[True, True]], all_switches=True, scale_exp=9,
         in_kind='regular',
         out={'kind': 'separated', 'coords': [[-0.0004, -0.00015, -0.00005, 0.0, 0.0001, 0.00035], [-0.0003, -0.0001, 0.0, 0.00005, 0.00045]]},
         seq=_steps([('b', 'complex128', []), ('f', 'complex64', [])])),
    # polar grids with r·dr·dθ weights (the transformation matrices must use the grid's own weights)
    dict(family='grid', N=[4, 5], delta=[0.5, 1.0], zero=[0.5, 0.0], q=[1.0, 1.0], fov=[1.0, 1.0], shift=[0.0, 0.0], tensor=[], dtype='complex128',
         field={'kind': 'random', 'seed': 31}, gseed=31, method=None, mft=[[True, True]], scale_exp=0, in_kind='explicit',
         in_spec={'kind': 'explicit', 'system': 'polar', 'layout': 'regular', 'dims': [4, 5], 'delta': [0.5, 1.0], 'zero': [0.5, 0.0],
                  'weights': [float(v) for v in np.outer(np.full(5, 1.0), (0.5 + 0.5 * np.arange(4)) * 0.5).ravel()]},
         out={'kind': 'regular', 'N': [5, 4], 'delta': [0.5, 0.75], 'zero': [-1.0, -1.0]}, seq=_steps([('b', 'complex128', []), ('f', 'complex64', [2])])),
    dict(family='grid', N=[5, 4], delta=[0.5, 0.5], zero=[-1.0, -0.75], q=[1.0, 1.0], fov=[1.0, 1.0], shift=[0.0, 0.0], tensor=[2], dtype='complex128',
         field={'kind': 'random', 'seed': 32}, gseed=32, method=None, mft=[[True, True]], scale_exp=0, in_kind='regular',
         out={'kind': 'explicit', 'system': 'polar', 'layout': 'separated', 'dims': [3, 4], 'coords': [[0.5, 1.25, 3.0], [0.0, 1.0, 2.5, 4.5]],
              'weights': [float(v) for v in np.outer(np.gradient(np.array([0.0, 1.0, 2.5, 4.5])), np.array([0.5, 1.25, 3.0]) * np.gradient(np.array([0.5, 1.25, 3.0]))).ravel()]},
         seq=_steps([('f', 'complex128', []), ('b', 'complex128', [])])),
    dict(family='grid', N=[6, 1], delta=[1.0, 1.0], zero=[0.0, 0.0], q=[1.0, 1.0], fov=[1.0, 1.0], shift=[0.0, 0.0], tensor=[], dtype='complex128',
         field={'kind': 'random', 'seed': 33}, gseed=33, method=None, mft=[[True, True]], scale_exp=0, in_kind='explicit',
         in_spec={'kind': 'explicit', 'system': 'polar', 'layout': 'unstructured', 'dims': [6, 1],
                  'coords': [[0.5, 1.0, 1.5, 2.0, 2.5, 0.25], [0.0, 1.0, 2.0, 3.0, 4.0, 5.0]], 'weights': [0.25, 0.5, 0.75, 1.0, 1.25, 0.125]},
         out={'kind': 'explicit', 'system': 'polar', 'layout': 'regular', 'dims': [3, 3], 'delta': [0.75, 2.0], 'zero': [0.25, 0.5],
              'weights': [float(v) for v in np.outer(np.full(3, 2.0), (0.25 + 0.75 * np.arange(3)) * 0.75).ravel()]},
         seq=_steps([('f', 'complex64', []), ('b', 'complex128', [2])])),
]


DIRECTED = [
    # the D4 example of the design: N = 87, q = 2.5 (padded size 218; the old code reported 217)
    dict(family='fft', N=[87], delta=[0.25], zero=[-3.0], q=[2.5], fov=[1.0], shift=[0.0], tensor=[], dtype='complex128',
         field={'kind': 'random', 'seed': 1}, gseed=1, method=None, mft=[[True, True]]),
    dict(family='fft', N=[87, 5], delta=[0.25, 0.5], zero=[-3.0, -1.0], q=[2.5, 2.0], fov=[1.0, 0.5], shift=[0.0, 0.375], tensor=[2],
         dtype='complex128', field={'kind': 'random', 'seed': 2}, gseed=2, method=None, mft=[[False, False]]),
    # size-1 axes, odd/even, non-square
    dict(family='fft', N=[1], delta=[0.5], zero=[0.25], q=[1.0], fov=[1.0], shift=[0.5], tensor=[], dtype='complex128',
         field={'kind': 'impulse', 'index': [0]}, gseed=3, method=None, mft=[[True, False]]),
    dict(family='fft', N=[1, 4], delta=[0.5, 0.25], zero=[0.0, -0.5], q=[3.0, 1.75], fov=[1.0, 0.75], shift=[0.0, 0.25], tensor=[],
         dtype='complex128', field={'kind': 'random', 'seed': 4}, gseed=4, method='numpy', mft=[[False, True]]),
    dict(family='fft', N=[7, 4], delta=[0.5, 0.25], zero=[-1.5, -0.5], q=[1.5, 1.125], fov=[0.5, 1.0], shift=[0.0, 0.0], tensor=[2, 2],
         dtype='complex64', field={'kind': 'random', 'seed': 5}, gseed=5, method='scipy', mft=[[True, True]]),
    # 3-D and tensor fields: the D5 classes of ZoomFastFourierTransform
    dict(family='fft', N=[3, 4, 5], delta=[0.5, 0.25, 1.0], zero=[-0.5, -0.5, -2.0], q=[2.0, 1.5, 1.0], fov=[1.0, 0.5, 1.0],
         shift=[0.25, 0.0, 0.5], tensor=[], dtype='complex128', field={'kind': 'random', 'seed': 6}, gseed=6, method=None, mft=[[True, True]]),
    dict(family='fft', N=[5, 3], delta=[0.5, 0.25], zero=[-1.0, -0.25], q=[2.0, 3.0], fov=[1.0, 1.0], shift=[0.0, 0.0], tensor=[2],
         dtype='complex128', field={'kind': 'impulse', 'index': [4, 0]}, gseed=7, method=None, mft=[[True, True]]),
    # square / cubic grids (equal dims and spacing on all axes) with different origins per axis: input grid shifted along one
    # axis only (make_pupil_grid(16).shifted([0, 0.3]) style), output window off-centre along one axis only (centre (7.5, 0))
    dict(family='fft', N=[8, 8], delta=[0.25, 0.25], zero=[-0.875, -0.5], q=[2.0, 2.0], fov=[0.5, 0.5], shift=[0.0, 0.375], tensor=[],
         dtype='complex128', field={'kind': 'random', 'seed': 8}, gseed=8, method=None, mft=[[True, True]], square=True),
    dict(family='grid', N=[16, 16], delta=[0.0625, 0.0625], zero=[-0.46875, -0.15625], q=[1.0, 1.0], fov=[1.0, 1.0], shift=[0.0, 0.0], tensor=[],
         dtype='complex128', field={'kind': 'random', 'seed': 9}, gseed=9, method=None, mft=[[True, False]], in_kind='regular', square=True,
         out={'kind': 'regular', 'N': [12, 12], 'delta': [0.5, 0.5], 'zero': [4.75, -2.75]}),
    dict(family='grid', N=[6, 6], delta=[0.5, 0.5], zero=[-1.25, -1.25], q=[1.0, 1.0], fov=[1.0, 1.0], shift=[0.0, 0.0], tensor=[2],
         dtype='complex128', field={'kind': 'random', 'seed': 10}, gseed=10, method=None, mft=[[False, True]], in_kind='regular', square=True,
         out={'kind': 'regular', 'N': [6, 6], 'delta': [0.5, 0.5], 'zero': [6.25, -1.25]}),
    dict(family='grid', N=[4, 4, 4], delta=[0.5, 0.5, 0.5], zero=[-0.75, -0.75, 0.25], q=[1.0, 1.0, 1.0], fov=[1.0, 1.0, 1.0], shift=[0.0, 0.0, 0.0],
         tensor=[], dtype='complex128', field={'kind': 'random', 'seed': 11}, gseed=11, method=None, mft=[[True, True]], in_kind='regular', square=True,
         out={'kind': 'regular', 'N': [3, 3, 3], 'delta': [0.75, 0.75, 0.75], 'zero': [-0.75, 1.5, -0.75]}),
]


# ---------------------------------------------------------------------------------------------
# grids, fields and the reference sums (longdouble)

def in_coords_ld(case):
    """separated input coordinates per dim (dims order) in longdouble, or None if unstructured"""
    xs = []
    for d, n in enumerate(case['N']):
        x = LD(case['zero'][d]) + LD(case['delta'][d]) * np.arange(n, dtype=LD)
        if case.get('in_kind', 'regular') in ('separated', 'unstructured'):
            x = x + np.array(case['in_jitter'][d], dtype=LD)
        xs.append(x)
    return xs


def full_coords(xs):
    """flat coordinates (x fastest) of the product grid of per-dim coordinate arrays"""
    shape = [len(x) for x in xs][::-1]
    out = []
    for d, x in enumerate(xs):
        ax = len(xs) - 1 - d
        sh = [1] * len(xs)
        sh[ax] = len(x)
        out.append(np.broadcast_to(np.asarray(x).reshape(sh), shape).reshape(-1))
    return out


def make_in_grid(case):
    import hcipy
    kind = case.get('in_kind', 'regular')
    if kind == 'regular':
        return hcipy.CartesianGrid(hcipy.RegularCoords(np.array(case['delta']), np.array(case['N']), np.array(case['zero'])))
    if kind == 'regular-w':
        return hcipy.CartesianGrid(hcipy.RegularCoords(np.array(case['delta']), np.array(case['N']), np.array(case['zero'])),
                                   weights=np.array(case['in_weights']))
    if kind == 'explicit':
        return spec_grid(case['in_spec'])
    xs = [np.array(x, dtype='float64') for x in in_coords_ld(case)]
    if kind == 'separated':
        return hcipy.CartesianGrid(hcipy.SeparatedCoords(xs))
    return hcipy.CartesianGrid(hcipy.UnstructuredCoords(full_coords(xs)), weights=np.array(case['in_weights']))


def make_out_grid(case):
    import hcipy
    o = case['out']
    if o['kind'] == 'explicit':
        return spec_grid(o)
    if o['kind'] == 'regular':
        return hcipy.CartesianGrid(hcipy.RegularCoords(np.array(o['delta']), np.array(o['N']), np.array(o['zero'])))
    if o['kind'] == 'separated':
        return hcipy.CartesianGrid(hcipy.SeparatedCoords([np.array(c) for c in o['coords']]))
    return hcipy.CartesianGrid(hcipy.UnstructuredCoords([np.array(c) for c in o['coords']]), weights=np.array(o['weights']))


def make_field(case, grid, which='field'):
    import hcipy
    size = grid.size
    shape = tuple(case['tensor']) + (size,)
    spec = case['field'] if which == 'field' else {'kind': 'random', 'seed': case['gseed']}
    if spec['kind'] == 'impulse':
        a = np.zeros(shape, dtype='complex128')
        flat = 0
        mul = 1
        for d, n in enumerate(case['N']):
            flat += spec['index'][d] * mul
            mul *= n
        a[..., flat] = 1.0
        if case['tensor']:
            a = a * (1 + np.arange(int(np.prod(case['tensor']))).reshape(tuple(case['tensor']) + (1,)))
    else:
        rng = np.random.default_rng(spec['seed'])
        a = rng.normal(size=shape) + 1j * rng.normal(size=shape)
        if spec['kind'] == 'edge':
            # energy concentrated on the border samples of the grid
            mask = np.zeros(case['N'][::-1], dtype=bool)
            for ax in range(mask.ndim):
                sl = [slice(None)] * mask.ndim
                sl[ax] = 0
                mask[tuple(sl)] = True
                sl[ax] = -1
                mask[tuple(sl)] = True
            a = a * mask.reshape(-1)
    a = a.astype(case['dtype'])
    return hcipy.Field(a, grid)


def grid_desc(grid):
    """(separated coords per dim | None, full coords per dim, weights) of an hcipy grid, as longdouble"""
    if not grid.is_('cartesian'):
        sep = None
        full = [np.asarray(c, dtype=LD) for c in grid.as_('cartesian').coords]       # weights: the grid's own
    elif grid.is_separated:
        sep = [np.asarray(c, dtype=LD) for c in grid.separated_coords]
        full = full_coords(sep)
    else:
        sep = None
        full = [np.asarray(c, dtype=LD) for c in grid.coords]
    w = grid.weights
    w = np.asarray(w, dtype=LD) if not np.isscalar(w) else LD(w)
    return sep, full, w


def ref_sum(src_sep, src_full, src_w, dst_sep, dst_full, values, sign, ndim):
    """Σ_src values·w·exp(sign·i·u·x) at every dst point; values has shape (T, size_src)."""
    v = values.astype(CLD) * src_w
    T = v.shape[0]
    if src_sep is not None and dst_sep is not None:
        shape = [len(x) for x in src_sep][::-1]
        arr = v.reshape([T] + shape)
        for d in range(ndim):
            ax = 1 + (ndim - 1 - d)
            Ed = np.exp(CLD(1j * sign) * np.outer(dst_sep[d], src_sep[d]))
            arr = np.moveaxis(np.tensordot(Ed, arr, axes=([1], [ax])), 0, ax)
        return arr.reshape(T, -1)
    nsrc = len(src_full[0])
    ndst = len(dst_full[0])
    out = np.zeros((T, ndst), dtype=CLD)
    chunk = max(1, int(400000 // max(1, nsrc)))
    for s in range(0, ndst, chunk):
        ph = np.zeros((min(chunk, ndst - s), nsrc), dtype=LD)
        for d in range(ndim):
            ph += np.outer(dst_full[d][s:s + chunk], src_full[d])
        out[:, s:s + chunk] = np.einsum('tj,kj->tk', v, np.exp(CLD(1j * sign) * ph))
    return out


# ---------------------------------------------------------------------------------------------
# the real code

class Conf:
    """temporarily set the FFT backend list"""
    def __init__(self, method):
        self.method = method

    def __enter__(self):
        import hcipy
        if self.method is not None:
            self.old = list(hcipy.Configuration().fourier.fft.method)
            hcipy.Configuration().fourier.fft.method = [self.method]

    def __exit__(self, *a):
        import hcipy
        if self.method is not None:
            hcipy.Configuration().fourier.fft.method = self.old


def _arr_or_scalar(v):
    return float(v[0]) if len(set(v)) == 1 and len(v) > 1 and (hash(tuple(v)) % 2 == 0) else np.array(v, dtype='float64')


def build_transforms(case, in_grid, thorough=False):
    """[(name, constructor thunk)] for every implementation applicable to the case"""
    import hcipy
    out = []
    ndim = len(case['N'])
    in_kind = case.get('in_kind', 'regular')
    if case['family'] == 'fft':
        q, fov, shift = _arr_or_scalar(case['q']), _arr_or_scalar(case['fov']), _arr_or_scalar(case['shift'])
        fft_std = hcipy.FastFourierTransform(in_grid, q, fov, shift, emulate_fftshifts=False)
        out_grid = fft_std.output_grid
        out.append(('fft-std', lambda: fft_std))
        out.append(('fft-emu', lambda: hcipy.FastFourierTransform(in_grid, q, fov, shift, emulate_fftshifts=True)))

        def fft_conf():
            c = hcipy.Configuration()
            old = c.fourier.fft.emulate_fftshifts
            c.fourier.fft.emulate_fftshifts = bool(case['gseed'] % 2)
            try:
                return hcipy.FastFourierTransform(in_grid, q, fov, shift)
            finally:
                c.fourier.fft.emulate_fftshifts = old
        out.append(('fft-config', fft_conf))
        out.append(('auto-q', lambda: hcipy.make_fourier_transform(in_grid, q=q, fov=fov, shift=shift)))
        out.append(('auto-grid', lambda: hcipy.make_fourier_transform(in_grid, out_grid)))
    else:
        out_grid = make_out_grid(case)
        out.append(('auto-grid', lambda: hcipy.make_fourier_transform(in_grid, out_grid)))
    in_cart, out_cart = bool(in_grid.is_('cartesian')), bool(out_grid.is_('cartesian'))
    if in_cart and out_cart and in_grid.is_separated and out_grid.is_separated and ndim <= 2:
        combos = [[a, b] for a in (True, False) for b in (True, False)] if thorough else case['mft']
        for pre, alloc in combos:
            out.append(('mft-%d%d' % (pre, alloc), lambda pre=pre, alloc=alloc: hcipy.MatrixFourierTransform(
                in_grid, out_grid, precompute_matrices=pre, allocate_intermediate=alloc)))
        if case['gseed'] % 3 == 0:
            out.append(('mft-config', lambda: hcipy.MatrixFourierTransform(in_grid, out_grid)))
    if in_grid.size * out_grid.size <= 1500000:
        out.append(('nft-pre', lambda: hcipy.NaiveFourierTransform(in_grid, out_grid, precompute_matrices=True)))
    if in_grid.size * out_grid.size <= 1500000 and out_grid.size <= 6000 and in_grid.size <= 6000:
        out.append(('nft', lambda: hcipy.NaiveFourierTransform(in_grid, out_grid, precompute_matrices=False)))
    if in_cart and out_cart and in_grid.is_regular and out_grid.is_regular:
        out.append(('zoom', lambda: hcipy.ZoomFastFourierTransform(in_grid, out_grid)))
    return out_grid, out


def grids_close(a, b):
    if a.ndim != b.ndim or a.size != b.size:
        return False
    if a.is_regular and b.is_regular:
        if not np.array_equal(a.dims, b.dims):
            return False
        sc = np.abs(a.zero) + np.abs(a.delta * a.dims)        # extent of the grid per axis (no absolute floor)
        return bool(np.all(np.abs(a.delta - b.delta) <= 1e-9 * np.abs(a.delta)) and np.all(np.abs(a.zero - b.zero) <= 1e-9 * sc))
    ca, cb = np.array(a.coords), np.array(b.coords)
    return ca.shape == cb.shape and bool(np.all(np.abs(ca - cb) <= 1e-9 * max(np.abs(ca).max(), 1e-300)))


def cls_of(name):
    return name.split('-')[0]


def failing_class(case, name, direction, info):
    """stable key naming the failing clause / input class"""
    c = cls_of(name)
    if c in ('fft', 'auto') and info.get('inconsistent'):
        return 'fft-grid-inconsistent'
    if c in ('fft', 'auto') and case.get('in_kind') == 'regular-w' and info.get('is_fft'):
        return 'fft-per-point-weights'
    if c == 'zoom' and (case['tensor'] or len(case['N']) >= 3):
        return 'zoom-tensor-or-3d'
    return '%s-%s' % (c, direction)


def oracle_case(case, thorough=False, want_obs=False):
    """Evaluate the property on the real code.  Returns (bad, obs): bad = [(key, what)],
    obs = observations for the correspondence."""
    import hcipy
    bad = []
    obs = {'impls': []}
    ndim = len(case['N'])
    tol = tol_for(case['dtype'])
    with Conf(case.get('method')):
        in_grid = make_in_grid(case)
        try:
            out_grid, transforms = build_transforms(case, in_grid, thorough or case.get('all_switches', False))
        except Exception as e:  # noqa
            key = 'fft-per-point-weights' if case.get('in_kind') == 'regular-w' else 'construct-raises'
            return [(key, 'constructing the transform raised %s: %s' % (type(e).__name__, e))], obs
        field = make_field(case, in_grid)
        in_sep, in_full, in_w = grid_desc(in_grid)
        if case.get('in_kind', 'regular') == 'explicit':
            in_sep = None
            in_full, in_w = spec_cart_full(case['in_spec'])
        elif case.get('in_kind', 'regular') != 'unstructured':
            in_sep = in_coords_ld(case)          # from the parameters, not from hcipy's grid
            in_full = full_coords(in_sep)
        if case.get('in_kind', 'regular') == 'regular-w':
            in_w = np.array(case['in_weights'], dtype=LD)
        if case.get('in_kind', 'regular') == 'regular':
            in_w = LD(1)
            for dl in case['delta']:
                in_w = in_w * LD(dl)
        T = int(np.prod(case['tensor'])) if case['tensor'] else 1
        fvals = np.asarray(field).reshape(T, -1)
        ref_cache = {}
        for name, thunk in transforms:
            try:
                ft = thunk()
            except Exception as e:  # noqa
                bad.append((cls_of(name) + '-construct-raises', '%s: constructing raised %s: %s' % (name, type(e).__name__, e)))
                if name.startswith('auto') and isinstance(e, ValueError):
                    obs.setdefault('auto', {})[name] = 'raises'
                continue
            og = ft.output_grid
            info = {}
            if name.startswith('auto'):
                obs.setdefault('auto', {})[name] = type(ft).__name__
                if name == 'auto-grid':
                    try:
                        obs['detected'] = bool(hcipy.fourier.is_fft_grid(out_grid, in_grid))
                    except Exception as e:  # noqa
                        obs['detected'] = '%s: %s' % (type(e).__name__, e)
            if isinstance(ft, hcipy.FastFourierTransform):
                info['is_fft'] = True
                M = np.array(ft.internal_shape[::-1], dtype='float64')
                prod = og.delta * M * in_grid.delta
                info['inconsistent'] = bool(np.any(np.abs(prod - 2 * np.pi) > 1e-9))
                if name == 'fft-std':
                    obs['fft'] = ft
            if name.startswith('auto') and not grids_close(og, out_grid):
                bad.append(('selection-output-grid', '%s returned a %s whose output grid is not the grid requested (dims %s vs %s)' % (
                    name, type(ft).__name__, list(og.dims) if og.is_regular else og.size, list(out_grid.dims) if out_grid.is_regular else out_grid.size)))
                continue
            obs['impls'].append(name + ':' + type(ft).__name__)
            key_og = id(og) if og is out_grid else ('g', name)
            if key_og not in ref_cache:
                o_sep, o_full, o_w = grid_desc(og)
                ref_f = ref_sum(in_sep, in_full, in_w, o_sep, o_full, fvals, -1, ndim)
                g = make_field(case, og, which='g')
                gvals = np.asarray(g).reshape(T, -1)
                ref_b = ref_sum(o_sep, o_full, o_w, in_sep, in_full, gvals, +1, ndim) / (TWO_PI_LD ** ndim)
                ref_cache[key_og] = (ref_f, ref_b, g)
            ref_f, ref_b, g = ref_cache[key_og]
            # the public transformation matrices (base-class API, used by NaiveFourierTransform(precompute_matrices=True)
            # and by wavefront-control code) against the same defining sums, once per class and output grid
            mk = ('matrix', type(ft).__name__, key_og)
            if mk not in ref_cache and in_grid.size * og.size <= 40000:
                ref_cache[mk] = True
                o_wm = grid_desc(og)[2] / float(TWO_PI_LD ** ndim)
                for direction, getter, arg, ref, wsrc in (('forward', 'get_transformation_matrix_forward', field, ref_f, in_w),
                                                          ('backward', 'get_transformation_matrix_backward', g, ref_b, o_wm)):
                    try:
                        A = np.asarray(getattr(ft, getter)())
                        res = (A.astype(CLD) @ np.asarray(arg).reshape(T, -1).astype(CLD).T).T
                    except Exception as e:  # noqa
                        bad.append(('matrix-%s-raises' % direction, '%s.%s() raised %s: %s' % (type(ft).__name__, getter, type(e).__name__, e)))
                        continue
                    if res.shape != ref.shape:
                        bad.append(('matrix-' + direction, '%s.%s() has shape %s for %d -> %d points' % (type(ft).__name__, getter, A.shape, in_grid.size, og.size)))
                        continue
                    scale = ref_scale(ref, arg, wsrc)
                    err = float(np.abs(res - ref).max())
                    obs['matrix_checks'] = obs.get('matrix_checks', 0) + 1
                    if not err <= tol * scale:
                        bad.append(('matrix-' + direction, '%s.%s() applied to the field differs from the defining sum: max error %.3g (scale %.3g)' % (
                            type(ft).__name__, getter, err, scale)))
            for direction, arg, ref in (('forward', field, ref_f), ('backward', g, ref_b)):
                try:
                    res = ft.forward(arg) if direction == 'forward' else ft.backward(arg)
                except Exception as e:  # noqa
                    bad.append((failing_class(case, name, direction, info) + '-raises', '%s.%s raised %s: %s' % (name, direction, type(e).__name__, e)))
                    continue
                res = np.asarray(res)
                if res.size != ref.size:
                    bad.append((failing_class(case, name, direction, info), '%s.%s returned %d values for %d points' % (name, direction, res.size, ref.size)))
                    continue
                res = res.reshape(T, -1)
                scale = ref_scale(ref, arg, in_w if direction == 'forward' else grid_desc(og)[2] / float(TWO_PI_LD ** ndim))
                err = float(np.abs(res.astype(CLD) - ref).max())
                obs.setdefault('maxerr', {})
                obs['maxerr'][cls_of(name)] = max(obs['maxerr'].get(cls_of(name), 0.0), err / scale)
                if not err <= tol * scale:
                    bad.append((failing_class(case, name, direction, info),
                                '%s.%s differs from the defining sum: max error %.3g (scale %.3g, tolerance %.1e·scale)' % (name, direction, err, scale, tol)))
            # the same object, driven through further calls with changing precision, tensor shape and content
            for si, st in enumerate(case.get('seq', [])):
                scase = dict(case, tensor=st['tensor'], dtype=st['dtype'], field=st['field'], gseed=st['gseed'])
                Ts = int(np.prod(st['tensor'])) if st['tensor'] else 1
                ck = (key_og, si)
                if ck not in ref_cache:
                    o_sep, o_full, o_w = grid_desc(og)
                    if st['dir'] == 'f':
                        a = make_field(scase, in_grid)
                        r = ref_sum(in_sep, in_full, in_w, o_sep, o_full, np.asarray(a).reshape(Ts, -1), -1, ndim)
                        wsrc = in_w
                    else:
                        a = make_field(scase, og, which='g')
                        r = ref_sum(o_sep, o_full, o_w, in_sep, in_full, np.asarray(a).reshape(Ts, -1), +1, ndim) / (TWO_PI_LD ** ndim)
                        wsrc = o_w / float(TWO_PI_LD ** ndim)
                    ref_cache[ck] = (a, r, wsrc)
                a, r, wsrc = ref_cache[ck]
                direction = 'forward' if st['dir'] == 'f' else 'backward'
                rkey = '%s-%s-reused' % (cls_of(name), direction)
                if cls_of(name) in ('fft', 'auto') and case.get('in_kind') == 'regular-w' and info.get('is_fft'):
                    rkey = 'fft-per-point-weights'
                try:
                    res = np.asarray(ft.forward(a) if st['dir'] == 'f' else ft.backward(a))
                except Exception as e:  # noqa
                    bad.append((rkey + '-raises', '%s.%s (call %d on one object) raised %s: %s' % (name, direction, si + 3, type(e).__name__, e)))
                    continue
                if res.size != r.size:
                    bad.append((rkey, '%s.%s (call %d on one object) returned %d values for %d points' % (name, direction, si + 3, res.size, r.size)))
                    continue
                scale = ref_scale(r, a, wsrc)
                err = float(np.abs(res.reshape(Ts, -1).astype(CLD) - r).max())
                obs['reuse_calls'] = obs.get('reuse_calls', 0) + 1
                if not err <= tol_for(st['dtype']) * scale:
                    bad.append((rkey,
                                '%s.%s, call %d on one object (%s, tensor %s), differs from the defining sum: max error %.3g (scale %.3g); a fresh object is right' % (
                                    name, direction, si + 3, st['dtype'], st['tensor'], err, scale)))
    return bad, obs


def ref_scale(ref, arg, w):
    """Scale of the comparison: the largest reference value, but at least 1e-3 of the bound Σ|f|·|w| of the sum
    (no absolute floor: grids with physical scales have weights from 1e-12 to 1e6)."""
    l1 = float(np.max(np.sum(np.abs(np.asarray(arg).reshape(ref.shape[0], -1)).astype(LD) * np.abs(w), axis=-1)))
    return max(float(np.abs(ref).max()), 1e-3 * l1, 1e-300)


# ---------------------------------------------------------------------------------------------
# correspondence with the Lean model (FFT family)

def eval_mono(s):
    """'c:t:r' -> complex value c·exp(i(2π t + r)) in longdouble"""
    if s == '0':
        return CLD(0)
    if s == 'multi':
        raise MachineryError('model returned a non-monomial impulse response')
    c, t, r = (Fraction(x) for x in s.split(':'))
    ang = TWO_PI_LD * LD(t.numerator) / LD(t.denominator) + LD(r.numerator) / LD(r.denominator)
    return CLD(LD(c.numerator) / LD(c.denominator)) * np.exp(CLD(1j) * ang)


def fmt_cut(cut):
    if cut is None:
        return '-'
    return ','.join('%d:%d' % (int(s.start), int(s.stop)) for s in cut[::-1])     # dims order


def reported_dT(ft, in_delta):
    """The spacing the FFT reports, as an exact rational in turns: 1/(M'·δ), M' = round(2π/(Δ·δ))."""
    og = ft.output_grid
    res = []
    for d in range(og.ndim):
        mp = 2 * np.pi / (og.delta[d] * in_delta[d])
        if abs(mp - round(mp)) > 1e-6 or round(mp) < 1:
            return None
        res.append(Fraction(1) / (int(round(mp)) * Fraction(in_delta[d])))
    return res


def correspondence_requests(case, ft):
    """[(request line, checker(response) -> None | detail)] for one FFT-family case"""
    reqs = []
    ndim = len(case['N'])
    og = ft.output_grid
    Ms = [int(m) for m in ft.internal_shape[::-1]]
    Mos = [int(m) for m in ft.shape_out[::-1]]
    Ns = [int(n) for n in ft.shape_in[::-1]]
    line = 'C01 plan %s %s %s %s %s %s' % ('[' + ','.join(str(n) for n in case['N']) + ']', rat_list(case['delta']),
                                           rat_list(case['zero']), rat_list(case['q']), rat_list(case['fov']), rat_list(case['shift']))

    def check_plan(resp):
        if not resp.startswith('ok '):
            return 'model: ' + resp
        kv = dict(p.split('=', 1) for p in resp.split()[1:])
        slacks = [Fraction(x) for x in kv['slackq'][1:-1].split(',')] + [Fraction(x) for x in kv['slackfov'][1:-1].split(',')]
        if any(0 < sl < Fraction(1, 10 ** 9) for sl in slacks):
            return 'boundary'       # round(q·N) or int(M·fov) decided within float rounding of the boundary
        impl = {'M': '[' + ','.join(map(str, Ms)) + ']', 'Mo': '[' + ','.join(map(str, Mos)) + ']',
                'cutin': fmt_cut(ft.cutout_input), 'cutout': fmt_cut(ft.cutout_output)}
        for k, v in impl.items():
            if kv[k] != v:
                return '%s: implementation %s, model %s' % (k, v, kv[k])
        if Ns != case['N']:
            return 'shape_in %s' % (Ns,)
        dT = [Fraction(x) for x in kv['dT'][1:-1].split(',')]
        zT = [Fraction(x) for x in kv['zeroT'][1:-1].split(',')]
        for d in range(ndim):
            delta_m = float(TWO_PI_LD * LD(dT[d].numerator) / LD(dT[d].denominator))
            zero_m = float(TWO_PI_LD * LD(zT[d].numerator) / LD(zT[d].denominator) + LD(case['shift'][d]))
            if abs(og.delta[d] - delta_m) > 1e-12 * abs(delta_m):
                return 'output delta[%d]: implementation %r, model %r' % (d, float(og.delta[d]), delta_m)
            if abs(og.zero[d] - zero_m) > 1e-10 * (abs(zero_m) + abs(delta_m) * Mos[d]):
                return 'output zero[%d]: implementation %r, model %r' % (d, float(og.zero[d]), zero_m)
        w = float(Fraction(kv['w']))
        if case.get('in_kind') == 'regular-w':
            return None          # per-point weights: the model's weight is the cell area only
        if not np.isscalar(ft.weights) or abs(ft.weights - w) > 1e-12 * abs(w):
            return 'weights: implementation %r, model %r' % (ft.weights, w)
        return None
    reqs.append((line, check_plan, 'plan'))

    dTs = reported_dT(ft, case['delta'])
    if dTs is None:
        reqs.append(('C01 cons 1 1 1 1 2', lambda r: 'reported output spacing is not 2π/(M·δ) for any integer M', 'cons'))
        return reqs
    for d in range(ndim):
        reqs.append(('C01 cons %d %d %d %s %s' % (Ns[d], Ms[d], Mos[d], rat(case['delta'][d]), rat(dTs[d])),
                     (lambda r, d=d: None if r == 'ok 1' else 'reported sizes are not grid-consistent on axis %d: N=%d internal M=%d Mo=%d, Δ·M·δ ≠ 2π' % (
                         d, Ns[d], Ms[d], Mos[d])), 'cons'))
    return reqs


METHOD_OF = {'FastFourierTransform': 'fft', 'MatrixFourierTransform': 'mft', 'NaiveFourierTransform': 'naive', 'raises': 'raises'}


def selection_requests(case, obs):
    """The class make_fourier_transform returned vs the model's decision function.  The planner's
    comparison `fft > mft` is a float decision: the request is sent for both outcomes and the
    implementation's class has to be among the answers; where the code does not consult the planner
    (three dimensions, an output grid that is not an FFT grid) the two answers have to coincide."""
    reqs = []
    ndim = len(case['N'])
    in_kind = case.get('in_kind', 'regular')
    if in_kind == 'explicit' or (case['family'] == 'grid' and case['out']['kind'] == 'explicit'):
        return reqs          # polar / explicitly weighted grids: oracle only
    if in_kind == 'regular-w':
        in_kind = 'regular'
    for name, clsname in sorted(obs.get('auto', {}).items()):
        if name == 'auto-q':
            out = 'none'
        elif case['family'] == 'fft':
            out = 'fftgrid'          # the output grid of a FastFourierTransform on the same input (fft_grid_roundtrip)
        else:
            out = case['out']['kind']    # generic spacing (dyadic, in radians): 2π/(δ·Δ) is irrational, never an FFT grid
        deterministic = ndim > 2 or out not in ('none', 'fftgrid')
        lines = ['C01 select %s 1 %d %s %d' % (in_kind, ndim, out, cheaper) for cheaper in (1, 0)]
        impl = METHOD_OF.get(clsname, clsname)
        detected = obs.get('detected') if name == 'auto-grid' else None

        def chk(rs, impl=impl, out=out, deterministic=deterministic, detected=detected, name=name):
            answers = []
            for r in rs:
                if r.startswith('ok '):
                    answers.append(r[3:])
                elif r == 'err value':
                    answers.append('raises')
                else:
                    return 'model: ' + r
            if deterministic and len(set(answers)) != 1:
                return '%s: the model consults the planner where the code does not (%s)' % (name, answers)
            if impl not in answers:
                return '%s: implementation built %s, model allows %s (input %s, output %s, %d-D)' % (
                    name, impl, sorted(set(answers)), in_kind, out, ndim)
            if detected is not None and detected != (out == 'fftgrid'):
                return '%s: is_fft_grid says %r for an output grid the model classifies as %s' % (name, detected, out)
            return None
        reqs.append((lines, chk, 'select', '%s:%s:%s:%dD->%s' % (name, in_kind, out, ndim, impl)))
    return reqs


def fftparams_requests(case, ft):
    """hcipy.fourier.get_fft_parameters(fft.output_grid, input_grid) per axis vs the exact model."""
    import hcipy
    dTs = reported_dT(ft, case['delta'])
    if dTs is None:
        return []
    ndim = len(case['N'])
    Mos = [int(m) for m in ft.shape_out[::-1]]
    og_delta = np.asarray(ft.output_grid.delta, dtype='float64')
    lines = []
    for d in range(ndim):
        zeroT = -dTs[d] * (Mos[d] // 2)
        lines.append('C01 fftparams %d %s %d %s %s %s' % (case['N'][d], rat(case['delta'][d]), Mos[d], rat(dTs[d]), rat(zeroT), rat(case['shift'][d])))
    try:
        q, fov, shift = hcipy.fourier.get_fft_parameters(ft.output_grid, ft.input_grid)
        q, fov, shift = (np.ones(ndim) * np.asarray(v, dtype='float64') for v in (q, fov, shift))
        err = None
    except ValueError as e:
        err = str(e)

    def chk(rs):
        for d, r in enumerate(rs):
            if err is not None:
                if r != 'err value':
                    return 'get_fft_parameters raised ValueError (%s) on the output grid of a FastFourierTransform, model: %s' % (err, r)
                continue
            if not r.startswith('ok '):
                return 'axis %d: get_fft_parameters returned q=%r fov=%r shift=%r, model: %s' % (d, q[d], fov[d], shift[d], r)
            mq, mfov, mshT, ms = (Fraction(x) for x in r.split()[1:])
            N, Mo = case['N'][d], Mos[d]
            if abs(q[d] - float(mq)) > 1e-9 * max(1.0, abs(float(mq))):
                return 'axis %d: q implementation %r, model %s' % (d, float(q[d]), mq)
            mshift = float(TWO_PI_LD * LD(mshT.numerator) / LD(mshT.denominator) + LD(ms.numerator) / LD(ms.denominator))
            if abs(shift[d] - mshift) > 1e-9 * (abs(mshift) + abs(float(og_delta[d])) * Mo):
                return 'axis %d: shift implementation %r, model %r' % (d, float(shift[d]), mshift)
            M = mq * N
            if M.denominator != 1 or (M * mfov).__floor__() != Mo:
                return 'axis %d: the model parameters q=%s fov=%s do not reproduce Mo=%d' % (d, mq, mfov, Mo)
            if int(np.round(q[d] * N) * fov[d]) != Mo:
                return 'axis %d: the reconstructed q=%r fov=%r give int(round(q N)·fov) = %d points, the grid has %d' % (
                    d, float(q[d]), float(fov[d]), int(np.round(q[d] * N) * fov[d]), Mo)
        return None
    return [(lines, chk, 'fftparams')]


def impulse_requests(case, ft_by_cfg, rng_seed):
    """Modelled pipeline on impulses vs the real forward/backward (scalar complex128 impulses)."""
    import hcipy
    reqs = []
    ft = ft_by_cfg['std']
    ndim = len(case['N'])
    Ms = [int(m) for m in ft.internal_shape[::-1]]
    Mos = [int(m) for m in ft.shape_out[::-1]]
    Ns = [int(n) for n in ft.shape_in[::-1]]
    dTs = reported_dT(ft, case['delta'])
    if dTs is None:
        return reqs
    r = np.random.default_rng(rng_seed)
    j = [int(r.integers(0, n)) for n in Ns]
    k = [int(r.integers(0, n)) for n in Mos]
    for direction, idx, sizes_src in (('fwd', j, Ns), ('bwd', k, Mos)):
        for cfg in ('std', 'emu'):
            f = ft_by_cfg[cfg]
            src_grid = f.input_grid if direction == 'fwd' else f.output_grid
            a = np.zeros(src_grid.size, dtype='complex128')
            flat = 0
            mul = 1
            for d in range(ndim):
                flat += idx[d] * mul
                mul *= sizes_src[d]
            a[flat] = 1.0
            fld = hcipy.Field(a, src_grid)
            try:
                res = np.asarray(f.forward(fld) if direction == 'fwd' else f.backward(fld))
            except Exception as e:  # noqa
                continue     # the oracle reports raising transforms
            lines = []
            for d in range(ndim):
                w = Fraction(1)
                if d == 0:
                    for dd in range(ndim):
                        w *= Fraction(case['delta'][dd])
                lines.append('C01 %%s %s %s %d %d %d %s %s %s %s %s %d' % (
                    direction, cfg, Ns[d], Ms[d], Mos[d], rat(case['delta'][d]), rat(case['zero'][d]), rat(dTs[d]),
                    rat(case['shift'][d]), rat(w), idx[d]))
            reqs.append(([l % 'imp' for l in lines] + [l % 'sum' for l in lines], res, direction, cfg, idx))
    return reqs


def compare_impulse(resps, res, ndim):
    """resps: ndim 'imp' responses then ndim 'sum' responses. Returns None or a detail string."""
    vals = []
    for r in resps:
        if not r.startswith('ok '):
            return 'model: ' + r
        vals.append(np.array([eval_mono(s) for s in r[3:].split(';')], dtype=CLD))
    out = []
    for part in (vals[:ndim], vals[ndim:]):
        arr = part[0]
        for d in range(1, ndim):
            arr = np.multiply.outer(part[d], arr)          # axis order (…, y, x)
        out.append(arr.reshape(-1))
    pipe, summ = out
    if pipe.size != res.size:
        return 'model returns %d samples, implementation %d' % (pipe.size, res.size)
    scale = max(float(np.abs(pipe).max()), 1e-300)
    e1 = float(np.abs(res.astype(CLD) - pipe).max())
    e2 = float(np.abs(summ - pipe).max())
    if not e1 <= 1e-9 * scale:
        return 'implementation differs from the modelled pipeline by %.3g' % e1
    if not e2 <= 1e-12 * scale:
        return 'modelled pipeline differs from the modelled defining sum by %.3g (hypotheses of fast_forward_eq_sum violated)' % e2
    return None


# ---------------------------------------------------------------------------------------------

def case_signature(case, obs):
    ft = obs.get('fft')
    sizes = (tuple(int(v) for v in ft.internal_shape), tuple(int(v) for v in ft.shape_out)) if ft is not None else (case.get('out', {}).get('kind'), case.get('in_kind'))
    return (case['family'], tuple(case['N']), sizes, tuple(case['tensor']), case['dtype'], case['field']['kind'],
            tuple(s != 0 for s in case['shift']))


def count_case(ctx, case, obs):
    ndim = len(case['N'])
    ctx.count('family:' + case['family'])
    ctx.count('ndim:%d' % ndim)
    ctx.count('tensor-rank:%d' % len(case['tensor']))
    ctx.count('dtype:' + case['dtype'])
    ctx.count('field:' + case['field']['kind'])
    if case.get('square'):
        ctx.count('square-grid-with-per-axis-origins:' + case['family'] + (':' + case['out']['kind'] if case['family'] == 'grid' else ''))
    k = case.get('scale_exp', 0)
    ctx.count('input-scale:' + ('1' if k == 0 else ('2^-20..2^-11' if k <= -11 else ('2^-10..2^-1' if k < 0 else ('2^1..2^7' if k < 8 else '2^8..2^14')))))
    if 'seq' in case:
        ctx.count('reuse-sequence-cases')
        ctx.count('reuse-calls', obs.get('reuse_calls', 0))
        for d in range(ndim):
            qf = Fraction(case['q'][d]) * Fraction(case['fov'][d])
            ctx.count('reuse-axis:q=1' if case['q'][d] == 1 else 'reuse-axis:q>1')
            ctx.count('reuse-axis:fov=1' if case['fov'][d] == 1 else ('reuse-axis:fov<1,q·fov<1' if qf < 1 else ('reuse-axis:fov<1,q·fov≈1' if qf < 1 + Fraction(1, 2 * max(1, case['N'][d])) * 2 else 'reuse-axis:fov<1,q·fov>1')))
    ctx.count('fft-backend:' + str(case.get('method')))
    if case['family'] == 'grid':
        o = case['out']
        ctx.count('out-grid:' + (o['kind'] if o['kind'] != 'explicit' else '%s-%s+weights' % (o['system'], o['layout'])))
        ik = case.get('in_kind', 'regular')
        ctx.count('in-grid:' + (ik if ik != 'explicit' else '%s-%s+weights' % (case['in_spec']['system'], case['in_spec']['layout'])))
    elif case.get('in_kind') == 'regular-w':
        ctx.count('in-grid:regular+weights (fft family)')
    ctx.count('transformation-matrix checks', obs.get('matrix_checks', 0))
    for name in obs.get('impls', []):
        ctx.count('impl:' + name)
    ft = obs.get('fft')
    if ft is not None:
        for d in range(ndim):
            N, M, Mo = int(ft.shape_in[::-1][d]), int(ft.internal_shape[::-1][d]), int(ft.shape_out[::-1][d])
            ctx.count('axis:N=1' if N == 1 else ('axis:N-odd' if N % 2 else 'axis:N-even'))
            ctx.count('axis:M-odd' if M % 2 else 'axis:M-even')
            ctx.count('axis:padded' if M > N else 'axis:unpadded')
            ctx.count('axis:cropped' if Mo < M else 'axis:uncropped')
            ctx.count('axis:Mo<N' if Mo < N else 'axis:Mo>=N')
            if Fraction(case['q'][d]) * N * 2 % 2 == 1:
                ctx.count('axis:qN-half-integer')
            if d4_family(N, M):
                ctx.count('axis:d4-family(int(N*q) one short in binary64)')
            ctx.count('axis:shifted' if case['shift'][d] != 0 else 'axis:unshifted')
        if len(set(case['N'])) > 1:
            ctx.count('non-square')


# ---------------------------------------------------------------------------------------------
# make_fourier_transform on grids that only *look like* FFT grids (defect class D63)

EDGE_CASES = [
    {'family': 'select-edge', 'kind': 'polar', 'N': [8, 6], 'delta': [0.25, 0.5], 'zero': [-1.0, -1.5], 'q': 2.0, 'fov': 0.5, 'seed': 11},
    {'family': 'select-edge', 'kind': 'polar', 'N': [5, 7], 'delta': [0.5, 0.25], 'zero': [-1.0, -0.75], 'q': 1.0, 'fov': 1.0, 'seed': 12},
    {'family': 'select-edge', 'kind': 'ndim', 'N': [8, 6], 'delta': [0.25, 0.5], 'zero': [-1.0, -1.5], 'q': 2.0, 'fov': 0.5, 'seed': 13},
    {'family': 'select-edge', 'kind': 'ndim', 'N': [4, 4, 3], 'delta': [0.5, 0.5, 1.0], 'zero': [-1.0, -1.0, -1.0], 'q': 1.0, 'fov': 1.0, 'seed': 14},
]


def edge_case_oracle(case):
    """A regular polar grid with the numbers of an FFT grid, and a regular grid with fewer axes than the
    input: make_fourier_transform must either raise ValueError or return a transform onto the grid that
    was requested (and then evaluate the defining sum there)."""
    import hcipy
    bad = []
    ndim = len(case['N'])
    g = hcipy.CartesianGrid(hcipy.RegularCoords(np.array(case['delta']), np.array(case['N']), np.array(case['zero'])))
    og = hcipy.make_fft_grid(g, case['q'], case['fov'])
    rng = np.random.default_rng(case['seed'])
    f = hcipy.Field(rng.normal(size=g.size) + 1j * rng.normal(size=g.size), g)
    if case['kind'] == 'polar':
        req = hcipy.PolarGrid(hcipy.RegularCoords(og.delta, og.dims, og.zero))
        key = 'selection-noncartesian-fft-grid'
    else:
        req = hcipy.CartesianGrid(hcipy.RegularCoords(og.delta[:1], og.dims[:1], og.zero[:1]))
        key = 'selection-ndim-mismatch'
    try:
        ft = hcipy.make_fourier_transform(g, req)
    except ValueError:
        return bad
    except Exception as e:  # noqa
        return [(key, 'make_fourier_transform raised %s: %s' % (type(e).__name__, e))]
    og2 = ft.output_grid
    same = og2 is req or (og2.ndim == req.ndim and og2.size == req.size and type(og2) is type(req)
                          and np.allclose(np.array(og2.coords), np.array(req.coords), rtol=1e-12, atol=1e-12))
    if not same:
        return [(key, 'make_fourier_transform(%d-D Cartesian grid, %s) returned a %s onto a %s with %d axes and %d points instead of the requested grid (%d axes, %d points)' % (
            ndim, type(req).__name__ + (' with FFT-grid numbers' if case['kind'] == 'polar' else ' with fewer axes'), type(ft).__name__,
            type(og2).__name__, og2.ndim, og2.size, req.ndim, req.size))]
    if req.ndim == ndim:
        cart = req.as_('cartesian')
        o_full = [np.asarray(c, dtype=LD) for c in cart.coords]
        in_sep = [LD(case['zero'][d]) + LD(case['delta'][d]) * np.arange(case['N'][d], dtype=LD) for d in range(ndim)]
        w = LD(1)
        for dl in case['delta']:
            w = w * LD(dl)
        ref = ref_sum(None, full_coords(in_sep), w, None, o_full, np.asarray(f).reshape(1, -1), -1, ndim)
        res = np.asarray(ft.forward(f)).reshape(1, -1)
        err = float(np.abs(res.astype(CLD) - ref).max())
        if not err <= 1e-9 * ref_scale(ref, f, w):
            bad.append((key, '%s.forward on the requested grid differs from the defining sum by %.3g' % (type(ft).__name__, err)))
    return bad


def run(ctx, prop='C01'):
    ctx.rule = ('grid pairs and fields from VERIF_SEED: directed corpus first (N=87,q=2.5; size-1 axes; 3-D; tensor fields), then random '
                'cases: 1-3 dimensions, sizes from {1,2,3,4,5,7,8,9,16,17,31,64,87,101} or uniform, dyadic spacings/offsets/shifts, '
                'q in [1,5) dyadic / exact half-integer q·N / M/N / the family where int(N·q) is one short in binary64, fov dyadic or '
                '(Mo+1/2)/M, scalar and tensor fields, complex64/128, impulses / edge-concentrated / random fields, FFT back ends; '
                '30 % of the cases use an arbitrary regular, separated or unstructured output grid (and separated/unstructured input). '
                'Every applicable implementation (FFT both shift settings and the configured one, MFT switches, NFT both, Zoom, '
                'make_fourier_transform by parameters and by grid) is compared, forward and backward, with the defining sum evaluated '
                'in longdouble. Correspondence: reported sizes/cut-outs/output grid/weights vs the model plan, grid consistency of the '
                'reported sizes, modelled pipeline on impulses vs the real transform (both settings, both directions); the class '
                'make_fourier_transform returns vs the model decision (both planner outcomes where the planner is consulted, equality '
                'elsewhere) and get_fft_parameters on the FFT output grid vs the exact per-axis model. '
                'Non-trivial = more than one input sample; distinct by (family, sizes, tensor shape, dtype, field kind, shifted axes).')
    ctx.assumptions += ['numpy/scipy fftn/ifftn compute the DFT / inverse DFT with 1/M normalisation; fftshift/ifftshift roll by ±(M//2)',
                        'BLAS gemm and np.dot compute matrix products', 'x86 longdouble (64-bit mantissa) reference sums are exact to 1e-15 relative',
                        'the dyadic grid parameters generated are exactly representable, so the model sees the rationals the code sees']
    thorough = ctx.tier == 'thorough'
    n = ctx.scale(110, 800)
    cases = [dict(c) for c in DIRECTED]
    for i in range(n):
        cases.append(gen_case(ctx.rng, big=thorough and i % 4 == 0))
    nseq = ctx.scale(45, 400)
    for i in range(nseq):
        cases.append(gen_seq_case(ctx.rng, big=thorough))
    cases += [dict(c) for c in DIRECTED_SEQ]
    for ec in EDGE_CASES:
        for key, what in edge_case_oracle(ec):
            ctx.violation(key, what, ec)
        ctx.count('select-edge:' + ec['kind'])
        ctx.case(None, ('select-edge', ec['kind'], tuple(ec['N'])))
    lines = []
    checks = []
    worst = {}
    for ci, case in enumerate(cases):
        bad, obs = oracle_case(case, thorough and ci % 5 == 0)
        for key, what in bad:
            ctx.violation(key, what, case)
        for k, v in obs.get('maxerr', {}).items():
            worst[k] = max(worst.get(k, 0.0), v)
        count_case(ctx, case, obs)
        size = int(np.prod(case['N']))
        ctx.case({k: case[k] for k in ('family', 'N', 'q', 'fov', 'shift', 'tensor', 'dtype')}, case_signature(case, obs) if size > 1 else None)
        ft = obs.get('fft')
        for ls, chk, stream, label in selection_requests(case, obs):
            ctx.count('select:' + label)
            checks.append((len(lines), len(ls), chk, case, stream))
            lines += ls
        if ft is not None and case['family'] == 'fft':
            import hcipy
            for line, chk, stream in correspondence_requests(case, ft):
                checks.append((len(lines), 0, chk, case, stream))
                lines.append(line)
            for ls, chk, stream in fftparams_requests(case, ft):
                checks.append((len(lines), len(ls), chk, case, stream))
                lines += ls
            if int(np.prod(ft.internal_shape)) <= (400000 if thorough else 60000) and case.get('in_kind') != 'regular-w':
                q, fov, shift = np.array(case['q']), np.array(case['fov']), np.array(case['shift'])
                try:
                    emu = hcipy.FastFourierTransform(make_in_grid(case), q, fov, shift, emulate_fftshifts=True)
                except Exception:  # noqa
                    emu = None
                if emu is not None:
                    for ls, res, direction, cfg, idx in impulse_requests(case, {'std': ft, 'emu': emu}, case['gseed']):
                        checks.append((len(lines), len(ls), (lambda rs, res=res, nd=len(case['N']): compare_impulse(rs, res, nd)), case,
                                       'impulse %s %s %s' % (direction, cfg, idx)))
                        lines += ls
    out = ctx.model(lines)
    for start, cnt, chk, case, stream in checks:
        detail = chk(out[start]) if cnt == 0 else chk(out[start:start + cnt])
        ctx.traces_validated += 1
        if detail == 'boundary':
            ctx.boundary_skipped += 1
        elif detail is not None:
            key = 'fft-grid-inconsistent' if (stream == 'cons' or 'output delta' in detail or detail.startswith('M:') or detail.startswith('Mo:')
                                              or detail.startswith('cut')) else None
            ctx.disagree('C01 ' + stream, {'case': case, 'detail': detail}, key=None if key is None else None)
    ctx.extra['max_relative_error_vs_defining_sum'] = worst
    if prop == 'C01':
        from harness.props import c01_ties
        k = ctx.scale(1, 6)
        c01_ties.run_ties(ctx, {'tie-mft': 25 * k, 'tie-czt': 25 * k, 'tie-zoom': 20 * k, 'tie-zoomaxes': 12 * k, 'tie-state': 25 * k,
                                'tie-lit': 16 * k, 'tie-select': 40 * k, 'tie-roundtrip': 40 * k, 'tie-fftw': 16 * k, 'tie-nft': 20 * k, 'tie-mux': 20 * k, 'tie-mftstate': 25 * k, 'tie-scale': 30 * k})
    if ctx.boundary_skipped > 0.05 * max(1, ctx.traces_validated):
        raise MachineryError('more than 5 % of the correspondence cases were skipped at a float decision boundary')


def replay(ctx, case):
    if str(case.get('family', '')).startswith('tie-'):
        from harness.props import c01_ties
        return c01_ties.replay_case(ctx, case)
    if case.get('family') == 'select-edge':
        bad = edge_case_oracle(case)
    else:
        bad, obs = oracle_case(case, thorough=True)
    for key, what in bad:
        print('  fails:', key, '-', what)
    return not bad
