"""C15 — turbulence layers: replay after reset, rigid translation with the wind, 1/lambda and sqrt(Cn^2).

Three families of cases, each run on the real code, judged by an oracle that compares *screens with
screens* (independent of the Lean model), and mirrored in the model, which receives only the
bookkeeping (shape, pixel size, velocity, times, resets):

* ``finite``   FiniteAtmosphericLayer histories (evolve / t-setter / reset / read)
* ``infinite`` InfiniteAtmosphericLayer histories (same operations, backwards evolution refused)
* ``noise``    SpectralNoiseFactoryFFT / SpectralNoiseFactoryMultiscale: ``shifted(s)`` of a realisation
"""
import copy
import warnings

import numpy as np

from harness.common import rat, rat_list, parse_rat_list, Fraction, MachineryError
from harness.props import c15_atmos

TOL = 1e-9
WHERE_CODE = {'left': 1, 'right': 2, 'top': 3, 'bottom': 4}


# ---------------------------------------------------------------------------------------------
# helpers

def mkgrid(nx, ny, dx, dy):
    import hcipy
    return hcipy.make_uniform_grid([nx, ny], [nx * dx, ny * dy])


def overlap_err(new, old, a, b):
    """max |new[iy, ix] - old[iy - b, ix - a]| over the overlap (None if it is empty)."""
    H, W = old.shape
    if abs(a) >= W or abs(b) >= H:
        return None
    A = new[max(b, 0):H + min(b, 0), max(a, 0):W + min(a, 0)]
    B = old[max(-b, 0):H + min(-b, 0), max(-a, 0):W + min(-a, 0)]
    return float(np.abs(A - B).max())


def is_int(x):
    return float(x) == round(float(x))


def rng_state(g):
    s = g.bit_generator.state
    return (s['state']['state'], s['state']['inc'], s.get('has_uint32'), s.get('uinteger'))


def same_stream(a, b):
    """two Generator objects that draw from one stream: the same object, or wrappers of one BitGenerator"""
    return a is b or a.bit_generator is b.bit_generator


def classes(seq):
    """first-occurrence labels of a sequence of hashables"""
    seen = {}
    return [seen.setdefault(x, len(seen)) for x in seq]


_PATCHED = []
CDRAW_STRIDE = 10 ** 15 + 37     # the model's count for one number drawn by the caller (keeps stream positions apart)


AFFINE_CALLS = []


def patch_affine():
    """record the arguments of every `affine_transform` call the infinite layer makes (the sub-pixel read-out request)"""
    import hcipy.atmosphere.infinite_atmospheric_layer as mod
    if getattr(mod.affine_transform, '_verif', False):
        return
    orig = mod.affine_transform

    def rec(input, matrix, offset=0.0, *a, **kw):
        try:
            AFFINE_CALLS.append({'matrix': [float(x) for x in np.asarray(matrix).ravel()], 'offset': [float(x) for x in np.asarray(offset).ravel()],
                                 'mode': kw.get('mode'), 'order': kw.get('order'), 'shape': tuple(np.asarray(input).shape), 'extra': len(a)})
        except Exception as e:  # noqa
            AFFINE_CALLS.append({'error': '%s: %s' % (type(e).__name__, e)})
        return orig(input, matrix, offset, *a, **kw)
    rec._verif = True
    mod.affine_transform = rec


def patch_make_noise():
    """record, at class level (the constructor already calls it), the generator state `_make_noise` draws from and the
    parameters it uses: the observable behind the model's `noise=` / `npar=`"""
    import hcipy
    cls = hcipy.FiniteAtmosphericLayer
    if _PATCHED and _PATCHED[0] is cls:
        return
    orig = cls._make_noise

    def _make_noise(self):
        self._verif_noise = (rng_state(self.rng), float(self.Cn_squared), float(self.L0))
        self._verif_draws = getattr(self, '_verif_draws', 0) + 1
        return orig(self)
    cls._make_noise = _make_noise
    _PATCHED[:] = [cls]


def make_layer(case, cn2=None, grid=None, vel=None, L0=None):
    import hcipy
    patch_make_noise()
    g = grid if grid is not None else mkgrid(case['nx'], case['ny'], case['dx'], case['dy'])
    v = np.array(case['vel'] if vel is None else vel, dtype=float)
    c = case['cn2'] if cn2 is None else cn2
    l0 = case['L0'] if L0 is None else L0
    seed = case['seed']
    gen = None
    if case.get('seedobj') == 'bitgen':
        # the caller passes a BitGenerator and keeps drawing from it through its own Generator
        seed = np.random.PCG64(case['seed'])
        gen = np.random.Generator(seed)
    elif case.get('seedobj'):
        # the caller passes a Generator object and keeps it (ops ['cdraw', n] draw from it)
        seed = gen = np.random.default_rng(case['seed'])
    # constructor arguments the cases vary (absent = the default is left to the code)
    kw = {}
    if case.get('height') is not None:
        kw['height'] = case['height']
    if case['kind'] == 'finite':
        if case.get('oversampling') is not None:
            kw['oversampling'] = case['oversampling']
        layer = hcipy.FiniteAtmosphericLayer(g, c, l0, v, seed=seed, **kw)
    else:
        if case.get('stencil_length') is not None:
            kw['stencil_length'] = case['stencil_length']
        layer = hcipy.InfiniteAtmosphericLayer(g, c, l0, v, use_interpolation=bool(case['interp']), seed=seed, **kw)
    layer._verif_gen = gen
    layer._verif_shared = gen is not None and same_stream(layer._original_rng, gen)
    return layer


# ---------------------------------------------------------------------------------------------
# the real code: run one history, record observations after every operation

SET_OPS = ('setcn2', 'setcn2m', 'setl0', 'setvel')


def run_layer(case, layer, k=1.0):
    """ops: ['evolve', t] | ['sett', t] | ['reset', indep] | ['reset', False, 'none'] (infinite layer: evolve_until(None)) |
    ['read', wavelength] |
    ['setcn2', c] | ['setcn2m', total] (through MultiLayerAtmosphere.Cn_squared) | ['setvel', [vx, vy]] |
    ['setl0', l, route] with route 'L0' (layer.L0 = l), 'outer_scale' (layer.outer_scale = l) or 'multi'
    (MultiLayerAtmosphere.outer_scale = l).
    `k`: this is the twin layer whose strength is k^2 times the strength of the case."""
    import hcipy
    ext = []
    if case['kind'] == 'infinite':
        orig_extrude = layer._extrude

        arcap = []

        def rec(where=None):
            ext.append(where)
            if not case.get('ar') or len(arcap) >= 3 or k != 1.0:
                return orig_extrude(where)
            # numeric data of this extrusion, for the model's `arExtrude` (the normals: same state, same call)
            horizontal = where in ('left', 'right')
            A, B = (layer.A_horizontal, layer.B_horizontal) if horizontal else (layer.A_vertical, layer.B_vertical)
            stencil = layer.stencil_left if horizontal else layer.stencil_bottom
            cap = {'w': where, 'before': np.array(layer._achromatic_screen, dtype=float), 'A': np.array(A), 'B': np.array(B),
                   'idx': [int(i) for i in np.flatnonzero(stencil)], 'amp': float(np.sqrt(layer._Cn_squared)),
                   'rnd': copy.deepcopy(layer.rng).normal(0, 1, size=B.shape[1])}
            r = orig_extrude(where)
            cap['after'] = np.array(layer._achromatic_screen, dtype=float)
            arcap.append(cap)
            arnew.append(cap)
            return r
        layer._extrude = rec
    atm = None
    obs = []
    arnew = []
    try:
        patch_affine()
        affine_ok = True
    except Exception:  # noqa
        affine_ok = False
    for op in case['ops']:
        o = {'op': op, 'status': 'ok'}
        del ext[:]
        del arnew[:]
        del AFFINE_CALLS[:]
        try:
            if op[0] == 'evolve':
                layer.evolve_until(op[1])
            elif op[0] == 'sett':
                layer.t = op[1]
            elif op[0] == 'reset':
                if len(op) > 2 and op[2] == 'none':
                    layer.evolve_until(None)        # infinite layer: documented nowhere, implemented as reset()
                else:
                    layer.reset(make_independent_realization=bool(op[1]))
            elif op[0] == 'read':
                o['phase'] = np.array(layer.phase_for(op[1]).shaped, dtype=float)
                o['phase1'] = np.array(layer.phase_for(1).shaped, dtype=float)
            elif op[0] == 'setcn2':
                layer.Cn_squared = op[1] * k * k
            elif op[0] == 'setcn2m':
                if atm is None:
                    other = hcipy.FiniteAtmosphericLayer(layer.input_grid, 3.0 * 2.0 ** -42 * k * k, 10.0, 0, seed=1)
                    atm = hcipy.MultiLayerAtmosphere([layer, other])
                atm.Cn_squared = op[1] * k * k
            elif op[0] == 'setl0':
                route = op[2] if len(op) > 2 else 'L0'
                if route == 'L0':
                    layer.L0 = op[1]
                elif route == 'outer_scale':
                    layer.outer_scale = op[1]
                else:
                    if atm is None:
                        other = hcipy.FiniteAtmosphericLayer(layer.input_grid, 3.0 * 2.0 ** -42 * k * k, 10.0, 0, seed=1)
                        atm = hcipy.MultiLayerAtmosphere([layer, other])
                    atm.outer_scale = op[1]
            elif op[0] == 'setvel':
                layer.velocity = np.array(op[1], dtype=float)
            elif op[0] == 'cdraw':
                layer._verif_gen.normal(size=int(op[1]))
            else:
                raise MachineryError('unknown op %r' % (op,))
        except ValueError:
            o['status'] = 'value'
        except MachineryError:
            raise
        except Exception as e:  # noqa
            o['status'] = 'other:' + type(e).__name__ + ':' + str(e)[:80]
        o['center'] = [float(x) for x in np.asarray(layer.center).ravel()]
        o['t'] = float(layer.t)
        o['rng'] = rng_state(layer.rng)
        o['orig'] = rng_state(layer._original_rng)
        o['ext'] = list(ext)
        o['ar'] = list(arnew)
        o['req'] = list(AFFINE_CALLS) if affine_ok else None
        o['cn2'] = float(layer.Cn_squared)
        o['L0'] = float(layer.L0)
        o['vel'] = [float(x) for x in np.asarray(layer.velocity).ravel()]
        gen = getattr(layer, '_verif_gen', None)
        o['caller'] = rng_state(gen) if gen is not None else None
        o['shared'] = bool(getattr(layer, '_verif_shared', False))
        o['al'] = '%d%d%d' % (same_stream(layer.rng, layer._original_rng), gen is not None and same_stream(layer._original_rng, gen),
                              gen is not None and same_stream(layer.rng, gen))
        if case['kind'] == 'finite':
            o['noise'] = layer._verif_noise
            o['draws'] = layer._verif_draws
            o['valid'] = layer._noise is not None
            o['cache'] = layer._achromatic_screen is not None
        if case['kind'] == 'infinite' and not (op[0] in ('evolve', 'sett') and len(op) > 2 and op[2] == 'q'):
            o['raw'] = np.array(layer._achromatic_screen, dtype=float)
        obs.append(o)
    return obs


# ---------------------------------------------------------------------------------------------
# the property, evaluated on the observations (independent of the model)

class Oracle:
    def __init__(self, case):
        self.case = case
        self.bad = []
        self.kind = case['kind']
        self.pre = 'fin' if self.kind == 'finite' else 'inf'
        self.counts = {}
        self._fresh = {}
        self.cdrawn = False

    def fail(self, clause, what):
        if self.cdrawn:
            # everything that goes wrong after the caller drew from the Generator it passed as seed is one finding
            what = 'the caller passed a Generator object as seed and drew from it afterwards; then [%s] %s' % (clause, what)
            clause = 'caller-generator'
        key = '%s-%s' % (self.pre, clause)
        if not any(k == key for k, _ in self.bad):
            self.bad.append((key, what))

    def cnt(self, k):
        self.counts[k] = self.counts.get(k, 0) + 1

    def wind_class(self):
        vx, vy = self.case['vel']
        if vx == 0 and vy == 0:
            return 'still'
        if vy == 0:
            return 'along-x'
        if vx == 0:
            return 'along-y'
        if abs(vx / self.case['dx']) == abs(vy / self.case['dy']):
            return 'diagonal'
        return 'oblique'

    def shape_class(self):
        return 'square' if self.case['nx'] == self.case['ny'] else 'non-square'

    # reference: a freshly built layer with the same seed (and the parameters in force), driven through a time sequence
    def fresh_screen(self, seq, par=None):
        seq = tuple(seq)
        par = par if par is not None else (self.case['cn2'], self.case['L0'], tuple(self.case['vel']))
        key = (par, seq)
        if key in self._fresh:
            return self._fresh[key]
        if self.kind == 'finite':
            L = make_layer(self.case, cn2=par[0], L0=par[1], vel=par[2])
            if seq:
                L.evolve_until(seq[-1])
        else:
            # one never-reset reference layer per parameter set; continued when the sequence extends the previous one
            L, done = self._shadow.get(par, (None, None))
            if L is None or tuple(seq[:len(done)]) != done:
                L, done = make_layer(self.case, cn2=par[0], L0=par[1], vel=par[2]), ()
            for t in seq[len(done):]:
                L.evolve_until(t)
            self._shadow[par] = (L, seq)
        self._fresh[key] = np.array(L.phase_for(1).shaped, dtype=float)
        return self._fresh[key]

    def check(self, obs, twin_obs, k):
        case = self.case
        dx, dy = case['dx'], case['dy']
        self._shadow = {}
        par = (case['cn2'], case['L0'], tuple(case['vel']))      # parameters in force since the last reset
        cur = par                                                 # parameters stored in the layer now
        other_c = 3.0 * 2.0 ** -42                                # the second layer of the MultiLayerAtmosphere
        vx, vy = par[2]
        clock = 0.0
        real = 0          # realisation number: 0 = the one of the seed
        seq = []          # evolve times since the last reset
        seen = {}         # (realisation, seq, L0, velocity) -> [(Cn^2, screen)]
        seg_reads = []    # reads of the current segment: (clock, phase1)
        moved_since_set = True   # finite layer: an evolve_until happened after the last parameter change
        where = '%s %s wind' % (self.shape_class(), self.wind_class())
        for i, o in enumerate(obs):
            op = o['op']
            if op[0] in ('evolve', 'sett'):
                if self.kind == 'infinite' and op[1] < clock:
                    if o['status'] != 'value':
                        self.fail('backwards-not-refused', 'evolve_until(%r) at t=%r was not refused' % (op[1], clock))
                    self.cnt('backwards refused')
                else:
                    if o['status'] != 'ok':
                        self.fail('raises', '%s(%r) raised %s on a %s layer' % (op[0], op[1], o['status'], where))
                        return
                    if float(op[1]) == clock:
                        self.cnt('evolve_until(t) with t = the current time%s' % (
                            ' right after a parameter change' if not moved_since_set else ' right after reset' if not seq else ''))
                    clock = float(op[1])
                    seq.append(clock)
                    moved_since_set = True
            elif op[0] == 'cdraw':
                self.cdrawn = True
                self.cnt('caller draws from its generator')
            elif op[0] == 'reset':
                if o['status'] != 'ok':
                    self.fail('raises', 'reset raised %s' % o['status'])
                    return
                clock = 0.0
                seq = []
                seg_reads = []
                par = cur
                vx, vy = par[2]
                if op[1]:
                    real += 1
            elif op[0] in SET_OPS:
                if o['status'] != 'ok':
                    route = op[2] if op[0] == 'setl0' and len(op) > 2 else ''
                    self.fail('setter-raises-outer-scale' if route in ('outer_scale', 'multi') else 'setter-raises',
                              '%s (%s) raised %s' % (op[0], {'outer_scale': 'layer.outer_scale = x', 'multi': 'MultiLayerAtmosphere.outer_scale = x'}.get(route, 'attribute'), o['status']))
                    if (o['cn2'], o['L0'], tuple(o['vel'])) != cur:
                        self.fail('setter', 'a setter that raised nevertheless changed the layer')
                        return
                    continue
                want = ((op[1], cur[1], cur[2]) if op[0] == 'setcn2' else (cur[0], op[1], cur[2]) if op[0] == 'setl0' else
                        (cur[0], cur[1], tuple(op[1])) if op[0] == 'setvel' else (o['cn2'], cur[1], cur[2]))
                if (o['cn2'], o['L0'], tuple(o['vel'])) != want:
                    self.fail('setter', 'after %r the layer reports Cn^2=%r L0=%r velocity=%r' % (op, o['cn2'], o['L0'], o['vel']))
                if op[0] == 'setcn2m':
                    total = cur[0] + other_c
                    if not abs(o['cn2'] - cur[0] * op[1] / total) <= 1e-12 * o['cn2']:
                        self.fail('setter', 'MultiLayerAtmosphere.Cn_squared = %r did not rescale the layer in proportion (got %r)' % (op[1], o['cn2']))
                    other_c = other_c * op[1] / total
                cur = want
                moved_since_set = False
                self.cnt('setter %s' % op[0])
            if o['t'] != clock:
                self.fail('clock', 'after %r the layer reports t=%r, expected %r' % (op, o['t'], clock))
            if op[0] != 'read':
                continue
            if o['status'] != 'ok':
                self.fail('raises', 'phase_for raised %s on a %s layer' % (o['status'], where))
                return
            pend = False
            if cur != par:
                if self.kind == 'finite' and moved_since_set and real == 0:
                    # a parameter was changed on the running layer and the layer was evolved since: the finite layer
                    # re-draws the same realisation with the new parameters without rewinding, so it shows what a layer
                    # freshly built with the current parameters shows at this time
                    ref = self.fresh_screen(seq, cur)
                    if not np.array_equal(ref, o['phase1']):
                        self.fail('live-setter', 'after a parameter change on the running layer (no reset) and evolve_until(%r) the screen '
                                  'differs from the screen of a freshly built layer with the same seed and the current parameters at that '
                                  'time (max dev %.3g)' % (clock, np.abs(ref - o['phase1']).max()))
                    self.cnt('read after a live parameter change vs fresh layer')
                    continue
                elif self.kind == 'infinite' and cur[2] == par[2]:
                    # Cn^2 / L0 changed on the running infinite layer: the screen stays, later rows/columns use the new
                    # values.  No fresh-layer reference exists, but the screen still moves rigidly, scales with 1/lambda,
                    # and the twin layer (k^2 Cn^2 throughout, same changes) shows k times the phase.
                    pend = True
                    self.cnt('read with a live parameter change on the infinite layer (translation, 1/lambda, strength judged)')
                else:
                    self.cnt('read with a parameter change pending (not judged)')
                    continue
            lam = float(op[1])
            s1 = o['phase1']
            scale = max(float(np.abs(s1).max()), 1e-300)
            # --- 1/wavelength
            if np.abs(o['phase'] * lam - s1).max() > 1e-12 * scale:
                self.fail('wavelength', 'phase_for(%r) * %r differs from phase_for(1)' % (lam, lam))
            self.cnt('reads')
            # --- sqrt(strength): same history on a layer with k^2 times the Cn^2
            if twin_obs is not None:
                tw = twin_obs[i]['phase1']
                if np.abs(tw - k * s1).max() > TOL * k * scale:
                    self.fail('strength', 'layer with %g x Cn^2 is not %g x the phase (max dev %.3g of %.3g)' % (
                        k * k, k, np.abs(tw - k * s1).max(), scale))
            if not pend:
                # --- replay: same realisation + same parameters + same sequence of times => the same screen, bit for bit;
                #     the same with another Cn^2 => the screen times sqrt(Cn^2 ratio)
                seqkey = tuple(seq) if self.kind == 'infinite' else (clock,)
                if real == 0:
                    ref = self.fresh_screen(seq, par)
                    if not np.array_equal(ref, s1):
                        nres = sum(1 for q in obs[:i] if q['op'][0] == 'reset')
                        nset = sum(1 for q in obs[:i] if q['op'][0] in SET_OPS)
                        self.fail('replay-after-setter' if nset else 'replay',
                                  'screen at t=%r after %d reset(s) and %d parameter change(s) differs from the screen of a freshly built '
                                  'layer with the same seed and the current parameters at that time (max dev %.3g of %.3g)' % (
                                      clock, nres, nset, np.abs(ref - s1).max(), scale))
                    self.cnt('replay vs fresh layer')
                key = (real, seqkey, par[1], par[2])
                fresh_key = True
                for (c0, scr) in seen.get(key, []):
                    fresh_key = False
                    if c0 == par[0]:
                        if not np.array_equal(scr, s1):
                            self.fail('replay', 'same realisation, same evolution times %r, different screen' % (seqkey[-3:],))
                        self.cnt('replay vs earlier run')
                        break
                    r = np.sqrt(par[0] / c0)
                    if np.abs(s1 - r * scr).max() > TOL * scale:
                        self.fail('strength-setter', 'after Cn_squared was changed from %r to %r and reset(), the replayed screen at t=%r is not '
                                  'sqrt(ratio) = %.6g times the earlier one (max dev %.3g of %.3g)' % (c0, par[0], clock, r, np.abs(s1 - r * scr).max(), scale))
                    self.cnt('sqrt(Cn^2 new / Cn^2 old) vs earlier run')
                else:
                    if fresh_key:
                        for (r2, s2, l2, v2), lst in seen.items():
                            if r2 != real and s2 == seqkey and l2 == par[1] and v2 == par[2] and any(
                                    c0 == par[0] and np.abs(scr - s1).max() < 1e-3 * scale for c0, scr in lst):
                                self.fail('independent', 'reset(make_independent_realization=True) reproduced the previous realisation')
                    seen.setdefault(key, []).append((par[0], s1))
            # --- rigid translation with the wind
            cx, cy = vx * clock, vy * clock
            pairs = []
            if self.kind == 'finite' and real == 0:
                pairs.append((0.0, self.fresh_screen((), par)))
            pairs += seg_reads[:1] + seg_reads[-1:]
            for (t0, s0) in pairs:
                if t0 == clock:
                    continue
                px, py = vx * (clock - t0) / dx, vy * (clock - t0) / dy
                aligned = is_int(vx * t0 / dx) and is_int(vy * t0 / dy) if self.kind == 'infinite' else True
                if is_int(px) and is_int(py) and aligned:
                    e = overlap_err(s1, s0, int(px), int(py))
                    if e is None:
                        self.cnt('translation: no overlap')
                        continue
                    exact = self.kind == 'infinite' and not case['interp']
                    if (e != 0.0) if exact else (e > TOL * scale):
                        self.fail('translate-whole-pixel',
                                  '%s: screen at t=%r is not the screen at t=%r moved by (%d, %d) px = velocity*dt (max dev %.3g of %.3g)' % (
                                      where, clock, t0, int(px), int(py), e, scale))
                    self.cnt('translation whole-pixel checked')
                elif self.kind == 'infinite' and not case['interp']:
                    # no interpolation: the screen sits on the nearest pixel, so it moved by whole pixels within
                    # one pixel of velocity*dt
                    cands = [(a, b) for a in range(int(np.floor(px)) - 1, int(np.ceil(px)) + 2)
                             for b in range(int(np.floor(py)) - 1, int(np.ceil(py)) + 2)
                             if abs(a - px) <= 1 and abs(b - py) <= 1]
                    errs = [overlap_err(s1, s0, a, b) for a, b in cands]
                    if any(e is None for e in errs):
                        self.cnt('translation: no overlap')
                        continue
                    if not any(e == 0.0 for e in errs if e is not None):
                        self.fail('translate-nearest-pixel',
                                  'screen at t=%r is no whole-pixel translate of the screen at t=%r within one pixel of velocity*dt = (%.3g, %.3g) px' % (
                                      clock, t0, px, py))
                    self.cnt('translation nearest-pixel checked')
                elif self.kind == 'infinite':
                    # interpolated read-out: the direction must be the one of the wind
                    self.subpixel_direction(s1, s0, px, py, clock, t0, where, scale)
            if self.kind == 'finite' and real == 0 and (cx != 0 or cy != 0):
                # any displacement: the same seed on a grid displaced by -velocity*t shows orig(x - v t) at t=0
                g2 = mkgrid(case['nx'], case['ny'], dx, dy).shifted(-np.array([cx, cy]))
                L2 = make_layer(case, grid=g2, vel=[0.0, 0.0], cn2=par[0], L0=par[1])
                ref = np.array(L2.phase_for(1).shaped, dtype=float)
                e = float(np.abs(ref - s1).max())
                if e > TOL * scale:
                    self.fail('translate-any',
                              'screen at t=%r differs from the t=0 screen evaluated at x - velocity*t, displacement (%.4g, %.4g) px (max dev %.3g of %.3g)' % (
                                  clock, cx / dx, cy / dy, e, scale))
                self.cnt('translation vs displaced grid checked')
            seg_reads.append((clock, s1))

    def subpixel_direction(self, s1, s0, px, py, clock, t0, where, scale):
        from scipy.ndimage import map_coordinates
        H, W = s0.shape
        m = int(np.ceil(max(abs(px), abs(py)))) + 2
        # needs a displacement of at least half a pixel and a dozen interior samples to be decisive
        if H - 2 * m < 2 or W - 2 * m < 2 or (H - 2 * m) * (W - 2 * m) < 12 or max(abs(px), abs(py)) < 0.5:
            return
        iy, ix = np.mgrid[m:H - m, m:W - m]
        plus = map_coordinates(s0, [iy - py, ix - px], order=1)
        minus = map_coordinates(s0, [iy + py, ix + px], order=1)
        inner = s1[m:H - m, m:W - m]
        ep, em = float(np.sqrt(np.mean((inner - plus) ** 2))), float(np.sqrt(np.mean((inner - minus) ** 2)))
        self.cnt('translation sub-pixel direction checked')
        if em < 0.8 * ep:
            self.fail('translate-subpixel-direction',
                      'interpolated screen at t=%r is closer to the t=%r screen moved by -velocity*dt than by +velocity*dt (%.3g vs %.3g)' % (
                          clock, t0, em, ep))


def judge(case):
    """run the case on the real code; returns (bad, obs, counts)"""
    with warnings.catch_warnings():
        warnings.simplefilter('ignore')
        layer = make_layer(case)
        obs = run_layer(case, layer)
        k = float(case.get('k', 0) or 0)
        twin_obs = None
        if k:
            twin_obs = run_layer(case, make_layer(case, cn2=case['cn2'] * k * k), k=k)
        orc = Oracle(case)
        orc.check(obs, twin_obs, k)
    return orc.bad, obs, orc.counts


# ---------------------------------------------------------------------------------------------
# model side of a layer history

def layer_lines(case, obs, layer=None):
    heap = bool(case.get('heap'))
    p = ('C15 hfin' if heap else 'C15 fin') if case['kind'] == 'finite' else ('C15 hinf' if heap else 'C15 inf')
    kind = ''
    if heap:
        # which constructor ran is observed (`_original_rng is gen`), like the value a float setter ended up with
        kind = ' int' if not case.get('seedobj') else ' genshared' if obs and obs[0].get('shared') else ' gen'
    if case['kind'] == 'finite':
        lines = ['%s new%s %d %d %s %s %s %s %d' % (p, kind, case['nx'], case['ny'], rat(case['vel'][0]), rat(case['vel'][1]),
                                                   rat(case['cn2']), rat(case['L0']), case['seed'])]
    else:
        lines = ['%s new%s %d %d %s %s %s %s %s %s %d' % (p, kind, case['nx'], case['ny'], rat(case['dx']), rat(case['dy']),
                                                         rat(case['vel'][0]), rat(case['vel'][1]), rat(case['cn2']),
                                                         rat(case['L0']), case['seed'])]
    idx = []
    for op, o in zip(case['ops'], obs):
        if op[0] in ('evolve', 'sett'):
            quiet = case['kind'] == 'infinite' and len(op) > 2 and op[2] == 'q'
            idx.append(len(lines)); lines.append('%s %s %s' % (p, 'evolveq' if quiet else 'evolve', rat(op[1])))
        elif op[0] == 'reset':
            idx.append(len(lines)); lines.append('%s reset %d' % (p, 1 if op[1] else 0))
        elif op[0] in SET_OPS and o['status'] != 'ok':
            idx.append(None)        # refused by the implementation (reported by the oracle): the layer is unchanged
        elif op[0] == 'setcn2':
            idx.append(len(lines)); lines.append('%s setcn2 %s' % (p, rat(op[1])))
        elif op[0] == 'setcn2m':
            # MultiLayerAtmosphere rescales in floating point: the model is told the value the layer ended up with
            idx.append(len(lines)); lines.append('%s setcn2 %s' % (p, rat(o['cn2'])))
        elif op[0] == 'setl0':
            idx.append(len(lines)); lines.append('%s setl0 %s' % (p, rat(op[1])))
        elif op[0] == 'setvel':
            idx.append(len(lines)); lines.append('%s setvel %s %s' % (p, rat(op[1][0]), rat(op[1][1])))
        elif op[0] == 'cdraw' and heap:
            idx.append(len(lines)); lines.append('%s cdraw %d' % (p, int(op[1]) * CDRAW_STRIDE))
        elif op[0] == 'read' and heap and case['kind'] == 'finite' and o['status'] == 'ok':
            idx.append(len(lines)); lines.append('%s read' % p)
        else:
            idx.append(None)
    return lines, idx


def extra_lines(case, obs):
    """free-standing model evaluations on numbers taken from the run: numeric extrusions (`arExtrude` on the real A, B,
    stencil, normals, screen), the same extrusion on labels (`extrude`: where the old floats go) and `phase_for`
    (`phaseFor` on pixels of the achromatic screen)"""
    lines, want = [], []
    mat = lambda M: ';'.join(rat_list([float(x) for x in row]) for row in M)
    for o in obs:
        for cap in o.get('ar', []):
            lines.append('C15 arext %s %d %d %s %s [%s] %s %s %s' % (
                cap['w'], case['nx'], case['ny'], rat(cap['amp']), rat_list([float(x) for x in cap['before']]),
                ','.join(str(i) for i in cap['idx']), rat_list([float(x) for x in cap['rnd']]), mat(cap['A']), mat(cap['B'])))
            want.append(('ar', cap))
            # the list surgery alone, on labels: old samples 0..n-1, the new row/column n..n+k-1
            n = case['nx'] * case['ny']
            kk = case['ny'] if cap['w'] in ('left', 'right') else case['nx']
            lines.append('C15 extrude %s %d %d [%s] [%s]' % (cap['w'], case['nx'], case['ny'], ','.join(str(n + i) for i in range(kk)),
                                                           ','.join(str(i) for i in range(n))))
            want.append(('ext', cap))
    n = 0
    for o in obs:
        if o['op'][0] == 'read' and o['status'] == 'ok' and float(o['op'][1]) != 1.0 and n < 2:
            n += 1
            flat1, flat = o['phase1'].ravel(), o['phase'].ravel()
            for j in (0, flat1.size // 2, flat1.size - 1):
                lines.append('C15 phasefor %s %s' % (rat(float(flat1[j])), rat(float(o['op'][1]))))
                want.append(('phasefor', (float(flat[j]), float(flat1[j]), float(o['op'][1]))))
    return lines, want


def compare_extra(ctx, case, want, out):
    for (kind, w), resp in zip(want, out):
        ctx.traces_validated += 1
        if not resp.startswith('ok '):
            ctx.disagree('C15 ' + kind, {'case': case, 'model': resp[:100], 'impl': 'a value'}); return
        if kind == 'ar':
            got = np.array([float(x) for x in parse_rat_list(resp.split()[1])])
            ref = w['after']
            ctx.count('infinite:numeric extrusions run by the model (arExtrude)')
            if got.size != ref.size or np.abs(got - ref).max() > TOL * max(float(np.abs(ref).max()), 1e-300):
                j = int(np.argmax(np.abs(got - ref))) if got.size == ref.size else -1
                ctx.disagree('C15 arext', {'case': case, 'where': w['w'], 'flat_index': j,
                                           'model': 'A.stencil + B.normals*sqrt(Cn^2), then the stacking: %r' % (got[j] if j >= 0 else got.size),
                                           'impl': '%r' % (ref[j] if j >= 0 else ref.size)}, key='inf-extrude-numeric'); return
        elif kind == 'ext':
            perm = [int(x) for x in parse_rat_list(resp.split()[1])]
            before, after = w['before'], w['after']
            ctx.count('infinite:extrusions re-done by the model on labels (extrude)')
            bad = len(perm) != after.size or any(after[j] != before[q] for j, q in enumerate(perm) if q < before.size)
            if bad:
                ctx.disagree('C15 extrude', {'case': case, 'where': w['w'], 'model': 'old samples move to %r...' % perm[:12],
                                             'impl': 'the floats of the screen before the extrusion are elsewhere'}, key='inf-extrude-surgery'); return
        else:
            got = float(Fraction(resp.split()[1]))
            ctx.count('phase_for pixels run by the model (phaseFor)')
            if abs(got - w[0]) > 4e-16 * abs(got):
                ctx.disagree('C15 phasefor', {'case': case, 'model': 'a/lambda = %r' % got, 'impl': 'phase_for(%r) = %r at a pixel where phase_for(1) = %r' % (w[2], w[0], w[1])},
                             key='wavelength'); return


def parse_kv(resp):
    return dict(f.split('=', 1) for f in resp.split()[1:])


def compare_layer(ctx, case, obs, out, idx):
    """model bookkeeping vs the real layer, operation by operation"""
    stream = 'C15 %s history' % case['kind']
    rng_m, rng_r = [], []
    values = {}      # symbolic sample -> float
    owner = {}       # float -> symbolic sample
    hist = 0
    sub = [Fraction(0), Fraction(0)]
    heap = bool(case.get('heap'))
    shown = []       # finite heap cases: (model's key of what a read shows, the screen read)
    for o, i in zip(obs, idx):
        if i is None:
            if case['kind'] == 'infinite' and o['op'][0] == 'read' and o['status'] == 'ok' and 'raw' in o:
                # the read-out is the raw screen displaced by the model's sub-pixel offset, in pixels of each axis
                # (scipy's spline shift is taken as specified); without interpolation it is the raw screen itself
                raw = o['raw'].reshape(case['ny'], case['nx'])
                if case['interp'] and (sub[0] != 0 or sub[1] != 0):
                    from scipy.ndimage import affine_transform
                    off = [-float(sub[1]) / case['dy'], -float(sub[0]) / case['dx']]
                    want = affine_transform(raw, np.array([1, 1]), off, mode='nearest', order=5)
                    ok = np.abs(want - o['phase1']).max() <= TOL * max(float(np.abs(raw).max()), 1e-300)
                else:
                    ok = np.array_equal(raw, o['phase1']) or (case['interp'] and np.abs(raw - o['phase1']).max() <= TOL * float(np.abs(raw).max()))
                ctx.traces_validated += 1
                if not ok:
                    ctx.disagree(stream, {'case': case, 'op': o['op'], 'model': 'sub-pixel offset %s, %s (length units)' % (sub[0], sub[1]),
                                          'impl': 'read-out is not the raw screen displaced by that offset'}); return
            continue
        ctx.traces_validated += 1
        resp = out[i]
        detail = {'case': case, 'op': o['op'], 'model': resp[:200]}
        if resp.startswith('err'):
            if o['status'] != resp.split()[1]:
                ctx.disagree(stream, dict(detail, impl=o['status'])); return
            continue
        if o['status'] != 'ok':
            ctx.disagree(stream, dict(detail, impl=o['status'])); return
        kv = parse_kv(resp)
        c = parse_rat_list(kv['c'])
        if [Fraction(x) for x in o['center']] != c or Fraction(o['t']) != Fraction(kv['t']):
            ctx.disagree(stream, dict(detail, impl='c=%r t=%r' % (o['center'], o['t'])),
                         key=('fin-clock' if case['kind'] == 'finite' else None)); return
        if [Fraction(x) for x in o['vel']] != parse_rat_list(kv['v']) or [Fraction(o['cn2']), Fraction(o['L0'])] != parse_rat_list(kv['par']):
            ctx.disagree(stream, dict(detail, impl='v=%r Cn^2=%r L0=%r' % (o['vel'], o['cn2'], o['L0']))); return
        if 'sub' in kv:
            sub = parse_rat_list(kv['sub'])
        rng_m.append((kv['rng'], kv['orig'])); rng_r.append((o['rng'], o['orig']))
        if case['kind'] == 'finite':
            # the noise realisation: the stream state `_make_noise` last drew from joins the state classes, the parameters
            # it used are compared exactly
            rng_m.append((kv['noise'],)); rng_r.append((o['noise'][0],))
            if [Fraction(o['noise'][1]), Fraction(o['noise'][2])] != parse_rat_list(kv['npar']):
                ctx.disagree(stream, dict(detail, impl='noise made with Cn^2=%r L0=%r' % (o['noise'][1], o['noise'][2]))); return
        if heap:
            if kv['al'] != o['al']:
                ctx.disagree(stream, dict(detail, impl='identities (rng is orig, orig is caller, rng is caller) = %s' % o['al'])); return
            if (kv['caller'] == '-') != (o['caller'] is None):
                ctx.disagree(stream, dict(detail, impl='caller generator %s' % ('absent' if o['caller'] is None else 'present'))); return
            if o['caller'] is not None:
                rng_m.append((kv['caller'],)); rng_r.append((o['caller'],))
            if case['kind'] == 'finite':
                if kv['valid'] != '%d' % o['valid'] or kv['cache'] != '%d' % o['cache']:
                    ctx.disagree(stream, dict(detail, impl='_noise %s, _achromatic_screen %s' % (
                        'present' if o['valid'] else 'None', 'present' if o['cache'] else 'None')), key='fin-lazy'); return
                if o['op'][0] == 'read':
                    shown.append((kv['shown'], o['phase1']))
        if case['kind'] == 'infinite' and o['op'][0] in ('evolve', 'sett') and 'req' in kv:
            # the sub-pixel read-out request: what the layer really hands to scipy's affine_transform against the model's interpRequest
            calls = o.get('req')
            want = parse_rat_list(kv['req'])
            if calls is None or any('error' in c for c in calls):
                ctx.disagree(stream, dict(detail, impl='the affine_transform call could not be observed: %r' % (calls,)), key='inf-interp-request'); return
            if not case['interp']:
                if calls:
                    ctx.disagree(stream, dict(detail, impl='affine_transform called without use_interpolation'), key='inf-interp-request'); return
            else:
                good = len(calls) == 1 and calls[0]['matrix'] == [1.0, 1.0] and calls[0]['mode'] == 'nearest' and calls[0]['order'] == 5 and \
                    calls[0]['extra'] == 0 and calls[0]['shape'] == (case['ny'], case['nx']) and kv.get('reqc') == '1,1,5,nearest' and \
                    len(calls[0]['offset']) == 2 and all(abs(a - float(b)) <= 1e-9 for a, b in zip(calls[0]['offset'], want))
                ctx.count('infinite:read-out requests (affine_transform calls) compared with interpRequest')
                if good and any(b != 0 for b in want):
                    ctx.count('infinite:read-out requests with a non-zero offset')
                if not good:
                    ctx.disagree(stream, dict(detail, model='interpRequest offset (row, column) %s, matrix/order/mode %s' % (kv['req'], kv.get('reqc')),
                                              impl='affine_transform calls %r' % (calls,)), key='inf-interp-request'); return
        if case['kind'] == 'infinite':
            if o['op'][0] == 'reset':
                hist = 0
                # "different symbols => different floats" is only demanded within one run between resets: the
                # autoregression forgets its initial state, so two runs that end with the same long sequence of extrusions
                # driven by the same normals converge and single elements come out bit-identical (observed after 69 equal
                # extrusions) - a property of the process, not a disagreement
                owner = {}
            for w in o['ext']:
                hist = hist * 5 + WHERE_CODE[w]
            if int(kv['hist']) != hist:
                ctx.disagree(stream, dict(detail, impl='extrusions %r (history code %d)' % (o['ext'], hist))); return
            if 'scr' not in kv:
                continue
            legend = kv['pars'].split(';')
            syms = ['%s|%s' % (q.rsplit(':', 1)[0], legend[int(q.rsplit(':', 1)[1])]) for q in kv['scr'].split(',')]
            raw = o['raw']
            if len(syms) != raw.size:
                ctx.disagree(stream, dict(detail, impl='screen size %d' % raw.size)); return
            for s, v in zip(syms, raw.tolist()):
                if values.setdefault(s, v) != v or owner.setdefault(v, s) != s:
                    ctx.disagree(stream, dict(detail, model='sample %s' % s,
                                              impl='the floats do not sit where the model puts the samples')); return
    # what the reads showed: the same model key (noise state, parameters of the noise, centre) <=> bit-equal screens
    # (keys that differ only in the centre are not demanded to give different screens: still wind, whole periods)
    for a in range(len(shown)):
        for b in range(a):
            ka, kb = shown[a][0], shown[b][0]
            same = np.array_equal(shown[a][1], shown[b][1])
            if ka == kb and not same or (ka.split('|')[:3] != kb.split('|')[:3] and same):
                ctx.disagree(stream, {'case': case, 'model': 'reads show %s and %s' % (kb, ka),
                                      'impl': 'screens %s' % ('bit-equal' if same else 'different')}, key='fin-lazy'); return
    # stream-state identities: the model says two states are equal exactly when the real generators are bit-equal
    flat_m = [x for pair in rng_m for x in pair]
    flat_r = [x for pair in rng_r for x in pair]
    if classes(flat_m) != classes(flat_r):
        ctx.disagree(stream, {'case': case, 'model': 'rng state classes %r' % classes(flat_m), 'impl': '%r' % classes(flat_r)})


# ---------------------------------------------------------------------------------------------
# spectral noise: shifted(s)

def noise_objects(case, grid=None):
    import hcipy
    g = grid if grid is not None else mkgrid(case['nx'], case['ny'], case['dx'], case['dy'])
    psd = hcipy.power_spectral_density_von_karman(0.2, case['L0'])
    if case['cls'] == 'fft':
        fac = hcipy.SpectralNoiseFactoryFFT(psd, g, case['q'])
    else:
        fac = hcipy.SpectralNoiseFactoryMultiscale(psd, g, case['q'])
    return g, fac, fac.make_random(np.random.default_rng(case['seed']))


def judge_noise(case):
    bad = []
    counts = {}
    with warnings.catch_warnings():
        warnings.simplefilter('ignore')
        g, fac, noise = noise_objects(case)
        s = np.array(case['shift'], dtype=float)
        orig = np.array(noise().shaped, dtype=float)
        try:
            sh = noise.shifted(s)
            moved = np.array(sh().shaped, dtype=float)
        except Exception as e:  # noqa
            return [('noise-raises', 'shifted(%r) raised %s: %s' % (case['shift'], type(e).__name__, str(e)[:80]))], None, counts
        scale = float(np.abs(orig).max())
        shape = 'square' if case['nx'] == case['ny'] else 'non-square'
        kind = 'along-x' if s[1] == 0 else 'along-y' if s[0] == 0 else 'diagonal' if abs(s[0] / case['dx']) == abs(s[1] / case['dy']) else 'oblique'
        where = '%s %s shift' % (shape, kind)
        if not np.array_equal(np.array(noise().shaped), orig):
            bad.append(('noise-shifted-mutates', 'shifted() changed the noise it was called on'))
        px, py = s[0] / case['dx'], s[1] / case['dy']
        if is_int(px) and is_int(py):
            e = overlap_err(moved, orig, int(px), int(py))
            if e is not None:
                counts['noise whole-pixel checked'] = 1
                if e > TOL * scale:
                    bad.append(('noise-translate-whole-pixel',
                                '%s noise (%s) shifted by (%d, %d) px is not the index translate on the overlap (max dev %.3g of %.3g)' % (case['cls'], where, px, py, e, scale)))
        _, _, ref_noise = noise_objects(case, grid=g.shifted(-s))
        ref = np.array(ref_noise().shaped, dtype=float)
        e = float(np.abs(ref - moved).max())
        counts['noise vs displaced grid checked'] = 1
        if e > TOL * scale:
            bad.append(('noise-translate-any',
                        '%s noise (%s) shifted by (%.4g, %.4g) px differs from the same noise evaluated at x - s (max dev %.3g of %.3g)' % (case['cls'], where, px, py, e, scale)))
        # observation for the correspondence: the factor applied to every coefficient
        if case['cls'] == 'fft':
            parts = [(noise.C, sh.C, noise.coords)]
        else:
            parts = [(noise.C_1, sh.C_1, noise.coords_1), (noise.C_2, sh.C_2, noise.coords_2)]
        obs = [(np.array(c0), np.array(c1), [np.array(k, dtype=float) for k in coords]) for c0, c1, coords in parts]
        case_synth = synth_observation(case, g, fac, noise, orig)
        if case_synth is not None:
            obs = SynthObs(obs)
            obs.synth = case_synth
    return bad, obs, counts


class SynthObs(list):
    synth = None


SYNTH_MAX_M = 256
SYNTH_MAX_WORK = 12000      # points x coefficients


def _lcm(a, b):
    from math import gcd
    return a * b // gcd(a, b)


def synth_observation(case, g, fac, noise, screen):
    """What `Shift.synth` needs to reproduce `noise()` exactly: the output points, and per Fourier grid (one for the FFT
    noise, two for the multiscale noise) the frequency axes in *turns per unit length* as exact rationals (validated
    against the real grid's floats to 1e-12) and the real coefficients times the real quadrature weight / (2 pi)^2.
    None if the case is too big for the exact character (M = common denominator of all phases, in turns)."""
    if case['cls'] == 'fft':
        parts = [(noise.C, fac.input_grid)]
    else:
        parts = [(noise.C_1, fac.input_grid_1), (noise.C_2, fac.input_grid_2)]
    xs, ys = [[Fraction(float(v)) for v in ax] for ax in g.separated_coords]
    M, out = 4, []
    for C, ig in parts:
        if not ig.is_separated:
            return None
        axes = []
        for ax, pts in zip(ig.separated_coords, (xs, ys)):
            fr = [Fraction(float(v) / (2 * np.pi)).limit_denominator(1 << 16) for v in ax]
            if any(abs(float(f) * 2 * np.pi - float(v)) > 1e-12 * max(1.0, float(np.abs(ax).max())) for f, v in zip(fr, ax)):
                return None
            for f in fr:
                for x in pts:
                    M = _lcm(M, (f * x).denominator)
                    if M > SYNTH_MAX_M:
                        return None
            axes.append(fr)
        c = np.array(C) * ig.weights / (2 * np.pi) ** 2
        if c.size != len(axes[0]) * len(axes[1]) or c.size * len(xs) * len(ys) > SYNTH_MAX_WORK:
            return None
        out.append((axes[0], axes[1], [float(v) for v in c.real], [float(v) for v in c.imag]))
    return {'M': M, 'xs': xs, 'ys': ys, 'parts': out, 'screen': np.array(screen, dtype=float).ravel()}


def noise_lines(case, obs):
    lines = ['C15 phases %s %s %s %s' % (rat(case['shift'][0]), rat(case['shift'][1]), rat_list(kx), rat_list(ky))
             for (_, _, (kx, ky)) in obs]
    sy = getattr(obs, 'synth', None)
    if sy is not None:
        for kx, ky, cre, cim in sy['parts']:
            lines.append('C15 synth %d %s %s %s %s %s %s' % (sy['M'], rat_list(sy['xs']), rat_list(sy['ys']), rat_list(kx), rat_list(ky),
                                                            rat_list(cre), rat_list(cim)))
    return lines


def compare_synth(ctx, case, sy, out):
    """`fourier.backward(C).real` of the real factory against `Shift.synth` run by the model with the exact character into
    Q[Z/M]: the model's coefficient vector per point is evaluated at X = exp(2 pi i / M) here."""
    M = sy['M']
    zeta = np.exp(2j * np.pi * np.arange(M) / M)
    tot = np.zeros(sy['screen'].size)
    for resp in out:
        ctx.traces_validated += 1
        if not resp.startswith('ok '):
            ctx.disagree('C15 synth', {'case': case, 'model': resp[:100], 'impl': 'a screen'}, key='noise-synthesis'); return
        rows = [parse_rat_list(t) for t in resp.split()[1].split(';')]
        if len(rows) != tot.size or any(len(r) != M for r in rows):
            ctx.disagree('C15 synth', {'case': case, 'model': '%d points' % len(rows), 'impl': '%d points' % tot.size}, key='noise-synthesis'); return
        tot += np.array([(np.array([float(a) for a in r]) * zeta).sum().real for r in rows])
    ctx.count('noise:screens synthesised by the model (synth, exact character of order M)')
    ctx.count('noise:synth M <= 32' if M <= 32 else 'noise:synth M <= 128' if M <= 128 else 'noise:synth M > 128')
    ref = sy['screen']
    if np.abs(tot - ref).max() > TOL * float(np.abs(ref).max()):
        j = int(np.argmax(np.abs(tot - ref)))
        ctx.disagree('C15 synth', {'case': case, 'flat_index': j, 'model': 'sum_j C_j w/(2pi)^2 chi(kx x + ky y), real part = %r' % tot[j],
                                   'impl': 'noise() = %r' % ref[j]}, key='noise-synthesis')


def compare_noise(ctx, case, obs, out):
    if getattr(obs, 'synth', None) is not None:
        compare_synth(ctx, case, obs.synth, out[len(obs):])
    for (c0, c1, _), resp in zip(obs, out):
        ctx.traces_validated += 1
        S = np.array([float(x) for x in parse_rat_list(resp.split()[1])])
        if S.size != c0.size:
            ctx.disagree('C15 phases', {'case': case, 'model': 'length %d' % S.size, 'impl': 'length %d' % c0.size}); return
        want = c0 * np.exp(-1j * S)
        if np.abs(want - c1).max() > TOL * max(1.0, float(np.abs(c0).max())):
            j = int(np.argmax(np.abs(want - c1)))
            ctx.disagree('C15 phases', {'case': case, 'flat_index': j, 'model': 'phase %r' % S[j],
                                        'impl': 'factor %r' % (c1[j] / c0[j] if c0[j] != 0 else None)},
                         key='noise-translate'); return


# ---------------------------------------------------------------------------------------------
# generation

def gen_geometry(rng, big):
    hi = 25 if big else 15
    nx = int(rng.integers(5, hi))
    ny = nx if rng.random() < 0.35 else int(rng.integers(5, hi))
    dx = float(2.0 ** int(rng.integers(-4, 1)))
    dy = dx
    if rng.random() < 0.45:
        while dy == dx:
            dy = float(2.0 ** int(rng.integers(-4, 1)))
    return nx, ny, dx, dy


def gen_wind(rng, dx, dy):
    """velocity in pixels per unit time (small integers / halves), by direction class"""
    style = rng.choice(['along-x', 'along-y', 'diagonal', 'oblique', 'oblique', 'still'], p=[0.22, 0.22, 0.12, 0.2, 0.2, 0.04])
    a = int(rng.choice([1, 1, 2, 3])) * int(rng.choice([-1, 1]))
    b = int(rng.choice([1, 1, 2, 3])) * int(rng.choice([-1, 1]))
    if style == 'along-x':
        b = 0
    elif style == 'along-y':
        a = 0
    elif style == 'diagonal':
        b = a * int(rng.choice([-1, 1]))
    elif style == 'still':
        a = b = 0
    elif abs(a) == abs(b):
        a = a + (1 if a > 0 else -1)
    return [a * dx, b * dy]


OVERSAMPLINGS = [1.5, 1.5, 2.5, 1.25, 3.0, 4.0, 1.0, 2.0, 3.5]


def gen_ctor_args(rng, case):
    """the constructor arguments beyond grid / strength / outer scale / velocity / seed: `oversampling` of the finite layer (a
    scalar: integer and non-integer values — the low-frequency part of the multiscale noise has the period oversampling x extent,
    the high-frequency part one extent), `stencil_length` of the infinite layer, `height` of both; half of the cases leave the defaults"""
    if case['kind'] == 'finite' and 'oversampling' not in case and rng.random() < 0.5:
        case['oversampling'] = float(OVERSAMPLINGS[int(rng.integers(len(OVERSAMPLINGS)))])
    if case['kind'] == 'infinite' and 'stencil_length' not in case and rng.random() < 0.3:
        case['stencil_length'] = int(rng.choice([1, 3]))
    if 'height' not in case and rng.random() < 0.3:
        case['height'] = float(rng.choice([0.0, 512.0, 1024.5]))
    return case


def decorate(rng, case, live=True):
    """which model runs the case (value-level `fin`/`inf` or heap-level `hfin`/`hinf`), how the seed arrives (int or a
    Generator object the caller keeps and draws from), parameter changes on the *running* finite layer"""
    ops = case['ops']
    gen_ctor_args(rng, case)
    case['heap'] = bool(rng.random() < 0.5)
    if case['kind'] == 'infinite' and case['nx'] * case['ny'] <= 120 and rng.random() < 0.3:
        case['ar'] = True        # the first three extrusions are re-computed by the model from the real A, B, stencil, normals
    if case['heap'] and rng.random() < 0.45:
        case['seedobj'] = 'bitgen' if case['seed'] % 3 == 0 else True
        resets = [i for i, op in enumerate(ops) if op[0] == 'reset']
        for _ in range(int(rng.integers(1, 4))):
            # mostly just before a reset (where a shared generator shows), else anywhere
            pos = int(rng.choice(resets)) if resets and rng.random() < 0.6 else int(rng.integers(0, len(ops) + 1))
            ops.insert(pos, ['cdraw', int(rng.integers(1, 6))])
            resets = [i for i, op in enumerate(ops) if op[0] == 'reset']
    if case['kind'] == 'infinite' and live and rng.random() < 0.35:
        # Cn^2 / outer scale changed on the *running* infinite layer (no reset): the screen stays, later rows/columns use the new values
        ext = max(case['nx'] * case['dx'], case['ny'] * case['dy'])
        for _ in range(int(rng.integers(1, 3))):
            pos = int(rng.integers(0, len(ops) + 1))
            kind_ = str(rng.choice(['setcn2', 'setcn2', 'setl0', 'setcn2m']))
            if kind_ == 'setcn2':
                new = [['setcn2', float(rng.integers(1, 64)) * 2.0 ** -44 * float(rng.choice([1.0, 4.0, 0.25]))]]
            elif kind_ == 'setcn2m':
                new = [['setcn2m', float(rng.integers(1, 64)) * 2.0 ** -42]]
            else:
                new = [['setl0', float(rng.choice([3.0, 6.0, 12.0, 20.0])) * ext / 4.0, str(rng.choice(['L0', 'outer_scale', 'multi']))]]
            if rng.random() < 0.6:
                new.append(['read', 1.0])
            ops[pos:pos] = new
        case['live'] = True
    if case['heap'] and case['kind'] == 'finite' and live and rng.random() < 0.5:
        ext = max(case['nx'] * case['dx'], case['ny'] * case['dy'])
        for _ in range(int(rng.integers(1, 4))):
            pos = int(rng.integers(0, len(ops) + 1))
            kind_ = str(rng.choice(['setcn2', 'setcn2', 'setl0', 'setvel', 'setcn2m']))
            if kind_ == 'setcn2':
                new = [['setcn2', float(rng.integers(1, 64)) * 2.0 ** -44 * float(rng.choice([1.0, 4.0, 0.25]))]]
            elif kind_ == 'setcn2m':
                new = [['setcn2m', float(rng.integers(1, 64)) * 2.0 ** -42]]
            elif kind_ == 'setl0':
                new = [['setl0', float(rng.choice([3.0, 6.0, 12.0, 20.0])) * ext / 4.0, str(rng.choice(['L0', 'outer_scale', 'multi']))]]
            else:
                new = [['setvel', gen_wind(rng, case['dx'], case['dy'])]]
            if rng.random() < 0.6:
                new.append(['read', 1.0])                  # read with the change pending (cached screen / lazy re-draw)
            if rng.random() < 0.6:
                t = float(rng.integers(0, 5)) + (0.25 if rng.random() < 0.3 else 0.0)
                new += [['evolve', t], ['read', float(rng.choice([1.0, 0.5]))]]
            ops[pos:pos] = new
    return case


def gen_layer_case(rng, kind, big):
    nx, ny, dx, dy = gen_geometry(rng, big)
    vel = gen_wind(rng, dx, dy)
    case = {'kind': kind, 'nx': nx, 'ny': ny, 'dx': dx, 'dy': dy, 'vel': vel,
            'seed': int(rng.integers(0, 2 ** 31)), 'cn2': float(rng.integers(1, 64)) * 2.0 ** -44,
            'L0': float(rng.choice([4.0, 10.0, 25.0])) * max(nx * dx, ny * dy) / 4.0,
            'k': float(rng.choice([0, 0, 2.0, 3.0, 1.5])), 'interp': bool(rng.random() < 0.5)}
    # time unit: whole-pixel displacement per unit; fractional times give sub-pixel displacements
    frac = rng.random() < 0.4
    ops = []
    nseg = int(rng.integers(2, 5))
    pool = None
    for s in range(nseg):
        t = 0.0
        times = []
        n = int(rng.integers(1, 5))
        if pool is not None and rng.random() < 0.7:
            times = pool[:max(1, int(rng.integers(1, len(pool) + 1)))]     # replay (a prefix of) the first run
        else:
            for _ in range(n):
                step = float(rng.choice([0, 1, 1, 1, 2, 3])) + (float(rng.integers(0, 4)) / 4.0 if frac else 0.0)
                if kind == 'finite' and rng.random() < 0.2:
                    step = -step * 0.5 if not frac else -step
                t = t + step
                times.append(t)
            if pool is None:
                pool = times
        if rng.random() < 0.6:
            ops.append(['read', float(rng.choice([1.0, 1.0, 0.5, 2.0, 0.75, 1.6e-6]))])
        for t in times:
            ops.append(['sett' if rng.random() < 0.2 else 'evolve', t])
            if rng.random() < 0.8:
                ops.append(['read', float(rng.choice([1.0, 1.0, 0.5, 2.0, 0.75, 1.6e-6]))])
            if kind == 'infinite' and rng.random() < 0.06 and t > 0:
                ops.append(['evolve', t - 0.5])        # backwards: must be refused without side effects
                ops.append(['read', 1.0])
        if s + 1 < nseg:
            if rng.random() < 0.35:
                # a parameter is changed on the existing layer, then the layer is reset
                for _ in range(int(rng.choice([1, 1, 2]))):
                    kind_ = str(rng.choice(['setcn2', 'setcn2', 'setcn2m', 'setl0', 'setvel']))
                    if kind_ == 'setcn2':
                        ops.append(['setcn2', float(rng.integers(1, 64)) * 2.0 ** -44 * float(rng.choice([1.0, 4.0, 0.25, 16.0]))])
                    elif kind_ == 'setcn2m':
                        ops.append(['setcn2m', float(rng.integers(1, 64)) * 2.0 ** -42])
                    elif kind_ == 'setl0':
                        ops.append(['setl0', float(rng.choice([3.0, 6.0, 12.0, 20.0])) * max(nx * dx, ny * dy) / 4.0,
                                    str(rng.choice(['L0', 'L0', 'outer_scale', 'multi']))])
                    else:
                        ops.append(['setvel', gen_wind(rng, dx, dy)])
                ops.append(['reset', bool(rng.random() < 0.15)])
            else:
                ops.append(['reset', bool(rng.random() < 0.25)])
            if kind == 'infinite' and not ops[-1][1] and len(ops) % 3 == 0:
                ops[-1] = ['reset', False, 'none']      # the same reset through evolve_until(None)
    case['ops'] = ops
    return decorate(rng, case)


SAME_TIME_MOTIFS = ('twice', 'reset-zero', 'setter-same', 'setter-reset-zero', 'sett-same', 'back-and-same', 'none-zero')


def gen_sametime_case(rng, kind, big):
    """repeated / equal target times on a single layer: evolve_until(t) (or `t = t`) with t EXACTLY the layer's current time — twice in
    a row, 0 right after reset() / evolve_until(None), after a parameter (Cn^2, outer scale, velocity) was changed on the running
    layer, after a backwards step of the finite layer — with a read after each; a call that is skipped or half-done because "the layer
    is already there" shows as a wrong clock, a stale screen or a screen that is not the one of a fresh layer."""
    nx, ny, dx, dy = gen_geometry(rng, big)
    vel = gen_wind(rng, dx, dy)
    ext = max(nx * dx, ny * dy)
    case = {'kind': kind, 'nx': nx, 'ny': ny, 'dx': dx, 'dy': dy, 'vel': vel,
            'seed': int(rng.integers(0, 2 ** 31)), 'cn2': float(rng.integers(1, 64)) * 2.0 ** -44,
            'L0': float(rng.choice([4.0, 10.0, 25.0])) * ext / 4.0,
            'k': float(rng.choice([0, 0, 2.0, 3.0])), 'interp': bool(rng.random() < 0.5), 'family': 'same-time', 'motifs': []}
    frac = rng.random() < 0.4
    ops = []
    t = 0.0
    live = False

    def read():
        ops.append(['read', float(rng.choice([1.0, 1.0, 0.5, 2.0]))])

    def setter():
        kind_ = str(rng.choice(['setcn2', 'setcn2', 'setl0', 'setvel'] if kind == 'finite' else ['setcn2', 'setl0']))
        if kind_ == 'setcn2':
            ops.append(['setcn2', float(rng.integers(1, 64)) * 2.0 ** -44 * float(rng.choice([1.0, 4.0, 0.25]))])
        elif kind_ == 'setl0':
            ops.append(['setl0', float(rng.choice([3.0, 6.0, 12.0, 20.0])) * ext / 4.0, str(rng.choice(['L0', 'outer_scale']))])
        else:
            ops.append(['setvel', gen_wind(rng, dx, dy)])
    for _ in range(int(rng.integers(2, 6))):
        m = str(rng.choice(SAME_TIME_MOTIFS))
        if m == 'back-and-same' and kind != 'finite':
            m = 'twice'
        if m == 'none-zero' and kind != 'infinite':
            m = 'reset-zero'
        case['motifs'].append(m)
        if m in ('twice', 'setter-same', 'sett-same', 'back-and-same') and (t == 0.0 or rng.random() < 0.5):
            t = t + float(rng.choice([1, 1, 2, 3])) + (float(rng.integers(0, 4)) / 4.0 if frac else 0.0)
            ops.append(['evolve', t])
            if rng.random() < 0.7:
                read()
        if m == 'twice':
            ops.append(['evolve', t]); read()
            if rng.random() < 0.3:
                ops.append(['sett', t]); read()
        elif m == 'sett-same':
            ops.append(['sett', t]); read()
        elif m == 'reset-zero':
            ops.append(['reset', False]); t = 0.0
            if rng.random() < 0.4:
                read()
            ops.append([str(rng.choice(['evolve', 'sett'])), 0.0]); read()
        elif m == 'none-zero':
            ops.append(['reset', False, 'none']); t = 0.0
            ops.append(['evolve', 0.0]); read()
        elif m == 'setter-same':
            setter(); live = True
            if rng.random() < 0.4:
                read()
            ops.append(['evolve', t]); read()
            if rng.random() < 0.3:
                ops.append(['evolve', t]); read()
        elif m == 'setter-reset-zero':
            setter()
            ops.append(['reset', False]); t = 0.0
            ops.append(['evolve', 0.0]); read()
        elif m == 'back-and-same':
            t = float(rng.integers(0, int(t) + 1))
            ops.append(['evolve', t]); read()
            ops.append(['evolve', t]); read()
    case['ops'] = ops
    decorate(rng, case, live=False)
    if live:
        if kind == 'finite':
            case['heap'] = True          # parameter changes on the running finite layer: the heap model (lazy noise, cached screen)
        case['live'] = True
    return case


def gen_late_case(rng, kind, style, big):
    """time scales: a long run (large t0, large accumulated displacement) followed by many small steps.
    'huge' (finite layer): 16..64 px per unit time for 512..2048 units, then steps of one pixel or a quarter pixel.
    'fine': D = 16..64 px accumulated at t0 = 2^k, then N = 64..2048 equal steps per pixel (dt/t0 = 1/(D N))."""
    nx, ny, dx, dy = gen_geometry(rng, False)
    if kind == 'infinite':
        nx, ny = min(nx, 10), min(ny, 10)
    p, q = [(1, 0), (0, 1), (-1, 0), (0, -1), (1, 1), (1, -1), (2, 1), (-1, 2), (1, 2)][int(rng.integers(0, 9))]
    case = {'kind': kind, 'nx': nx, 'ny': ny, 'dx': dx, 'dy': dy, 'seed': int(rng.integers(0, 2 ** 31)),
            'cn2': float(rng.integers(1, 64)) * 2.0 ** -44, 'L0': 10.0 * max(nx * dx, ny * dy) / 4.0,
            'k': float(rng.choice([0, 0, 2.0])), 'interp': bool(rng.random() < 0.5), 'style': 'late-' + style}
    ops = [['read', 1.0]] if rng.random() < 0.5 else []
    if style == 'huge':
        u = float(rng.choice([16, 32, 64]))
        t0 = float(2 ** int(rng.integers(9, 12)))
        case['vel'] = [u * p * dx, u * q * dy]
        ops += [['evolve', t0], ['read', 1.0]]
        t = t0
        for _ in range(int(rng.integers(3, 25 if not big else 60))):
            t += (1.0 if rng.random() < 0.7 else 0.25) / u
            ops.append(['evolve', t])
            if rng.random() < 0.85:
                ops.append(['read', float(rng.choice([1.0, 1.0, 0.5]))])
        ops += [['reset', False], ['evolve', t], ['read', 1.0]]
    else:
        D = int(rng.choice([16, 32, 64]))
        t0 = float(2 ** int(rng.integers(6, 13)))
        N = int(rng.choice([64, 256, 1024, 2048]))
        if kind == 'infinite' and not big and N * D > 70000 and rng.random() < 0.5:
            N = 256
        case['vel'] = [D * p * dx / t0, D * q * dy / t0]
        dt = t0 / (D * N)
        P = int(rng.choice([1, 1, 2]))
        marks = set([1, 2, 3, N // 4, N // 2, N - 1, N, N + 1, N + N // 2, 2 * N])
        ops += [['evolve', t0], ['read', 1.0]]
        for i in range(1, N * P + 1):
            if i in marks:
                ops.append(['evolve', t0 + i * dt])
                ops.append(['read', 1.0])
            else:
                ops.append(['evolve', t0 + i * dt, 'q'])
    case['ops'] = ops
    return decorate(rng, case, live=False)


def gen_cross_case(rng, kind, big):
    """periodicity: the accumulated displacement crosses multiples of the grid extent (1, 2, 3, 5, 7 extents; the
    finite layer's two periods are 1 and `oversampling` = 2 extents); consecutive reads less than one extent apart
    straddle each crossing; some reads sit exactly on a multiple and some at sub-pixel offsets."""
    nx, ny, dx, dy = gen_geometry(rng, big)
    if kind == 'infinite':
        nx, ny = min(nx, 12), min(ny, 12)
    axis = int(rng.integers(0, 2))                       # the axis along which the extents are counted
    n = (nx, ny)[axis]
    p = int(rng.choice([1, 1, 2])) * int(rng.choice([-1, 1]))
    other = int(rng.choice([0, 0, 1, -1, 2]))
    v = [0, 0]
    v[axis], v[1 - axis] = p, other
    case = {'kind': kind, 'nx': nx, 'ny': ny, 'dx': dx, 'dy': dy, 'vel': [v[0] * dx, v[1] * dy],
            'seed': int(rng.integers(0, 2 ** 31)), 'cn2': float(rng.integers(1, 64)) * 2.0 ** -44,
            'L0': float(rng.choice([4.0, 10.0])) * max(nx * dx, ny * dy) / 4.0, 'k': float(rng.choice([0, 0, 2.0])),
            'interp': bool(rng.random() < 0.5), 'style': 'crossing'}
    gen_ctor_args(rng, case)
    ops = [['read', 1.0]] if rng.random() < 0.6 else []
    ms = sorted(set(int(m) for m in rng.choice([1, 2, 3, 5, 7], size=int(rng.integers(2, 5)))))
    if case.get('oversampling') is not None:
        # the multiples of oversampling x extent (the period of the low-frequency part), also when that is not a whole number of extents
        o = case['oversampling']
        ms = sorted(set(ms[:2] + [o * j for j in range(1, int(rng.integers(2, 4)))]))
    if kind == 'infinite' and not big:
        ms = [m for m in ms if m <= 5] or [1, 2]
    r = 1 if n < 8 else 2
    for m in ms:
        T = int((m * n) // abs(p))                       # last whole time with |p| T <= m n
        t_before = float(T - int(rng.integers(1, r + 1)))
        t_after = float(T + int(rng.integers(1, r + 1)))
        times = [t_before]
        if abs(p) * T == m * n and rng.random() < 0.6:
            times.append(float(T))                       # exactly a multiple of the extent
        if rng.random() < 0.4:
            times.append(T + 0.25 if abs(p) * T == m * n else T + 0.5)   # sub-pixel, just behind the crossing
        times.append(t_after)
        for t in times:
            ops.append(['evolve', t])
            ops.append(['read', 1.0])
    ops += [['reset', False], ['evolve', ops[-2][1]], ['read', 1.0]]
    case['ops'] = ops
    case['extents'] = ms
    return decorate(rng, case, live=False)


def gen_noise_case(rng, big):
    nx, ny, dx, dy = gen_geometry(rng, big)
    if rng.random() < 0.4:
        # small grids: the model synthesises the whole screen with the exact character (`synth`)
        nx, ny = int(rng.integers(2, 8)), int(rng.integers(2, 8))
    cls = str(rng.choice(['fft', 'multiscale']))
    vel = gen_wind(rng, dx, dy)
    m = float(rng.integers(1, 3)) if rng.random() < 0.6 else float(rng.integers(1, 12)) / 4.0
    if rng.random() < 0.35:
        # more than 1, 2, 5 grid extents (the multiscale noise has the periods 1 and `oversampling` extents)
        m = float(rng.choice([1, 2, 5])) * max(nx, ny) + float(rng.integers(-2, 3)) + (0.25 if rng.random() < 0.3 else 0.0)
    return {'kind': 'noise', 'cls': cls, 'nx': nx, 'ny': ny, 'dx': dx, 'dy': dy, 'q': int(rng.integers(1, 4)) if cls == 'fft' else int(rng.choice([2, 4])),
            'L0': 10.0, 'seed': int(rng.integers(0, 2 ** 31)), 'shift': [vel[0] * m, vel[1] * m]}


def _layer(kind, nx, ny, vel, ops, interp=False, k=0, seed=7, dx=0.25, dy=0.25):
    return {'kind': kind, 'nx': nx, 'ny': ny, 'dx': dx, 'dy': dy, 'vel': vel, 'seed': seed, 'cn2': 2.0 ** -40,
            'L0': 10.0, 'k': k, 'interp': interp, 'ops': ops}


DIRECTED = [
    _layer('finite', 8, 8, [0.25, 0.0], [['read', 1.0], ['evolve', 1.0], ['read', 1.0], ['evolve', 3.0], ['read', 0.5]]),
    _layer('finite', 8, 8, [0.0, 0.25], [['evolve', 2.0], ['read', 1.0]]),
    _layer('finite', 6, 9, [0.25, 0.5], [['evolve', 1.0], ['read', 1.0], ['evolve', 0.5], ['read', 1.0]], k=2.0),
    _layer('finite', 8, 8, [0.25, 0.25], [['evolve', 2.0], ['read', 1.0], ['reset', False], ['read', 1.0], ['evolve', 2.0], ['read', 1.0]]),
    _layer('finite', 7, 5, [-0.25, 0.0], [['evolve', 1.0], ['reset', False], ['evolve', 1.0], ['read', 1.0], ['reset', True], ['read', 1.0],
                                          ['evolve', 1.0], ['read', 1.0], ['reset', False], ['evolve', 1.0], ['read', 1.0]]),
    _layer('infinite', 8, 8, [0.25, 0.0], [['read', 1.0], ['evolve', 1.0], ['read', 1.0], ['evolve', 3.0], ['read', 2.0]]),
    _layer('infinite', 8, 8, [0.0, -0.25], [['read', 1.0], ['evolve', 2.0], ['read', 1.0]], interp=True),
    _layer('infinite', 6, 9, [0.5, 0.25], [['read', 1.0], ['evolve', 1.0], ['read', 1.0], ['reset', False], ['read', 1.0], ['evolve', 1.0], ['read', 1.0]], k=3.0),
    _layer('infinite', 9, 6, [-0.25, 0.5], [['read', 1.0], ['evolve', 1.0], ['read', 1.0], ['evolve', 0.5], ['read', 1.0], ['reset', True], ['read', 1.0],
                                            ['evolve', 1.0], ['read', 1.0], ['reset', False], ['evolve', 1.0], ['read', 1.0]]),
    _layer('infinite', 12, 12, [0.25, 0.125], [['read', 1.0], ['evolve', 0.5], ['read', 1.0], ['evolve', 1.5], ['read', 1.0], ['evolve', 2.0], ['read', 1.0]], interp=True),
    _layer('infinite', 10, 7, [0.125, -0.25], [['read', 1.0], ['evolve', 1.0], ['read', 1.0], ['evolve', 3.0], ['read', 1.0], ['evolve', 4.0], ['read', 1.0]]),
    # a parameter changed through its setter on an existing layer, then reset
    _layer('infinite', 8, 6, [0.25, 0.0], [['evolve', 2.0], ['read', 1.0], ['setcn2', 2.0 ** -38], ['reset', False], ['read', 1.0],
                                           ['evolve', 2.0], ['read', 1.0], ['setcn2m', 2.0 ** -39], ['reset', False], ['evolve', 2.0], ['read', 1.0]]),
    _layer('finite', 8, 6, [0.0, 0.25], [['evolve', 2.0], ['read', 1.0], ['setcn2', 2.0 ** -38], ['reset', False], ['read', 1.0],
                                         ['evolve', 2.0], ['read', 1.0], ['setl0', 4.0, 'outer_scale'], ['reset', False], ['evolve', 2.0], ['read', 1.0],
                                         ['setvel', [0.25, 0.0]], ['reset', False], ['evolve', 2.0], ['read', 1.0]]),
    _layer('infinite', 7, 9, [0.25, 0.25], [['evolve', 1.0], ['read', 1.0], ['setl0', 4.0, 'multi'], ['reset', False], ['evolve', 1.0], ['read', 1.0],
                                            ['setvel', [0.0, -0.25]], ['reset', False], ['evolve', 1.0], ['read', 1.0]], k=2.0),
    # time scales: long run, then steps of one pixel / a fraction of a pixel
    _layer('finite', 8, 8, [16.0, 0.0], [['evolve', 2048.0], ['read', 1.0], ['evolve', 2048.015625], ['read', 1.0],
                                         ['evolve', 2048.03125], ['read', 1.0], ['evolve', 2048.03515625], ['read', 1.0]]),
    dict(_layer('finite', 8, 6, [0.0, 64 * 0.25 / 1024.0],
                [['evolve', 1024.0], ['read', 1.0]] + [x for i in range(1, 2049) for x in (
                    [['evolve', 1024.0 + i / 128.0], ['read', 1.0]] if i in (1, 2, 3, 512, 1024, 2047, 2048) else [['evolve', 1024.0 + i / 128.0, 'q']])]),
         style='late-fine'),
    dict(_layer('infinite', 6, 8, [64 * 0.25 / 1024.0, 0.0],
                [['evolve', 1024.0], ['read', 1.0]] + [x for i in range(1, 2049) for x in (
                    [['evolve', 1024.0 + i / 128.0], ['read', 1.0]] if i in (1, 2, 3, 512, 1024, 2047, 2048) else [['evolve', 1024.0 + i / 128.0, 'q']])],
                interp=True), style='late-fine'),
    # non-square pixels
    _layer('infinite', 7, 9, [0.25, -0.5], [['read', 1.0], ['evolve', 1.0], ['read', 1.0], ['evolve', 3.0], ['read', 1.0], ['evolve', 3.5], ['read', 1.0]], dx=0.25, dy=0.5),
    _layer('infinite', 9, 6, [0.0, 0.125], [['read', 1.0], ['evolve', 2.0], ['read', 1.0]], dx=0.5, dy=0.125, interp=True),
    _layer('finite', 7, 9, [0.25, -0.5], [['read', 1.0], ['evolve', 1.0], ['read', 1.0], ['evolve', 2.5], ['read', 1.0]], dx=0.25, dy=0.5, k=2.0),
    # periodicity: the displacement crosses 1, 2 and 5 grid extents between reads less than one extent apart
    dict(_layer('finite', 8, 6, [0.25, 0.0], [['read', 1.0], ['evolve', 6.0], ['read', 1.0], ['evolve', 8.0], ['read', 1.0], ['evolve', 10.0], ['read', 1.0],
                                              ['evolve', 15.0], ['read', 1.0], ['evolve', 16.0], ['read', 1.0], ['evolve', 16.25], ['read', 1.0], ['evolve', 18.0], ['read', 1.0],
                                              ['evolve', 39.0], ['read', 1.0], ['evolve', 42.0], ['read', 1.0]]), style='crossing'),
    dict(_layer('finite', 6, 8, [0.0, -0.5], [['evolve', 7.0], ['read', 1.0], ['evolve', 9.0], ['read', 1.0], ['evolve', 15.0], ['read', 1.0],
                                              ['evolve', 17.0], ['read', 1.0]], dx=0.25, dy=0.5), style='crossing'),
    dict(_layer('infinite', 8, 6, [-0.25, 0.0], [['read', 1.0], ['evolve', 7.0], ['read', 1.0], ['evolve', 9.0], ['read', 1.0], ['evolve', 15.0], ['read', 1.0],
                                                 ['evolve', 17.0], ['read', 1.0]]), style='crossing'),
    # generators as heap cells: the seed is a Generator object the caller keeps drawing from
    dict(_layer('finite', 6, 5, [0.25, 0.0], [['read', 1.0], ['evolve', 1.0], ['read', 1.0], ['cdraw', 3], ['reset', False], ['read', 1.0],
                                              ['evolve', 1.0], ['read', 1.0], ['reset', True], ['read', 1.0], ['cdraw', 1], ['reset', False], ['read', 1.0]]),
         heap=True, seedobj=True),
    dict(_layer('infinite', 6, 5, [0.25, 0.0], [['read', 1.0], ['evolve', 1.0], ['read', 1.0], ['cdraw', 2], ['reset', False], ['read', 1.0],
                                                ['evolve', 1.0], ['read', 1.0], ['reset', True], ['evolve', 2.0], ['read', 1.0], ['cdraw', 1],
                                                ['reset', False], ['evolve', 2.0], ['read', 1.0]]), heap=True, seedobj=True),
    dict(_layer('infinite', 5, 7, [0.0, -0.25], [['evolve', 2.0], ['read', 1.0], ['reset', False], ['evolve', 2.0], ['read', 1.0]]), heap=True, ar=True),
    _layer('infinite', 5, 6, [0.25, -0.25], [['evolve', 2.0], ['read', 1.0], ['reset', False, 'none'], ['read', 1.0], ['evolve', 2.0], ['read', 1.0]]),
    dict(_layer('infinite', 5, 5, [0.25, 0.0], [['read', 1.0], ['cdraw', 2], ['evolve', 1.0], ['read', 1.0], ['cdraw', 1], ['reset', False], ['read', 1.0],
                                                ['evolve', 1.0], ['read', 1.0]]), heap=True, seedobj='bitgen'),
    dict(_layer('finite', 5, 6, [0.0, 0.25], [['read', 1.0], ['cdraw', 2], ['reset', False], ['read', 1.0], ['setcn2', 2.0 ** -40], ['cdraw', 1], ['read', 1.0],
                                              ['evolve', 1.0], ['read', 1.0]]), heap=True, seedobj='bitgen'),
    # parameter changes on the running infinite layer
    dict(_layer('infinite', 7, 5, [0.25, 0.0], [['evolve', 1.0], ['read', 1.0], ['setcn2', 2.0 ** -38], ['read', 1.0], ['evolve', 3.0], ['read', 1.0],
                                                ['setl0', 4.0, 'outer_scale'], ['evolve', 4.0], ['read', 0.5], ['reset', False], ['evolve', 1.0], ['read', 1.0]], k=2.0), ar=True),
    dict(_layer('infinite', 5, 6, [0.0, -0.25], [['setcn2', 2.0 ** -39], ['evolve', 2.0], ['read', 1.0], ['setcn2', 2.0 ** -40], ['setcn2', 2.0 ** -41], ['evolve', 3.0],
                                                 ['read', 1.0], ['reset', True], ['evolve', 2.0], ['read', 1.0]], k=3.0), heap=True),
    dict(_layer('infinite', 6, 4, [0.25, 0.25], [['evolve', 1.0], ['read', 0.5], ['setcn2', 2.0 ** -38], ['reset', False], ['evolve', 1.0], ['read', 2.0]]), ar=True),
    dict(_layer('infinite', 4, 6, [-0.25, 0.0], [['evolve', 3.0], ['read', 1.0]], interp=True), ar=True),
    # the finite layer's lazy noise and cached screen: parameter changes on the running layer
    dict(_layer('finite', 6, 6, [0.25, 0.0], [['read', 1.0], ['setcn2', 2.0 ** -38], ['read', 1.0], ['evolve', 1.0], ['read', 1.0],
                                              ['setl0', 4.0, 'outer_scale'], ['evolve', 2.0], ['read', 1.0], ['setvel', [0.0, 0.25]], ['read', 1.0],
                                              ['evolve', 3.0], ['read', 1.0], ['setcn2', 2.0 ** -39], ['setcn2', 2.0 ** -40], ['reset', False],
                                              ['read', 1.0], ['evolve', 3.0], ['read', 1.0]]), heap=True),
    dict(_layer('finite', 5, 8, [0.0, 0.25], [['evolve', 1.0], ['setcn2m', 2.0 ** -39], ['evolve', 1.0], ['read', 1.0], ['read', 2.0],
                                              ['setcn2', 2.0 ** -41], ['reset', True], ['read', 1.0], ['setl0', 5.0, 'L0'], ['evolve', 2.0],
                                              ['read', 1.0]], k=2.0), heap=True, seedobj=True),
    {'kind': 'noise', 'cls': 'multiscale', 'nx': 8, 'ny': 6, 'dx': 0.25, 'dy': 0.25, 'q': 2, 'L0': 10.0, 'seed': 3, 'shift': [2.25, 0.0]},
    {'kind': 'noise', 'cls': 'multiscale', 'nx': 8, 'ny': 6, 'dx': 0.25, 'dy': 0.5, 'q': 2, 'L0': 10.0, 'seed': 3, 'shift': [4.0, -3.0]},
    {'kind': 'noise', 'cls': 'fft', 'nx': 6, 'ny': 8, 'dx': 0.25, 'dy': 0.25, 'q': 2, 'L0': 10.0, 'seed': 3, 'shift': [0.0, 10.25]},
    {'kind': 'noise', 'cls': 'fft', 'nx': 8, 'ny': 8, 'dx': 0.25, 'dy': 0.25, 'q': 1, 'L0': 10.0, 'seed': 3, 'shift': [0.25, 0.0]},
    {'kind': 'noise', 'cls': 'fft', 'nx': 2, 'ny': 3, 'dx': 1.0, 'dy': 1.0, 'q': 1, 'L0': 10.0, 'seed': 3, 'shift': [1.0, 0.0]},
    {'kind': 'noise', 'cls': 'fft', 'nx': 6, 'ny': 9, 'dx': 0.25, 'dy': 0.5, 'q': 2, 'L0': 10.0, 'seed': 3, 'shift': [0.5, 0.5]},
    {'kind': 'noise', 'cls': 'multiscale', 'nx': 9, 'ny': 6, 'dx': 0.25, 'dy': 0.25, 'q': 2, 'L0': 10.0, 'seed': 3, 'shift': [0.0, -0.5]},
    {'kind': 'noise', 'cls': 'multiscale', 'nx': 8, 'ny': 8, 'dx': 0.25, 'dy': 0.25, 'q': 4, 'L0': 10.0, 'seed': 3, 'shift': [0.3125, 0.0]},
    # small grids, synthesised by the model point by point (even/odd sizes, anisotropic pixels, oversampled FFT, both multiscale factors)
    {'kind': 'noise', 'cls': 'fft', 'nx': 4, 'ny': 4, 'dx': 0.25, 'dy': 0.25, 'q': 1, 'L0': 10.0, 'seed': 5, 'shift': [0.25, 0.0]},
    {'kind': 'noise', 'cls': 'fft', 'nx': 3, 'ny': 5, 'dx': 0.5, 'dy': 0.125, 'q': 3, 'L0': 10.0, 'seed': 5, 'shift': [0.5, 0.125]},
    {'kind': 'noise', 'cls': 'multiscale', 'nx': 5, 'ny': 4, 'dx': 0.25, 'dy': 0.5, 'q': 2, 'L0': 10.0, 'seed': 5, 'shift': [0.0, 0.5]},
    {'kind': 'noise', 'cls': 'multiscale', 'nx': 6, 'ny': 3, 'dx': 1.0, 'dy': 1.0, 'q': 4, 'L0': 10.0, 'seed': 5, 'shift': [1.5, -1.0]},
]


# ---------------------------------------------------------------------------------------------

def handle(ctx, case, batch):
    if case['kind'] == 'atmos':
        bad, obs, counts = c15_atmos.judge_atmos(case)
        kinds = ''.join(l['kind'][0] for l in case['layers'])
        ctx.count('atmos:layers %s' % ('all finite' if 'i' not in kinds else 'all infinite' if 'f' not in kinds else 'mixed'))
        ctx.count('atmos:%d layers' % len(kinds))
        for m in case.get('motifs', []):
            ctx.count('atmos:stale-clock motif %s' % m)
        for k, n in counts.items():
            ctx.count(k, n)
        for key, what in bad:
            ctx.violation(key, what, case)
        nread = sum(1 for o in obs if o['op'][0] in ('read', 'forward'))
        ctx.case(case if len(ctx.samples) < 7 and ctx.evaluations % 5 == 0 else None,
                 nontrivial_key=('atmos', kinds, case['nx'], case['ny'], len(case['ops']), bool(case['scint'])) if nread else None)
        lines, want = c15_atmos.atmos_lines(case, obs)
        batch.append((case, obs, lines, want))
        return
    if case['kind'] == 'noise':
        bad, obs, counts = judge_noise(case)
        sig = (case['cls'], case['nx'] == case['ny'], case['shift'][0] != 0, case['shift'][1] != 0, case['nx'], case['ny'])
        ctx.count('noise:%s %s' % (case['cls'], 'square' if case['nx'] == case['ny'] else 'non-square'))
        ctx.count('noise:pixels %s' % ('square' if case['dx'] == case['dy'] else 'non-square (dx != dy)'))
        e = max(abs(case['shift'][0]) / (case['nx'] * case['dx']), abs(case['shift'][1]) / (case['ny'] * case['dy']))
        for lim in (1, 2, 5):
            if e > lim:
                ctx.count('noise:shift > %d extent(s)' % lim)
    else:
        bad, obs, counts = judge(case)
        orc = Oracle(case)
        nres = sum(1 for op in case['ops'] if op[0] == 'reset')
        sig = (case['kind'], case.get('style'), case['nx'], case['ny'], orc.wind_class(), nres, len(case['ops']), case['interp'] if case['kind'] == 'infinite' else None,
               tuple(sorted(set(op[0] for op in case['ops'] if op[0] in SET_OPS))))
        ctx.count('%s:%s %s' % (case['kind'], orc.shape_class(), orc.wind_class()))
        if case.get('style'):
            ctx.count('%s:%s' % (case['kind'], case['style']))
            ctx.count('%s:late small steps' % case['kind'], sum(1 for op in case['ops'] if op[0] == 'evolve') - 1)
        ctx.count('%s:model %s' % (case['kind'], 'heap (hfin/hinf)' if case.get('heap') else 'value (fin/inf)'))
        for m in case.get('motifs', []):
            ctx.count('%s:same-time motif %s' % (case['kind'], m))
        if case.get('seedobj'):
            ctx.count('%s:seed is a %s object' % (case['kind'], 'BitGenerator' if case['seedobj'] == 'bitgen' else 'Generator'))
            ctx.count('%s:caller draws' % case['kind'], sum(1 for op in case['ops'] if op[0] == 'cdraw'))
        ctx.count('%s:parameter setters' % case['kind'], sum(1 for op in case['ops'] if op[0] in SET_OPS))
        if case.get('live'):
            ctx.count('%s:cases with Cn^2 / L0 changed on the running layer' % case['kind'])
        ctx.count('%s:pixels %s' % (case['kind'], 'square' if case['dx'] == case['dy'] else 'non-square (dx != dy)'))
        # accumulated displacement in grid extents, and consecutive reads that straddle a multiple of the extent
        mx, last, strad, on = 0.0, None, 0, 0
        ovs = case.get('oversampling')
        strad_o = 0
        if case['kind'] == 'finite':
            ctx.count('finite:oversampling %s' % ('default' if ovs is None else 'integer' if ovs == int(ovs) else 'non-integer'))
        else:
            ctx.count('infinite:stencil_length %s' % ('default' if case.get('stencil_length') is None else case['stencil_length']))
        ctx.count('%s:height %s' % (case['kind'], 'default' if case.get('height') is None else 'given'))
        vel = list(case['vel'])
        for o in obs:
            if o['op'][0] == 'reset':
                last = None
            if o['op'][0] == 'read' and o['status'] == 'ok':
                e = (o['vel'][0] * o['t'] / (case['nx'] * case['dx']), o['vel'][1] * o['t'] / (case['ny'] * case['dy']))
                mx = max(mx, abs(e[0]), abs(e[1]))
                on += int(any(x != 0 and x == int(x) for x in e))
                if last is not None:
                    for a, b in zip(last, e):
                        if abs(b - a) < 1 and int(np.floor(a)) != int(np.floor(b)):
                            strad += 1
                        if ovs is not None and ovs != int(ovs) and abs(b - a) < 1 and int(np.floor(a / ovs)) != int(np.floor(b / ovs)):
                            strad_o += 1
                last = e
        for lim in (1, 2, 5):
            if mx > lim:
                ctx.count('%s:accumulated displacement > %d extent(s)' % (case['kind'], lim))
        ctx.count('%s:consecutive reads straddling a multiple of the extent' % case['kind'], strad)
        if strad_o:
            ctx.count('finite:consecutive reads straddling a multiple of (non-integer oversampling) x extent', strad_o)
        ctx.count('%s:reads exactly on a multiple of the extent' % case['kind'], on)
        ctx.count('%s:resets' % case['kind'], nres)
        ctx.count('%s:independent resets' % case['kind'], sum(1 for op in case['ops'] if op[0] == 'reset' and op[1]))
        ctx.count('%s:resets through evolve_until(None)' % case['kind'], sum(1 for op in case['ops'] if op[0] == 'reset' and len(op) > 2))
        if case['kind'] == 'infinite':
            ctx.count('infinite:interpolation %s' % ('on' if case['interp'] else 'off'))
            ctx.count('infinite:extrusions', sum(len(o['ext']) for o in obs))
    for k, n in counts.items():
        ctx.count(k, n)
    for key, what in bad:
        ctx.violation(key, what, case)
    nontrivial = sig if (case['kind'] == 'noise' or any(op[0] == 'read' for op in case['ops'])) else None
    ctx.case(case if len(ctx.samples) < 6 and ctx.evaluations % 7 == 0 and len(case.get('ops', [])) < 60 else None, nontrivial_key=nontrivial)
    if obs is None:
        return
    if case['kind'] == 'noise':
        lines = noise_lines(case, obs)
        batch.append((case, obs, lines, None))
    else:
        lines, idx = layer_lines(case, obs)
        xl, want = extra_lines(case, obs)
        batch.append((case, obs, lines + xl, (idx, len(lines), want)))


def run(ctx):
    ctx.rule = ('three families, directed corpus first: (finite) and (infinite) random histories of evolve_until / t-setter / '
                'reset(independent or not) / phase_for on real layers — grids 5..14 px (thorough ..24), 65% non-square, pixel sizes '
                'powers of two (30% anisotropic), wind classes along-x / along-y / diagonal / oblique / still with whole-pixel '
                'displacement per unit time, 40% of the cases with fractional times (sub-pixel), later segments replay a prefix of '
                'the first run; (noise) shifted(s) on SpectralNoiseFactoryFFT / Multiscale. Oracle: bit-equality with a freshly '
                'built layer of the same seed and with earlier runs, layer.t against an own clock, translation by velocity*dt on '
                'the overlap (whole pixels; finite layer also any displacement via the same seed on a displaced grid; infinite '
                'layer without interpolation: nearest pixel; with interpolation: direction), phase_for(lambda)*lambda, and a twin '
                'layer with k^2 Cn^2. Model: centre, t, generator-state identities, extrusion sequence, position of every sample '
                '(symbolic samples vs floats), phase ramp of the shift. Non-trivial = at least one screen read; distinct by '
                '(kind, shape, wind class, #resets, #ops, interpolation).')
    ctx.assumptions += ['numpy Generator: deepcopy yields an equal independent stream; equal states give equal draws',
                        'float arithmetic on the generated dyadic pixel sizes, velocities and times is exact',
                        'FastFourierTransform / MatrixFourierTransform honour the zero of the grid they are built on (C01), used by the displaced-grid oracle']
    n = ctx.scale(300, 6000)
    cases = [copy.deepcopy(c) for c in DIRECTED]
    big = ctx.tier == 'thorough'
    for i in range(n):
        r = i % 10
        if r == 4:
            cases.append(gen_cross_case(ctx.rng, 'finite' if (i // 10) % 3 < 2 else 'infinite', big))
        elif r == 9:
            j = (i // 10) % 3
            cases.append(gen_late_case(ctx.rng, 'finite' if j < 2 else 'infinite', 'huge' if j == 0 else 'fine', big))
        elif r in (0, 1, 5):
            cases.append(gen_layer_case(ctx.rng, 'finite', big and i % 3 == 0))
        elif r in (2, 3, 6):
            cases.append(gen_layer_case(ctx.rng, 'infinite', big and i % 3 == 0))
        else:
            cases.append(gen_noise_case(ctx.rng, big and i % 3 == 0))
    cases += [copy.deepcopy(c) for c in c15_atmos.DIRECTED]
    for i in range(ctx.scale(30, 300)):
        cases.append(c15_atmos.gen_atmos_case(ctx.rng, big and i % 3 == 0))
    for i in range(ctx.scale(24, 200)):
        cases.append(c15_atmos.gen_stale_case(ctx.rng, big and i % 3 == 0))
    for i in range(ctx.scale(20, 160)):
        cases.append(gen_sametime_case(ctx.rng, 'finite' if i % 2 == 0 else 'infinite', big and i % 3 == 0))
    batch = []
    for case in cases:
        handle(ctx, case, batch)
    all_lines = []
    spans = []
    for case, obs, lines, idx in batch:
        spans.append((len(all_lines), len(lines)))
        all_lines += lines
    out = ctx.model(all_lines)
    for (case, obs, lines, idx), (b, m) in zip(batch, spans):
        o = out[b:b + m]
        if case['kind'] == 'atmos':
            c15_atmos.compare_atmos(ctx, case, obs, idx, o)
        elif case['kind'] == 'noise':
            compare_noise(ctx, case, obs, o)
        else:
            idx, nl, want = idx
            compare_layer(ctx, case, obs, o[:nl], idx)
            compare_extra(ctx, case, want, o[nl:])


def replay(ctx, case):
    if case['kind'] == 'atmos':
        bad, _, _ = c15_atmos.judge_atmos(case)
    elif case['kind'] == 'noise':
        bad, _, _ = judge_noise(case)
    else:
        bad, _, _ = judge(case)
    for key, what in bad:
        print('  fails:', key, '-', what)
    return not bad
