"""C02 round 4 — structure tie for the matrix-valued FourierFilter: the driver op `C02 filterm` runs `filterMX`
(Model/FilterM.lean, the definition `filterM_adjoint` in Properties/C02.lean speaks about) and is compared with
`hcipy.FourierFilter.forward/backward` on 2-component fields over a 1-D grid.

Oracle (independent of the Lean model): the dense matrices of forward and backward obtained from unit impulses on ONE
filter object (so the internal array is re-used between calls) must be conjugate transposes of each other, and forward
must equal the numpy reference crop(ifft(D·fft(pad x))).  Correspondence: the model's exact impulse responses.
"""
import numpy as np

from harness.common import MachineryError, rat_list
from harness.props.c01_ties import Tie, eval_psums, maxerr, dy, dy_nz, _reg_grid, LD, CLD


def gen_filterm(rng):
    n = int(rng.integers(1, 7))
    M = int(rng.integers(n, 3 * n + 1)) if rng.integers(0, 4) else n
    kind = str(rng.choice(['dense', 'dense', 'sparse', 'triangular', 'real']))
    re = (rng.integers(-8, 9, size=(2, 2, M)) / 4.0)
    im = (rng.integers(-8, 9, size=(2, 2, M)) / 4.0)
    if kind == 'sparse':
        mask = rng.integers(0, 2, size=(2, 2, M))
        re, im = re * mask, im * mask
    elif kind == 'triangular':
        re[1, 0, :] = 0; im[1, 0, :] = 0
    elif kind == 'real':
        im = im * 0
    # tensor shapes of the fields sent through the ONE filter object: 0 = vector field (2,), c >= 1 = matrix field (2, c);
    # several shapes on one object exercise the re-allocation of the internal array between calls
    r = rng.random()
    if r < 0.3:
        cols = [0]
    elif r < 0.6:
        cols = [int(rng.integers(1, 4))]
    else:
        cols = [int(c) for c in rng.permutation([0, 1, 2, 3])[:int(rng.integers(2, 4))]]
    if n * M > 40:
        cols = cols[:2]
    return {'family': 'tie-filterm', 'n': n, 'M': M, 'delta': dy_nz(rng, 0.125, 2.0), 'zero': dy(rng, -2, 2), 'tf_re': re.tolist(), 'tf_im': im.tolist(),
            'kind': kind, 'cols': cols, 'seed': int(rng.integers(0, 2 ** 31))}


def _shape_name(c):
    return 'vector(2)' if c == 0 else 'matrix(2,%d)' % c


def tie_filterm(case):
    import hcipy
    t = Tie()
    n, M = case['n'], case['M']
    cols = [int(c) for c in case.get('cols', [0])]
    g = _reg_grid([case['delta']], [n], [case['zero']], None)
    q = M / n
    tf_user = np.array(case['tf_re'], dtype='float64') + 1j * np.array(case['tf_im'], dtype='float64')      # (2, 2, M) on the FFT grid (centred order)
    probe = hcipy.FastFourierTransform(g, q)
    if int(probe.internal_shape[0]) != M or probe.output_grid.size != M:
        raise MachineryError('tie-filterm: q = %r on %d samples gives an internal array of %s samples, expected %d' % (q, n, probe.internal_shape, M))
    ff = hcipy.FourierFilter(g, hcipy.Field(tf_user.copy(), probe.output_grid), q)
    rng = np.random.default_rng(case['seed'])
    # dense matrices from impulses, in a random call order on the one object (forward and backward, all tensor shapes interleaved)
    Af = {c: np.zeros((2 * max(c, 1) * n,) * 2, dtype='complex128') for c in cols}
    Ab = {c: np.zeros((2 * max(c, 1) * n,) * 2, dtype='complex128') for c in cols}
    calls = [(d, c, b, k, j) for d in ('fwd', 'bwd') for c in cols for b in (0, 1) for k in range(max(c, 1)) for j in range(n)]
    rng.shuffle(calls)
    for d, c, b, k, j in calls:
        C = max(c, 1)
        shp = (2, n) if c == 0 else (2, c, n)
        x = np.zeros((2, C, n), dtype='complex128'); x[b, k, j] = 1
        fld = hcipy.Field(x.reshape(shp), g)
        try:
            y = np.asarray(ff.forward(fld) if d == 'fwd' else ff.backward(fld))
        except Exception as e:  # noqa
            t.bad.append(('filter-raises', 'FourierFilter.%s (2x2 transfer function) of a %s field raised %s: %s (one object, earlier calls with tensor shapes %s)' % (
                d, _shape_name(c), type(e).__name__, e, [_shape_name(cc) for cc in cols])))
            return t
        if y.shape != shp:
            t.bad.append(('filter-matrix-shape', 'FourierFilter.%s of a %s field returned shape %s' % (d, shp, y.shape)))
            return t
        (Af if d == 'fwd' else Ab)[c][:, (b * C + k) * n + j] = y.reshape(-1)
    D = np.fft.ifftshift(tf_user, axes=-1)
    Dh = np.conj(np.swapaxes(D, 0, 1))
    start = M // 2 - n // 2
    sc_all = 1e-300
    for c in cols:
        C = max(c, 1)
        sc = max(float(np.abs(Af[c]).max()), float(np.abs(Ab[c]).max()), 1e-300)
        sc_all = max(sc_all, sc)
        e = float(np.abs(Ab[c] - Af[c].conj().T).max())
        if not e <= 1e-9 * sc:
            t.bad.append(('filter-adjoint', 'FourierFilter (2x2 transfer function, %s field, %d samples padded to %d): the matrix of backward is not the conjugate transpose '
                          'of the matrix of forward (max difference %.3g, scale %.3g)' % (_shape_name(c), n, M, e, sc)))
        # numpy references: forward = crop(ifft(D · fft(pad x))), backward = crop(ifft(Dᴴ · fft(pad y))), the 2x2 matrix applied from the left to every column
        for dname, A, DD, key in (('forward', Af[c], D, 'filter-matrix-forward'), ('backward', Ab[c], Dh, 'filter-matrix-backward')):
            ref = np.zeros_like(A)
            for b in (0, 1):
                for k in range(C):
                    for j in range(n):
                        X = np.zeros((2, C, M), dtype='complex128'); X[b, k, start + j] = 1
                        Fx = np.fft.fft(X, axis=-1)
                        G = np.einsum('abr,bkr->akr', DD, Fx)
                        ref[:, (b * C + k) * n + j] = np.fft.ifft(G, axis=-1)[:, :, start:start + n].reshape(-1)
            e = float(np.abs(A - ref).max())
            if not e <= 1e-9 * max(float(np.abs(ref).max()), 1e-300):
                t.bad.append((key, 'FourierFilter.%s (2x2 transfer function, %s field) differs from crop(ifft(%s·fft(pad x))) by %.3g' % (
                    dname, _shape_name(c), 'D' if dname == 'forward' else 'Dᴴ', e)))
    # model: D r a b = entry 4r + 2a + b (native order)
    dre = [float(D[a, b, r].real) for r in range(M) for a in (0, 1) for b in (0, 1)]
    dim = [float(D[a, b, r].imag) for r in range(M) for a in (0, 1) for b in (0, 1)]
    picks = []
    for c in cols:
        for d in ('fwd', 'bwd'):
            for _ in range(2 if len(cols) == 1 else 1):
                b, k, j = int(rng.integers(0, 2)), int(rng.integers(0, max(c, 1))), int(rng.integers(0, n))
                picks.append((d, c, b, k, j))
                if c == 0:
                    t.lines.append('C02 filterm %s %d %d %s %s %d %d' % (d, n, M, rat_list(dre), rat_list(dim), b, j))
                else:
                    t.lines.append('C02 filtermm %s %d %d %d %s %s %d %d %d' % (d, n, M, c, rat_list(dre), rat_list(dim), b, k, j))

    def check(rs):
        for (d, c, b, k, j), r in zip(picks, rs):
            if not r.startswith('ok '):
                return 'model filterm %s: %s' % (d, r)
            m = eval_psums(r)
            real = (Af if d == 'fwd' else Ab)[c][:, (b * max(c, 1) + k) * n + j]
            e = maxerr(m, real)
            if not e <= 1e-9 * max(float(np.abs(m).max()), sc_all * 1e-6, 1e-300):
                return 'FourierFilter.%s (2x2 transfer function, n=%d, M=%d, %s field) of the impulse (row %d, column %d, sample %d) differs from the model %s by %.3g' % (
                    'forward' if d == 'fwd' else 'backward', n, M, _shape_name(c), b, k, j, 'filterMX' if c == 0 else 'filterMXM', e)
        return None
    t.check = check
    t.counts = ['tie-filterm:' + case['kind'], 'tie-filterm:' + ('padded' if M > n else 'unpadded'), 'tie-filterm-n:%d' % n,
                'tie-filterm-shapes-on-one-object:%d' % len(cols)] + ['tie-filterm-field:' + _shape_name(c) for c in cols]
    t.sig = ('tie-filterm', n, M, case['kind'], tuple(cols))
    return t


from harness.props import c02_multi  # noqa: E402

GEN = {'tie-filterm': (gen_filterm, tie_filterm), 'tie-multi': (c02_multi.gen_multi, c02_multi.tie_multi)}

DIRECTED = [
    # D = [[0,1],[0,0]] at every frequency: conjugating without transposing is not the adjoint (Bad.filterM_conj_only_not_adjoint)
    {'family': 'tie-filterm', 'n': 1, 'M': 1, 'delta': 1.0, 'zero': 0.0, 'tf_re': [[[0.0], [1.0]], [[0.0], [0.0]]], 'tf_im': [[[0.0], [0.0]], [[0.0], [0.0]]],
     'kind': 'triangular', 'seed': 1},
    {'family': 'tie-filterm', 'n': 3, 'M': 5, 'delta': 0.5, 'zero': -0.5, 'tf_re': [[[1.0, 0.5, 0.0, -1.0, 2.0], [0.0, 1.0, 0.25, 0.0, 0.0]], [[0.0, 0.0, 0.0, 0.0, 0.0], [1.0, 1.0, -0.5, 0.75, 0.0]]],
     'tf_im': [[[0.0, 1.0, 0.0, 0.5, 0.0], [0.25, 0.0, 0.0, -1.0, 0.0]], [[0.0, 0.0, 0.0, 0.0, 0.0], [0.0, -0.5, 0.0, 0.0, 1.0]]], 'kind': 'triangular', 'seed': 2},
    # the same two on matrix-valued fields (Bad.filterM_right_conj_not_adjoint: Y·conj(D) instead of Dᴴ·Y), alone and after a vector field on the one object
    {'family': 'tie-filterm', 'n': 1, 'M': 1, 'delta': 1.0, 'zero': 0.0, 'tf_re': [[[0.0], [1.0]], [[0.0], [0.0]]], 'tf_im': [[[0.0], [0.0]], [[0.0], [0.0]]],
     'kind': 'triangular', 'cols': [2], 'seed': 3},
    {'family': 'tie-filterm', 'n': 3, 'M': 5, 'delta': 0.5, 'zero': -0.5, 'tf_re': [[[1.0, 0.5, 0.0, -1.0, 2.0], [0.0, 1.0, 0.25, 0.0, 0.0]], [[0.0, 0.0, 0.0, 0.0, 0.0], [1.0, 1.0, -0.5, 0.75, 0.0]]],
     'tf_im': [[[0.0, 1.0, 0.0, 0.5, 0.0], [0.25, 0.0, 0.0, -1.0, 0.0]], [[0.0, 0.0, 0.0, 0.0, 0.0], [0.0, -0.5, 0.0, 0.0, 1.0]]], 'kind': 'triangular', 'cols': [0, 2, 3, 1], 'seed': 4},
]


def run_ties(ctx, counts):
    cases = [dict(c) for c in DIRECTED] + [dict(c) for c in c02_multi.DIRECTED]
    for fam, k in counts.items():
        for _ in range(k):
            cases.append(GEN[fam][0](ctx.rng))
    lines, checks = [], []
    for case in cases:
        try:
            t = GEN[case['family']][1](case)
        except MachineryError:
            raise
        except Exception as e:  # noqa
            ctx.violation(case['family'] + '-raises', '%s case raised %s: %s' % (case['family'], type(e).__name__, e), case)
            continue
        for key, what in t.bad:
            ctx.violation(key, what, case)
        for c in t.counts:
            ctx.count(c)
        ctx.count('tie-cases:' + case['family'])
        ctx.case(None, t.sig)
        if t.check is not None:
            checks.append((len(lines), len(t.lines), t.check, case))
            lines += t.lines
    out = ctx.model(lines)
    for start, cnt, chk, case in checks:
        detail = chk(out[start:start + cnt])
        ctx.traces_validated += 1
        if detail == 'ok-discriminates':
            ctx.count('multi:history-on-which-the-shared-pool-model-differs')
        elif detail is not None:
            ctx.disagree('C02 ' + case['family'], {'case': case, 'detail': detail})


def replay_case(ctx, case):
    t = GEN[case['family']][1](case)
    ok = True
    for key, what in t.bad:
        print('  fails:', key, '-', what)
        ok = False
    if t.check is not None:
        detail = t.check(ctx.model(t.lines))
        if detail is not None and detail != 'ok-discriminates':
            print('  model/implementation:', detail)
            ok = False
    return ok
