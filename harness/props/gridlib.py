"""Shared by C10 and C11: grid generators, the real-code driver (an object store of hcipy grids run
in lock step with the Lean store), snapshots, and parsing of the model's canonical output."""
import copy
import math
import pickle
import struct
import warnings
from fractions import Fraction

import numpy as np

from harness.common import rat, rat_list, rat_lists, parse_rat, parse_rat_list, parse_rat_lists, MachineryError

TOL = 1e-9


# ---------------------------------------------------------------------------------------------
# specs: a JSON-serialisable description of a grid
#   {'sys': 'c'|'p', 'kind': 'reg'|'sep'|'uns', 'data': ..., 'w': None | float | [floats], 'int': bool}
#   reg: data = [delta list, dims list, zero list]; sep: list of axes; uns: list of columns

def dy(rng, lo, hi, bits):
    n = int(rng.integers(int(lo * (1 << bits)), int(hi * (1 << bits)) + 1))
    return n / float(1 << bits)


def gen_axis(rng, n, bits, style):
    if style == 'mono':
        steps = [dy(rng, 0, 2, bits) + 2.0 ** -bits for _ in range(n)]
        x0 = dy(rng, -4, 4, bits)
        out = [x0]
        for s in steps[1:]:
            out.append(out[-1] + s)
        return out
    if style == 'desc':
        return gen_axis(rng, n, bits, 'mono')[::-1]
    if style == 'int':
        return [float(v) for v in rng.integers(-5, 6, size=n)]
    return [dy(rng, -4, 4, bits) for _ in range(n)]


def gen_spec(rng, maxdim=3, maxn=6, polar_ok=True, kinds=('reg', 'sep', 'uns'), ndim=None, bits=None):
    kind = str(rng.choice(list(kinds)))
    sysm = 'p' if (polar_ok and rng.random() < 0.25) else 'c'
    if ndim is None:
        ndim = 2 if sysm == 'p' else int(rng.choice([1, 2, 2, 2, 3][:2 + 3 * (maxdim >= 3)] if maxdim >= 2 else [1]))
    if sysm == 'p':
        ndim = 2
    if bits is None:
        bits = int(rng.choice([0, 1, 3, 6]))
    spec = {'sys': sysm, 'kind': kind, 'int': False, 'lowbits': bits <= 3}
    if kind == 'reg':
        dims = [int(rng.integers(1, maxn + 1)) for _ in range(ndim)]
        if rng.random() < 0.3:
            dims = [dims[0]] * ndim
        delta = []
        for _ in range(ndim):
            d = dy(rng, -2, 2, bits) if rng.random() < 0.3 else dy(rng, 0, 2, bits) + 2.0 ** -bits
            if d == 0 and rng.random() < 0.8:
                d = 1.0
            delta.append(d)
        zero = [0.0 if rng.random() < 0.2 else dy(rng, -4, 4, bits) for _ in range(ndim)]
        spec['data'] = [delta, dims, zero]
        size = int(np.prod(dims))
    elif kind == 'sep':
        if rng.random() < 0.35:
            n0 = int(rng.integers(1, maxn + 1))
            lens = [n0] * ndim
        else:
            lens = [int(rng.integers(1, maxn + 1)) for _ in range(ndim)]
        style = str(rng.choice(['mono', 'mono', 'desc', 'any', 'int']))
        spec['data'] = [gen_axis(rng, n, bits, style) for n in lens]
        size = int(np.prod(lens))
    else:
        n = int(rng.integers(1, 2 * maxn + 1))
        style = str(rng.choice(['any', 'any', 'int']))
        spec['data'] = [gen_axis(rng, n, bits, style) for _ in range(ndim)]
        size = n
    r = rng.random()
    if r < 0.65:
        spec['w'] = None
    elif r < 0.8:
        spec['w'] = dy(rng, 0, 4, 3) + 0.125
    else:
        spec['w'] = [dy(rng, 0, 4, 3) + 0.125 for _ in range(size)]
    return spec


def spec_size(spec):
    if spec['kind'] == 'reg':
        return int(np.prod(spec['data'][1]))
    if spec['kind'] == 'sep':
        return int(np.prod([len(a) for a in spec['data']]))
    return len(spec['data'][0])


def spec_integral(spec):
    vals = []
    if spec['kind'] == 'reg':
        vals = spec['data'][0] + spec['data'][2]
    else:
        vals = [v for a in spec['data'] for v in a]
    return all(float(v).is_integer() for v in vals)


class Pool:
    """The arrays the *caller* owns in one case.  `get(values)` hands out the very same ndarray object
    whenever the values are equal, so that a spec with equal axes / delta == zero / weights equal to a
    coordinate column / a second grid with the same arrays is built from aliased inputs.  The oracle
    then requires that no operation on any grid ever changes one of these arrays."""

    def __init__(self):
        self.keys = []
        self.arrays = []
        self.emitted = 0

    def index(self, values):
        key = tuple(float(v) for v in values)
        for k, kk in enumerate(self.keys):
            if kk == key:
                return k
        self.keys.append(key)
        self.arrays.append(np.array(key, dtype='float64'))
        return len(self.keys) - 1

    def get(self, values):
        return self.arrays[self.index(values)]

    def changed(self):
        """indices of caller arrays whose content is no longer what the caller put there"""
        out = []
        for k, (key, arr) in enumerate(zip(self.keys, self.arrays)):
            if arr.shape != (len(key),) or not np.array_equal(arr, np.array(key, dtype='float64')):
                out.append(k)
        return out

    def pending_lines(self, prop):
        lines = ['%s arr %s' % (prop, rat_list(list(k))) for k in self.keys[self.emitted:]]
        self.emitted = len(self.keys)
        return lines


def build(spec, pool=None):
    """Construct the hcipy grid of a spec.  `int`: integer dtype arrays where all values are integral
    (an independently constructed grid with identical coordinates).  `shared` (with a pool): every
    float array handed to the constructors comes from the caller's pool, i.e. equal arrays are the
    same object."""
    import hcipy
    if pool is not None and spec.get('shared') and not spec.get('int'):
        if spec['kind'] == 'reg':
            d, n, z = spec['data']
            coords = hcipy.RegularCoords(pool.get(d), np.array(n, dtype='int64'), pool.get(z))
        elif spec['kind'] == 'sep':
            coords = hcipy.SeparatedCoords([pool.get(a) for a in spec['data']])
        else:
            coords = hcipy.UnstructuredCoords([pool.get(a) for a in spec['data']])
        w = spec['w']
        if isinstance(w, list):
            w = pool.get(w)
        cls = hcipy.CartesianGrid if spec['sys'] == 'c' else hcipy.PolarGrid
        return cls(coords, w)
    forms = spec.get('forms') or {}
    cf = 'int64' if spec.get('int') is True else (spec.get('int') or forms.get('coord', 'float64'))
    if spec['kind'] == 'reg':
        d, n, z = spec['data']
        coords = hcipy.RegularCoords(as_form(d, cf, scalar_ok=True), dims_form(n, forms.get('dims', 'int64')), as_form(z, cf, scalar_ok=True))
    elif spec['kind'] == 'sep':
        coords = hcipy.SeparatedCoords(outer_form([as_form(a, cf) for a in spec['data']], forms.get('outer')))
    else:
        coords = hcipy.UnstructuredCoords(outer_form([as_form(a, cf) for a in spec['data']], forms.get('outer')))
    w = spec['w']
    wf = forms.get('w', 'float64')
    if isinstance(w, list):
        w = as_form(w, wf if wf in ARRAY_FORMS else 'float64')
    elif w is not None:
        w = scalar_form(w, wf)
    cls = hcipy.CartesianGrid if spec['sys'] == 'c' else hcipy.PolarGrid
    return cls(coords, w)


# ---------------------------------------------------------------------------------------------
# argument forms: dtype / container of every constructor and operation argument

INT_DTYPES = ['int64', 'int32', 'int16', 'int8', 'uint8', 'uint16', 'uint32', 'uint64']
ARRAY_FORMS = ['float64', 'float32', 'longdouble', 'list', 'tuple']
SCALAR_FORMS = ['pyfloat', 'npfloat64', 'npfloat32', '0d', 'len1', 'list1', 'pyint', 'npint64', '0dint']
VECTOR_FORMS = ['float64', 'float32', 'longdouble', 'list', 'tuple']


def as_form(values, form, scalar_ok=False):
    """A sequence of numbers in the requested dtype / container.  Scalar forms (regular delta / zero
    with all entries equal) fall back to float64 arrays when the entries differ."""
    values = [float(v) for v in values]
    if form in ('float64', 'float32', 'longdouble'):
        return np.array(values, dtype=form)
    if form in INT_DTYPES:
        return np.array([int(v) for v in values], dtype=form)
    if form == 'bool':
        return np.array([bool(v) for v in values], dtype=bool)
    if form == 'pyintlist':
        return [int(v) for v in values]
    if form == 'list':
        return list(values)
    if form == 'tuple':
        return tuple(values)
    if form == 'computed':
        # the result of a NumPy computation (np.cos([0, 0]) for ones, 0 * x for zeros …): a fresh float64 array
        return np.cos(np.zeros(len(values))) * np.array(values, dtype='float64')
    if form == 'intarr' and all(v.is_integer() for v in values):
        return np.array([int(v) for v in values])
    if scalar_ok and len(set(values)) == 1:
        return scalar_form(values[0], form)
    return np.array(values, dtype='float64')


def scalar_form(x, form):
    x = float(x)
    if form in ('pyint', 'npint64', '0dint') and not x.is_integer():
        form = {'pyint': 'pyfloat', 'npint64': 'npfloat64', '0dint': '0d'}[form]
    if form == 'pyfloat':
        return x
    if form == 'npfloat64':
        return np.float64(x)
    if form == 'npfloat32':
        return np.float32(x)
    if form == '0d':
        return np.array(x)
    if form == 'len1':
        return np.array([x])
    if form == 'list1':
        return [x]
    if form == 'pyint':
        return int(x)
    if form == 'npint64':
        return np.int64(int(x))
    if form == '0dint':
        return np.array(int(x))
    return x


def dims_form(n, form):
    n = [int(v) for v in n]
    if form in INT_DTYPES:
        return np.array(n, dtype=form)
    if form in ('float64', 'float32'):
        return np.array(n, dtype=form)
    if form == 'tuple':
        return tuple(n)
    if form == 'scalar' and len(n) == 1:
        return n[0]
    if form == 'npscalar' and len(n) == 1:
        return np.int32(n[0])
    return list(n)


def outer_form(arrs, form):
    return tuple(arrs) if form == 'tuple' else list(arrs)


def op_arg(arg):
    """The Python object passed to scale()/shift() for an op argument ['s'|'v', value(s), form?]."""
    form = arg[2] if len(arg) > 2 else None
    if arg[0] == 's':
        return scalar_form(arg[1], form or 'pyfloat')
    return as_form(arg[1], form or 'float64')


def int_form(rng, spec):
    """an integer (or bool) dtype / container able to hold the (integral) values of the spec"""
    vals = spec['data'][0] + spec['data'][2] if spec['kind'] == 'reg' else [v for a in spec['data'] for v in a]
    choices = ['int64', 'int32', 'int16', 'pyintlist']
    if all(-128 <= v <= 127 for v in vals):
        choices.append('int8')
    if all(v in (0.0, 1.0) for v in vals) and spec['kind'] != 'reg':
        choices += ['bool']         # (unsigned / bool regular coordinates cannot be negated by reverse(): outside the quantifier)
    return str(rng.choice(choices))


def validate(g):
    """Raises whatever the grid raises when asked for its representation and points."""
    snap(g)
    points(g)


def gen_forms(rng, spec):
    """Choose dtypes / containers for the constructor arguments of a spec (values stay the same).
    float32 is only chosen for specs flagged `lowbits` (few significant bits, so that float32
    arithmetic on them stays exact over a whole history)."""
    forms = {}
    cforms = ['float64', 'longdouble', 'list', 'tuple'] + (['float32', 'float32'] if spec.get('lowbits') else [])
    if spec['kind'] == 'reg':
        forms['dims'] = str(rng.choice(INT_DTYPES + ['pyint', 'tuple', 'float64', 'float32', 'scalar', 'npscalar']))
        cforms += ['pyfloat', '0d', 'npfloat64'] + (['npfloat32'] if spec.get('lowbits') else [])
    forms['coord'] = str(rng.choice(cforms))
    forms['outer'] = str(rng.choice(['list', 'tuple']))
    if isinstance(spec['w'], list):
        forms['w'] = str(rng.choice(['float64', 'longdouble', 'list', 'tuple'] + (['float32'] if spec.get('lowbits') else [])))
    elif spec['w'] is not None:
        forms['w'] = str(rng.choice(['pyfloat', 'npfloat64', '0d', 'pyint'] + (['npfloat32'] if spec.get('lowbits') else [])))
    spec['forms'] = forms
    spec['f32'] = 'float32' in (forms.get('coord'), forms.get('w')) or forms.get('coord') == 'npfloat32' or forms.get('w') == 'npfloat32'
    return spec


def w_text(w):
    if w is None:
        return '-'
    if isinstance(w, list):
        return 'a:' + rat_list(w)
    return 's:' + rat(w)


def coords_text(kind, data):
    if kind == 'reg':
        return 'reg %s %s %s' % (rat_list(data[0]), '[' + ','.join(str(int(n)) for n in data[1]) + ']', rat_list(data[2]))
    return '%s %s' % (kind, rat_lists(data))


def new_line(prop, spec):
    return '%s new %s %s %s' % (prop, spec['sys'], coords_text(spec['kind'], spec['data']), w_text(spec['w']))


def new_lines(prop, spec, pool=None):
    """Model requests constructing the grid of `spec`: from values, or (shared specs) from the caller
    arrays of the pool by index — preceded by the registration of arrays the model has not seen yet."""
    if pool is None or not spec.get('shared') or spec.get('int'):
        return [new_line(prop, spec)]
    if spec['kind'] == 'reg':
        d, n, z = spec['data']
        c = 'reg %d %s %d' % (pool.index(d), '[' + ','.join(str(int(v)) for v in n) + ']', pool.index(z))
    else:
        c = '%s [%s]' % (spec['kind'], ','.join(str(pool.index(a)) for a in spec['data']))
    w = spec['w']
    wt = '-' if w is None else ('@%d' % pool.index(w)) if isinstance(w, list) else 's:' + rat(w)
    return pool.pending_lines(prop) + ['%s newfrom %s %s %s' % (prop, spec['sys'], c, wt)]


def make_shared(rng, spec):
    """Turn a spec into one whose constructor inputs alias each other: equal axes (the same array
    for several axes), delta == zero, weights equal to a coordinate column."""
    spec['shared'] = True
    r = rng.random()
    if spec['kind'] == 'reg':
        if r < 0.6:
            spec['data'][2] = list(spec['data'][0])            # zero is the same array as delta
    else:
        axes = spec['data']
        if r < 0.55:
            spec['data'] = [list(axes[0]) for _ in axes]         # square grid: one array for all axes
        elif r < 0.75 and len(axes) == 3:
            spec['data'] = [axes[0], axes[1], list(axes[0])]
    if spec['kind'] != 'reg' and rng.random() < 0.3:
        size = spec_size(spec)
        for a in spec['data']:
            if len(a) == size:
                spec['w'] = list(a)                              # weights are a coordinate array
                break
    if isinstance(spec['w'], list) and len(spec['w']) != spec_size(spec):
        spec['w'] = None
    return spec


# ---------------------------------------------------------------------------------------------
# snapshots of real grids (read attributes only; never call the weights getter on the live object)

KIND = {'RegularCoords': 'reg', 'SeparatedCoords': 'sep', 'UnstructuredCoords': 'uns'}


def raw_weights(g):
    w = g._weights
    if w is None:
        return None
    if np.ndim(w) == 0:
        return float(w)
    return [float(v) for v in np.asarray(w).ravel()]


def snap(g):
    """(system, kind, data, raw weights) with plain Python floats/ints."""
    kind = KIND[type(g.coords).__name__]
    sysm = {'cartesian': 'c', 'polar': 'p'}[g._coordinate_system]
    c = g.coords
    if kind == 'reg':
        data = [[float(v) for v in c.delta], [int(v) for v in c.dims], [float(v) for v in c.zero]]
    elif kind == 'sep':
        data = [[float(v) for v in a] for a in c.separated_coords]
    else:
        data = [[float(v) for v in a] for a in c.coords]
    return {'sys': sysm, 'kind': kind, 'data': data, 'w': raw_weights(g)}


def ident(s):
    """the identity of a grid for the reference equality: system, kind, coordinate values"""
    return (s['sys'], s['kind'], tuple(tuple(a) for a in s['data']))


def get_weights(g):
    """The weights a user would read, on a deep copy (so that the live grid's cache is not touched).
    Returns ('ok', raw) or ('err', kind)."""
    h = copy.deepcopy(g)
    try:
        with warnings.catch_warnings():
            warnings.simplefilter('ignore')
            w = h.weights
    except IndexError:
        return ('err', 'index')
    except Exception as e:  # noqa
        return ('err', type(e).__name__)
    if np.ndim(w) == 0:
        return ('ok', float(w))
    return ('ok', [float(v) for v in np.asarray(w).ravel()])


def weight_list(g):
    st, w = get_weights(g)
    if st != 'ok':
        return None
    n = int(g.size)
    if isinstance(w, list):
        return np.array(w, dtype=float)
    return np.full(n, w, dtype=float)


def points(g):
    p = np.asarray(g.points, dtype=float)
    return p.reshape(int(g.size), int(g.ndim)) if p.size else np.zeros((0, int(g.ndim)))


def errkind(e):
    if isinstance(e, NotImplementedError):
        return 'notimpl'
    if isinstance(e, ValueError):
        return 'value'
    if isinstance(e, TypeError):
        return 'type'
    if isinstance(e, IndexError):
        return 'index'
    if isinstance(e, AttributeError):
        return 'attr'
    return 'other:' + type(e).__name__


# ---------------------------------------------------------------------------------------------
# parsing the model's `show` line:  ok <sys> <kind> <coords…> <raw weights> <weights getter>

def parse_w(tok):
    if tok == '-':
        return None
    if tok == 'index':
        return 'index'
    if tok.startswith('s:'):
        return parse_rat(tok[2:])
    if tok.startswith('a:'):
        return parse_rat_list(tok[2:])
    raise MachineryError('bad weights token %r' % tok)


def parse_show(line):
    t = line.split(' ')
    if t[0] != 'ok':
        # e.g. `err noobj`: the model never created this grid (model and implementation diverged earlier) —
        # a difference for the correspondence to report, not a fault of the machinery
        return {'refused': line}
    sysm, kind = t[1], t[2]
    if kind == 'reg':
        data = [parse_rat_list(t[3]), [int(x) for x in parse_rat_list(t[4])], parse_rat_list(t[5])]
        rest = t[6:]
    else:
        data = parse_rat_lists(t[3])
        rest = t[4:]
    return {'sys': sysm, 'kind': kind, 'data': data, 'w': parse_w(rest[0]), 'getw': parse_w(rest[1])}


def num_close(a, b, scale):
    return abs(float(a) - float(b)) <= TOL * max(1.0, scale)


def lists_close(a, b, scale=None):
    if len(a) != len(b):
        return False
    if scale is None:
        scale = max([abs(float(x)) for x in list(a) + list(b)] + [1.0])
    return all(num_close(x, y, scale) for x, y in zip(a, b))


def w_same(m, r):
    """model weights value (None | Fraction | list | 'index') against the real one"""
    if m is None or r is None or m == 'index' or r == 'index':
        return m == r
    if isinstance(m, list) != isinstance(r, list):
        return False
    if isinstance(m, list):
        return lists_close(m, r)
    return num_close(m, r, abs(float(m)))


def compare_show(model, real, real_getw, weights=True):
    """Returns None or a short description of the first difference. Exactness flag second."""
    if 'refused' in model:
        return 'the model has no such grid: it answered %r' % model['refused']
    if model['sys'] != real['sys']:
        return 'system %s vs %s' % (model['sys'], real['sys'])
    if model['kind'] != real['kind']:
        return 'kind %s vs %s' % (model['kind'], real['kind'])
    md, rd = model['data'], real['data']
    if model['kind'] == 'reg':
        if md[1] != rd[1]:
            return 'dims %r vs %r' % (md[1], rd[1])
        if not lists_close(md[0], rd[0]):
            return 'delta %r vs %r' % ([float(x) for x in md[0]], rd[0])
        if not lists_close(md[2], rd[2]):
            return 'zero %r vs %r' % ([float(x) for x in md[2]], rd[2])
    else:
        if len(md) != len(rd):
            return 'ndim %d vs %d' % (len(md), len(rd))
        scale = max([abs(float(x)) for a in rd for x in a] + [1.0])
        for k, (a, b) in enumerate(zip(md, rd)):
            if not lists_close(a, b, scale):
                return 'axis %d: %r vs %r' % (k, [float(x) for x in a][:8], b[:8])
    if weights and not w_same(model['w'], real['w']):
        return 'stored weights %r vs %r' % (_short(model['w']), _short(real['w']))
    if real_getw is not None:
        rg = real_getw[1] if real_getw[0] == 'ok' else real_getw[1]
        if not w_same(model['getw'], rg):
            return 'weights %r vs %r' % (_short(model['getw']), _short(rg))
    return None


def _short(w):
    if isinstance(w, list):
        return [float(x) for x in w[:8]]
    if isinstance(w, Fraction):
        return float(w)
    return w


def exact_same(model, real):
    """True iff every coordinate value of the real grid is exactly the model's rational."""
    md, rd = model['data'], real['data']
    if model['kind'] != real['kind'] or model['sys'] != real['sys']:
        return False
    if model['kind'] == 'reg':
        return (md[1] == rd[1] and len(md[0]) == len(rd[0]) and all(Fraction(y) == x for x, y in zip(md[0], rd[0]))
                and all(Fraction(y) == x for x, y in zip(md[2], rd[2])))
    return len(md) == len(rd) and all(len(a) == len(b) and all(Fraction(y) == x for x, y in zip(a, b)) for a, b in zip(md, rd))


def hash_of_tokens(toks):
    """xxh64 of the byte string the model says the (repaired) code feeds to the hash."""
    import xxhash
    h = xxhash.xxh64()
    for t in toks.split(','):
        if t[0] == 'n':
            h.update({'c': 'cartesian', 'p': 'polar'}[t[1:]].encode())
        elif t[0] == 'f':
            h.update(struct.pack('<d', float(Fraction(t[1:])) + 0.0))
        elif t[0] == 'i':
            h.update(struct.pack('<q', int(t[1:])))
        else:
            raise MachineryError('bad hash token %r' % t)
    d = h.intdigest()
    # what the builtin hash() makes of the int returned by __hash__: kept if it fits a signed
    # 64-bit word, otherwise folded like any Python int
    return d if d < 2 ** 63 else hash(d)


def safe_hash(g):
    try:
        return ('ok', hash(g))
    except Exception as e:  # noqa
        return ('err', errkind(e))


def roundtrip(g, how):
    import hcipy
    if how == 'copy':
        return g.copy()
    if how == 'dict':
        return hcipy.Grid.from_dict(g.to_dict())
    if how == 'pickle':
        return pickle.loads(pickle.dumps(g))
    raise MachineryError(how)


PYTH = [(3, 4, 5), (5, 12, 13), (8, 15, 17), (7, 24, 25), (20, 21, 29)]


def gen_angle(rng):
    """(c, s) exact Fractions with c^2+s^2=1, any quadrant, including the axes."""
    r = rng.random()
    if r < 0.12:
        return [(Fraction(1), Fraction(0)), (Fraction(0), Fraction(1)), (Fraction(-1), Fraction(0)), (Fraction(0), Fraction(-1))][int(rng.integers(0, 4))]
    a, b, c = PYTH[int(rng.integers(0, len(PYTH)))]
    if rng.random() < 0.5:
        a, b = b, a
    sa = -1 if rng.random() < 0.5 else 1
    sb = -1 if rng.random() < 0.5 else 1
    return (Fraction(sa * a, c), Fraction(sb * b, c))


UNIT3 = [(1, 0, 0), (0, 1, 0), (0, 0, 1), (Fraction(2, 3), Fraction(2, 3), Fraction(1, 3)),
         (Fraction(2, 7), Fraction(3, 7), Fraction(6, 7)), (Fraction(1, 3), Fraction(-2, 3), Fraction(2, 3)),
         (Fraction(-4, 9), Fraction(1, 9), Fraction(8, 9))]


def fr(x):
    return str(x.numerator) if x.denominator == 1 else '%d/%d' % (x.numerator, x.denominator)
