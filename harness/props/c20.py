"""C20 — DynamicOpticalSystem: correspondence with the Lean scheduler model + direct oracle."""
from harness.common import rat, MachineryError, shrink_list

EPS = 1e-6
TINY = 2.0 ** -22      # 2.4e-7: lets sums of a few TINY fall on either side of the 1e-6 threshold
FUEL = 100000


# ---------------------------------------------------------------------------------------------
# generation

def gen_history(rng, big):
    """ops: ('kids', id, [(delay, child)]) | ('add', t, id) | ('evolve', T)"""
    ops = []
    nids = int(rng.integers(1, 7 if not big else 12))
    style = rng.choice(['plain', 'ties', 'coalesce', 'reinserting', 'empty', 'mixed'])
    # callback behaviours: zero/small delays only towards larger ids (a DAG), self-reinsertion
    # only with a delay of at least 1/8 so that every history terminates
    for i in range(nids):
        kids = []
        if style in ('reinserting', 'mixed') and rng.random() < 0.6:
            kids.append((float(rng.integers(1, 9)) / 8.0 + (TINY * int(rng.integers(0, 3)) if style == 'mixed' else 0.0), i))
        if style in ('mixed', 'coalesce', 'ties') and i + 1 < nids and rng.random() < 0.5:
            j = int(rng.integers(i + 1, nids))
            d = [0.0, TINY * int(rng.integers(0, 6)), float(rng.integers(0, 5)) / 4.0][int(rng.integers(0, 3))]
            kids.append((d, j))
        if kids:
            ops.append(('kids', i, kids))
    t = 0.0
    nphases = int(rng.integers(1, 5 if not big else 9))
    for _ in range(nphases):
        nadd = 0 if style == 'empty' and rng.random() < 0.8 else int(rng.integers(0, 6 if not big else 15))
        for _ in range(nadd):
            base = t + float(rng.integers(0, 17)) / 4.0
            if style in ('ties', 'mixed') and rng.random() < 0.5:
                base = t + float(rng.integers(0, 3))
            if style in ('coalesce', 'mixed'):
                base += TINY * int(rng.integers(0, 7))
            ops.append(('add', base, int(rng.integers(0, nids))))
        r = rng.random()
        if r < 0.08 and t > 0:
            ops.append(('evolve', t - float(rng.integers(1, 5)) / 4.0))       # backwards: must be refused
        elif r < 0.16:
            ops.append(('evolve', t))                                           # zero-length evolution
        else:
            t = t + float(rng.integers(0, 13)) / 4.0 + (TINY * int(rng.integers(0, 6)) if style in ('coalesce', 'mixed') else 0.0)
            ops.append(('evolve', t))
    return style, ops


def respell(rng, ops):
    """Choose how the caller spells the time arguments of a generated history (the values stay the same).
    Returns (spelling style, ops).  'float': as generated.  'mixed': every call draws from all spellings.
    'arrays': fresh 0-d / 1-element arrays everywhere.  'running0d' / 'running1d': ONE caller-owned array that is
    overwritten in place before each evolve_until (and some add_callback) - the time-stepping-loop idiom."""
    sp = ['float', 'float', 'mixed', 'mixed', 'arrays', 'running0d', 'running1d'][int(rng.integers(0, 7))]
    if sp == 'float':
        return sp, ops
    out = []
    if rng.random() < 0.4:
        out.append(('mode', 'clockobj'))
    for op in ops:
        if op[0] not in ('add', 'evolve'):
            out.append(op)
            continue
        if sp == 'mixed':
            how = SPELLINGS[int(rng.integers(0, len(SPELLINGS)))]
        elif sp == 'arrays':
            how = ('0d', '1d')[int(rng.integers(0, 2))]
        else:
            own = '0ds' if sp == 'running0d' else '1ds'
            how = own if op[0] == 'evolve' or rng.random() < 0.3 else ('f', 'np', 'i', own[:2])[int(rng.integers(0, 4))]
        out.append(tuple(op) + (how,))
    return sp, out


# ---------------------------------------------------------------------------------------------
# the real code

SPELLINGS = ('f', 'i', 'ni', 'np', '0d', '1d', '0ds', '1ds')


def fl(x):
    """The value of a time object (float/int/NumPy scalar/0-d or 1-element array) as a Python float."""
    import numpy as np
    return float(np.asarray(x, dtype=float).reshape(-1)[0])


def spell(x, how, shared):
    """The time `x` (a float) in the spelling `how`.  Returns (object handed to hcipy, the caller-owned mutable
    array inside it or None).  'i'/'ni' fall back to float when x is not integral; '0ds'/'1ds' reuse ONE array per
    history that the caller overwrites in place before every call (the `t += dt; evolve_until(t)` idiom)."""
    import numpy as np
    x = float(x)
    if how == 'i' and x.is_integer():
        return int(x), None
    if how == 'ni' and x.is_integer():
        return np.int64(int(x)), None
    if how == 'np':
        return np.float64(x), None
    if how == '0d':
        a = np.array(x)
        return a, a
    if how == '1d':
        a = np.array([x])
        return a, a
    if how in ('0ds', '1ds'):
        a = shared.setdefault(how, np.array(0.0) if how == '0ds' else np.array([0.0]))
        a[...] = x
        return a, a
    return x, None


def run_real(ops):
    """Execute a history on hcipy's DynamicOpticalSystem.  Returns per-evolve observations.

    ops: ('kids', id, [(delay, child)]) | ('add', t, id[, spelling]) | ('evolve', T[, spelling]) | ('mode', 'clockobj').
    Times are handed over in the given spelling; when that is a caller-owned array the caller MUTATES it in place
    right after the call (a snapshot of clock and queue, as floats, is taken before and after the mutation: the
    time arguments are values, so nothing may move).  In mode 'clockobj' a callback that schedules a child for its own
    instant passes the system's clock object `self.t` itself back into add_callback.  Everything recorded is a float
    taken at the moment of the observation."""
    import hcipy

    class Sys(hcipy.DynamicOpticalSystem):
        def __init__(self):
            super().__init__()
            self.events = []

        def integrate(self, dt):
            self.events.append(('I', fl(dt)))

    s = Sys()
    kids = {}
    scheduled = []     # every add_callback: (time, ctr, id)
    mode = set()
    shared = {}
    alias = []         # (key, what) found since the last evolve
    npoison = [0]

    def snap():
        return (fl(s.t), sorted((fl(q[0]), q[1]) for q in s.callbacks))

    def moved(before, after, call):
        """clause: a caller's in-place change of ITS OWN array must not reach the system (key by what moved)"""
        if before[0] != after[0]:
            alias.append(('clock-aliases-caller-object', '%s the caller changed its own time array in place and the '
                          "system's clock moved with it: %r -> %r" % (call, before[0], after[0])))
        if before[1] != after[1]:
            alias.append(('queue-aliases-caller-object', '%s the caller changed its own time array in place and the queued '
                          'times moved with it: %r -> %r' % (call, [q[0] for q in before[1]][:4], [q[0] for q in after[1]][:4])))

    def poison(arr, call):
        """the caller goes on using ITS array: advance it a little, a lot, or rewind it"""
        before = snap()
        k = npoison[0]
        npoison[0] += 1
        if k % 3 == 0:
            arr += 0.5
        elif k % 3 == 1:
            arr += 1024.5
        else:
            arr[...] = -3.5
        moved(before, snap(), 'after ' + call)

    def spelled(x, how):
        """`spell`, observing that overwriting the caller's shared array for the next call moves nothing either"""
        before = snap()
        arg, mut = spell(x, how, shared)
        if how in ('0ds', '1ds'):
            moved(before, snap(), 'preparing the next call (overwriting its running-time array with %r)' % float(x))
        return arg, mut

    def add(t, cid, how='f', obj=None):
        ctr = s.callback_counter
        scheduled.append((t, ctr, cid))

        def cb():
            s.events.append(('F', t, ctr, cid, fl(s.t)))
            for d, child in kids.get(cid, []):
                if 'clockobj' in mode and d == 0 and fl(s.t) == t:
                    add(t, child, obj=s.t)          # "now", spelled as the clock object itself
                else:
                    add(t + d, child)
        if obj is not None:
            s.add_callback(obj, cb)
            return
        arg, mut = spelled(t, how)
        s.add_callback(arg, cb)
        if mut is not None:
            poison(mut, 'add_callback(<%s array %r>)' % (how, t))

    obs = []
    hz = 0.0                    # the largest target an accepted evolve_until was given
    adds_after_horizon = True   # every add_callback from outside was for a time >= hz at that moment
    for op in ops:
        if op[0] == 'kids':
            kids[op[1]] = [(float(d), int(c)) for d, c in op[2]]
        elif op[0] == 'mode':
            mode.add(op[1])
        elif op[0] == 'add':
            if float(op[1]) < hz:
                adds_after_horizon = False
            add(float(op[1]), int(op[2]), how=(op[3] if len(op) > 3 else 'f'))
        elif op[0] == 'evolve':
            s.events = []
            t0 = fl(s.t)
            n_sched0 = len(scheduled)
            status = 'ok'
            how = op[2] if len(op) > 2 else 'f'
            arg, mut = spelled(op[1], how)
            try:
                s.evolve_until(arg)
            except ValueError:
                status = 'value'
            except IndexError:
                status = 'index'
            except Exception as e:  # noqa
                status = 'other:' + type(e).__name__
            if status != 'value':
                hz = max(hz, float(op[1]))
            t1 = fl(s.t)
            queue = sorted((fl(q[0]), q[1]) for q in s.callbacks)
            if mut is not None:
                poison(mut, 'evolve_until(<%s array %r>)' % (how, float(op[1])))
            obs.append({'T': float(op[1]), 'status': status, 't0': t0, 't1': t1, 'ctr': s.callback_counter,
                        'events': list(s.events), 'queue': queue, 'scheduled': list(scheduled), 'n_sched0': n_sched0,
                        'hz': hz, 'adds_after_horizon': adds_after_horizon, 'alias': alias})
            alias = []
    if alias and obs:
        obs[-1]['alias'] = obs[-1]['alias'] + alias
    return obs


def real_hist_line(obs, ops):
    """The whole-history summary the model prints for `C20 hist` (Lean: `Hist` after `runOps`)."""
    fires = [e for o in obs for e in o['events'] if e[0] == 'F']
    keys = [(e[1], e[2]) for e in fires]
    last = obs[-1]
    # adds after the last evolve are created and pending too
    nadd_after = 0
    for op in reversed(ops):
        if op[0] == 'evolve':
            break
        if op[0] == 'add':
            nadd_after += 1
    return 'hz=%s t=%s created=%d fired=%d pending=%d sorted=%s run=%s' % (
        rat(last['hz']), rat(last['t1']), last['ctr'] + nadd_after, len(fires), len(last['queue']) + nadd_after,
        'true' if all(a < b for a, b in zip(keys, keys[1:])) else 'false',
        ';'.join('%s:%d:%d' % (rat(e[1]), e[2], e[3]) for e in fires))


def real_line(o):
    ev = []
    for e in o['events']:
        if e[0] == 'I':
            ev.append('I:' + rat(e[1]))
        else:
            ev.append('F:%s:%d:%d:%s' % (rat(e[1]), e[2], e[3], rat(e[4])))
    ids = {(t, c): i for (t, c, i) in o['scheduled']}
    # an entry the harness did not schedule itself (re-inserted by the implementation) prints as id -1:
    # that is a correspondence difference, never a harness fault
    q = ';'.join('%s:%d:%d' % (rat(t), c, ids.get((t, c), -1)) for (t, c) in o['queue'])
    return '%s t=%s ctr=%d trace=%s queue=%s' % (o['status'], rat(o['t1']), o['ctr'], ';'.join(ev), q)


def model_lines(ops):
    lines = ['C20 reset']
    idx = []
    for op in ops:
        if op[0] == 'kids':
            lines.append('C20 kids %d %s' % (op[1], ','.join('%s:%d' % (rat(d), c) for d, c in op[2])))
        elif op[0] == 'add':
            lines.append('C20 add %s %d' % (rat(op[1]), op[2]))
        elif op[0] == 'mode':
            continue            # how the times are spelled is invisible to the model: times are values
        else:
            idx.append(len(lines))
            lines.append('C20 evolve %s %d new' % (rat(op[1]), FUEL))
    lines.append('C20 hist')
    return lines, idx


# ---------------------------------------------------------------------------------------------
# the property itself, stated on the observations of the real code (independent of the model)

def oracle(obs):
    """Returns a list of (key, what) for every clause of C20 that fails on these observations."""
    bad = []
    executed_before = set()
    for k, o in enumerate(obs):
        # time arguments are values: the caller's later in-place changes of ITS array must not reach the system
        bad.extend(o.get('alias', []))
        T = o['T']
        if T < o['t0']:
            if o['status'] != 'value':
                bad.append(('backwards-not-refused', 'evolve_until(%r) with clock %r was not refused' % (T, o['t0'])))
            elif o['events'] or o['t1'] != o['t0']:
                bad.append(('backwards-side-effects', 'refused backwards evolution changed the system'))
            continue
        if o['status'] != 'ok':
            pending = [q for q in o['queue']]
            key = 'raises-%s%s' % (o['status'], '-empty-queue' if not pending else '')
            bad.append((key, 'evolve_until(%r) raised %s (queue %s)' % (T, o['status'], 'empty' if not pending else 'non-empty')))
            continue
        fires = [e for e in o['events'] if e[0] == 'F']
        fired_keys = [(e[1], e[2]) for e in fires]
        # exactly once: everything ever scheduled with time < T and not executed earlier
        due = set((t, c) for (t, c, i) in o['scheduled'] if t < T) - executed_before
        if len(set(fired_keys)) != len(fired_keys):
            bad.append(('exactly-once', 'a callback ran twice'))
        if set(fired_keys) != due:
            missing = sorted(due - set(fired_keys))[:3]
            extra = sorted(set(fired_keys) - due)[:3]
            bad.append(('exactly-once', 'executed set differs from the callbacks due before T=%r: missing %r, extra %r' % (T, missing, extra)))
        executed_before |= set(fired_keys)
        if fired_keys != sorted(fired_keys):
            bad.append(('order', 'callbacks did not run in (time, insertion) order: %r' % (fired_keys[:6],)))
        for e in fires:
            lag = e[1] - e[4]
            if lag < -1e-12 or lag > EPS + 1e-12:
                bad.append(('clock-at-callback', 'callback due at %r ran with the clock at %r' % (e[1], e[4])))
                break
        dts = [e[1] for e in o['events'] if e[0] == 'I']
        if any(dt <= EPS for dt in dts):
            bad.append(('tiling', 'an integration interval of at most 1e-6 was integrated'))
        if abs(sum(dts) - (o['t1'] - o['t0'])) > 1e-9 * max(1.0, abs(o['t1'])):
            bad.append(('tiling', 'integration intervals sum to %r but the clock moved by %r' % (sum(dts), o['t1'] - o['t0'])))
        # gap-free: replaying the intervals from t0 passes through every callback clock
        clock = o['t0']
        for e in o['events']:
            if e[0] == 'I':
                clock += e[1]
            elif abs(clock - e[4]) > 1e-9 * max(1.0, abs(clock)):
                bad.append(('tiling', 'clock at a callback is not the sum of the intervals integrated so far'))
                break
        if not (-1e-12 <= T - o['t1'] <= EPS + 1e-12):
            bad.append(('clock-end', 'clock ended at %r for target %r' % (o['t1'], T)))
        if any(t < T for (t, c) in o['queue']):
            bad.append(('exactly-once', 'a callback due before T is still queued'))
    # history level (Lean: history_inv): when no add_callback was for a time before the largest target
    # already evolved to, the callbacks run in (time, insertion) order ACROSS evolve_until calls as well
    if obs and obs[-1]['adds_after_horizon']:
        allkeys = [(e[1], e[2]) for o in obs if o['status'] == 'ok' for e in o['events'] if e[0] == 'F']
        if any(not (a < b) for a, b in zip(allkeys, allkeys[1:])):
            bad.append(('order-across-evolves', 'callbacks of successive evolve_until calls did not run in (time, insertion) order'))
    return bad


# ---------------------------------------------------------------------------------------------

DIRECTED = [
    ('empty', [('evolve', 1.0)]),
    ('empty', [('evolve', 0.0), ('evolve', 0.0), ('evolve', 2.5)]),
    ('drain', [('add', 0.5, 0), ('evolve', 1.0), ('evolve', 2.0)]),
    ('ties', [('add', 1.0, 2), ('add', 1.0, 1), ('add', 1.0, 0), ('evolve', 1.0), ('evolve', 1.25)]),
    ('reinserting', [('kids', 0, [(0.25, 0)]), ('add', 0.0, 0), ('evolve', 1.0), ('evolve', 1.0), ('evolve', 3.0)]),
    ('coalesce', [('add', 1.0, 0), ('add', 1.0 + 3 * TINY, 1), ('add', 1.0 + 5 * TINY, 2), ('add', 1.0 + 9 * TINY, 3), ('evolve', 1.0 + 11 * TINY), ('evolve', 2.0)]),
    ('horizon', [('add', 2.0, 0), ('evolve', 2.0), ('evolve', 2.0 + TINY), ('evolve', 2.0 + 8 * TINY)]),
    ('backwards', [('add', 3.0, 0), ('evolve', 1.0), ('evolve', 0.5), ('evolve', 4.0)]),
    ('child-now', [('kids', 0, [(0.0, 1)]), ('kids', 1, [(0.0, 2)]), ('add', 1.0, 0), ('add', 1.0, 2), ('evolve', 2.0)]),
    # spellings of the time arguments and caller-owned arrays that are changed in place after the call
    ('spelled', [('add', 0.25, 0), ('add', 0.75, 1), ('add', 0.75, 2), ('add', 1.25, 3), ('add', 2.0, 4), ('add', 9.0, 5)] +
                [('evolve', 0.5 * k, '0ds') for k in range(1, 6)]),
    ('spelled', [('add', 0.25, 0), ('add', 1.25, 1), ('add', 9.0, 2)] + [('evolve', 0.5 * k, '1ds') for k in range(1, 6)]),
    ('spelled', [('add', 1.0, 0, '0d'), ('add', 2.0, 1, '1d'), ('add', 1.5, 2, '0ds'), ('add', 0.5, 3, '0ds'), ('evolve', 1.75, '0d'),
                 ('add', 2.0, 4, 'ni'), ('evolve', 3.0, 'i'), ('evolve', 3.0, 'np'), ('evolve', 4.0, '1d')]),
    ('spelled', [('mode', 'clockobj'), ('kids', 0, [(0.0, 1), (0.25, 0)]), ('kids', 1, [(0.0, 2)]), ('add', 0.5, 0, '1d'),
                 ('evolve', 1.0, '1ds'), ('evolve', 1.0, '1ds'), ('evolve', 2.125, '1ds'), ('evolve', 1.0, '0d'), ('evolve', 3.0, '0ds')]),
    ('spelled', [('mode', 'clockobj'), ('kids', 0, [(0.0, 1)]), ('add', 1.0, 0, '0d'), ('add', 1.0 + 3 * TINY, 1, '1d'),
                 ('evolve', 1.0 + 5 * TINY, '1d'), ('add', 2.0, 0, 'np'), ('evolve', 2.0 + 2 * TINY, '0ds'), ('evolve', 3.0, '0ds')]),
]


def check_history(ctx, style, ops, want_model=True):
    obs = run_real(ops)
    bad = oracle(obs)
    seen = set()
    for key, what in bad:
        if key in seen:
            continue
        seen.add(key)
        small = shrink_list(ops, lambda o: any(k == key for k, _ in oracle(run_real(o))))
        what_small = [w for k, w in oracle(run_real(small)) if k == key]
        ctx.violation(key, what_small[0] if what_small else what, {'ops': small})
    nfire = sum(1 for o in obs for e in o['events'] if e[0] == 'F')
    ctx.count('style:' + style)
    ctx.count('evolves', len(obs))
    ctx.count('callbacks_fired', nfire)
    ctx.count('status:' + ','.join(sorted(set(o['status'] for o in obs))))
    coalesced = sum(1 for o in obs for e in o['events'] if e[0] == 'F' and e[1] != e[4])
    ctx.count('callbacks_run_with_lagging_clock', coalesced)
    sig = (style, len(ops), nfire, coalesced > 0, tuple(o['status'] for o in obs))
    ctx.case({'style': style, 'ops': ops} if nfire > 1 else None, nontrivial_key=sig if nfire > 0 or len(obs) > 1 else None)
    return obs


def run(ctx):
    ctx.rule = ('histories of add_callback / evolve_until on a recording subclass of DynamicOpticalSystem: '
                'directed corpus first, then random histories (styles plain/ties/coalesce/reinserting/empty/mixed; '
                'times dyadic, some offset by multiples of 2^-22 to exercise the 1e-6 coalescing; callbacks schedule '
                'children or re-insert themselves). Every evolve_until is compared line by line (status, clock, counter, '
                'integrate/fire trace, remaining queue) with the Lean model, the whole-history summary (time evolved to, '
                'clock, #created, #executed, #pending, executed sequence over all evolutions and whether it is in order) '
                'is compared with the model\'s `Hist` (the object of the history theorems), and the property clauses '
                '(including order across evolve_until calls when no add was before the time already evolved to) are evaluated '
                'directly on the observations. The time arguments are spelled as float / int / NumPy scalar / 0-d array / '
                '1-element array / one caller-owned array overwritten in place per call (about 5 of 7 random histories), the caller '
                'changes its arrays in place right after each call and clock and queue (as floats) must not move; callbacks may pass '
                'the clock object itself back into add_callback. Non-trivial = at least one callback fired or several evolutions; '
                'distinct by (style, #ops, #fired, coalescing seen, statuses).')
    ctx.assumptions += ['heapq pops the least (time, counter) tuple', 'float arithmetic on the generated dyadic times is exact']
    n = ctx.scale(400, 6000)
    hist = [(s, o) for s, o in DIRECTED]
    for k in range(n):
        style, ops = gen_history(ctx.rng, big=(ctx.tier == 'thorough' and k % 3 == 0))
        sp, ops = respell(ctx.rng, ops)
        ctx.count('spelling:' + sp)
        hist.append((style, ops))
    all_lines = []
    index = []
    observations = []
    for style, ops in hist:
        obs = check_history(ctx, style, ops)
        lines, idx = model_lines(ops)
        base = len(all_lines)
        all_lines += lines
        index.append([base + i for i in idx] + [base + len(lines) - 1])
        observations.append((style, ops, obs))
    out = ctx.model(all_lines)
    for (style, ops, obs), idx in zip(observations, index):
        ihist = idx.pop()
        agree = True
        for o, i in zip(obs, idx):
            ctx.traces_validated += 1
            if out[i].startswith('fuel'):
                raise MachineryError('model ran out of fuel on %r' % (ops,))
            if real_line(o) != out[i]:
                ctx.disagree('C20 evolve', {'ops': ops, 'T': o['T'], 'impl': real_line(o), 'model': out[i]},
                             key=('raises-index-empty-queue' if o['status'] == 'index' else None))
                agree = False
                break
        # whole-history summary: time evolved to, clock, #created, #executed, #pending, global order
        if agree and obs and all(o['status'] in ('ok', 'value') for o in obs):
            ctx.traces_validated += 1
            ctx.count('history_summaries_compared')
            if obs[-1]['adds_after_horizon']:
                ctx.count('histories_with_adds_after_horizon')
            rl = real_hist_line(obs, ops)
            if rl != out[ihist]:
                ctx.disagree('C20 hist', {'ops': ops, 'impl': rl, 'model': out[ihist]})


def replay(ctx, case):
    ops = [tuple(op) for op in case['ops']]
    bad = oracle(run_real(ops))
    for key, what in bad:
        print('  fails:', key, '-', what)
    return not bad
