"""C20 — DynamicOpticalSystem: correspondence with the Lean scheduler model + direct oracle."""
from fractions import Fraction
from harness.common import rat, MachineryError, shrink_list

EPS = 1e-6
TINY = 2.0 ** -22      # 2.4e-7: lets sums of a few TINY fall on either side of the 1e-6 threshold
FUEL = 100000
U = 2.0 ** -72         # the unit in the last place of the double 1e-6 (= 4722366482869645 * U)
NE = 4722366482869645  # mantissa of the double 1e-6
NH = (NE - 1) // 2     # NH + (NH + 1) == NE: two stretches that add up to exactly the threshold
STYLES = ['plain', 'ties', 'coalesce', 'reinserting', 'empty', 'mixed',
          'pastadds', 'negkids', 'epsgrid', 'decimal', 'diverge', 'clockrel', 'interrupt', 'exact', 'reent']


class Runaway(BaseException):
    """(a BaseException: an implementation that wraps the callback in `except Exception` must not swallow it; the
    watchdog timer repeats for the same reason)  raised by the recorder itself (hard guard, always on): one evolve_until executed more callbacks + integrations
    than the history can account for (a callback fired again and again), or did not return within the wall-clock
    watchdog.  Never raised on a correct implementation: generated histories terminate (dry-run `population`)."""


class Obs(list):
    """the per-evolve observations of one history + `faults`: (key, what) for a public call outside evolve_until that
    raised (add_callback refusing a legal time argument) - the history stops there"""
    def __init__(self, *a):
        list.__init__(self, *a)
        self.faults = []


class PreRaise(Exception):
    """raised by the harness's callback wrapper BEFORE it does anything (op ('raise', n): the n-th callback called within
    one evolve_until) - Lean `loopX`, `raise_eq_fuel_out`"""


class FuelGuard(Exception):
    """raised by the harness's own callback wrapper after N executions within one evolve_until: the stand-in for the
    model's fuel (the real loop of a zero-delay self-re-inserting callback would spin forever)"""


# ---------------------------------------------------------------------------------------------
# generation

POPULATION_CAP = 2500


def population(ops, cap=POPULATION_CAP):
    """A cheap dry run (plain heap, no coalescing, clock = the callback's own time): how many callbacks the history
    executes, counted up to `cap`.  Self-re-inserting callbacks that also schedule children multiply; a few generated
    histories would execute tens of thousands of callbacks and dominate the run time."""
    import heapq
    kids, heap, ctr, n, guard = {}, [], 0, 0, 0
    for op in ops:
        if op[0] == 'kids':
            kids[op[1]] = [(tm(k[0]), int(k[1])) for k in op[2]]
        elif op[0] == 'guard':
            guard = int(op[1])
        elif op[0] == 'add':
            heapq.heappush(heap, (tm(op[1]), ctr, int(op[2])))
            ctr += 1
        elif op[0] == 'evolve':
            m = 0
            while heap and heap[0][0] < tm(op[1]) and n < cap and not (guard and m >= guard):
                t, _, cid = heapq.heappop(heap)
                n += 1
                m += 1
                for d, child in kids.get(cid, []):
                    heapq.heappush(heap, (t + d, ctr, child))
                    ctr += 1
    return n


def gen_history(rng, big):
    """A generated history whose dry-run population stays below POPULATION_CAP (otherwise drawn again)."""
    while True:
        style, ops = gen_history_any(rng, big)
        if population(ops) < POPULATION_CAP:
            return style, ops


def gen_history_any(rng, big):
    """ops: ('kids', id, [(delay, child)]) | ('add', t, id) | ('evolve', T)"""
    ops = []
    nids = int(rng.integers(1, 7 if not big else 12))
    style = str(rng.choice(STYLES))
    if style == 'epsgrid':
        return style, gen_epsgrid(rng)
    if style == 'decimal':
        return style, gen_decimal(rng, nids)
    if style == 'diverge':
        return style, gen_diverge(rng, nids)
    if style == 'clockrel':
        return style, gen_clockrel(rng, nids)
    if style == 'interrupt':
        return style, gen_interrupt(rng, big)
    if style == 'exact':
        return style, gen_exact(rng, nids)
    if style == 'reent':
        return style, gen_reent(rng, nids)
    # callback behaviours: zero/small delays only towards larger ids (a DAG), self-reinsertion
    # only with a delay of at least 1/8 so that every history terminates
    for i in range(nids):
        kids = []
        if style in ('reinserting', 'mixed') and rng.random() < 0.6:
            kids.append((float(rng.integers(1, 9)) / 8.0 + (TINY * int(rng.integers(0, 3)) if style == 'mixed' else 0.0), i))
        if style in ('mixed', 'coalesce', 'ties', 'pastadds') and i + 1 < nids and rng.random() < 0.5:
            j = int(rng.integers(i + 1, nids))
            d = [0.0, TINY * int(rng.integers(0, 6)), float(rng.integers(0, 5)) / 4.0][int(rng.integers(0, 3))]
            kids.append((d, j))
        if style == 'negkids' and i + 1 < nids and rng.random() < 0.7:
            # a child scheduled BEFORE its parent's own time (violates WF); only towards larger ids, so it terminates
            for _ in range(int(rng.integers(1, 3))):
                j = int(rng.integers(i + 1, nids))
                d = [-0.25, -0.5, -2.0, -TINY * int(rng.integers(1, 6)), 0.0, 0.25][int(rng.integers(0, 6))]
                kids.append((d, j))
        if style == 'negkids' and rng.random() < 0.25:
            kids.append((float(rng.integers(2, 9)) / 8.0, i))
        if kids:
            ops.append(('kids', i, kids))
    t = 0.0
    nphases = int(rng.integers(1, 5 if not big else 9))
    for _ in range(nphases):
        nadd = 0 if style == 'empty' and rng.random() < 0.8 else int(rng.integers(0, 6 if not big else 15))
        for _ in range(nadd):
            base = t + float(rng.integers(0, 17)) / 4.0
            if style in ('ties', 'mixed') and rng.random() < 0.5:
                base = t + float(rng.integers(0, 3))
            if style in ('coalesce', 'mixed'):
                base += TINY * int(rng.integers(0, 7))
            if style == 'pastadds':
                # violates AddsFrom / Inv.future: before the time evolved to, before the clock, or in the sliver
                # between a clock that rests up to 1e-6 below the last target and that target
                r = rng.random()
                if r < 0.4:
                    base = t - TINY * int(rng.integers(0, 6))
                elif r < 0.8:
                    base = t - float(rng.integers(0, 9)) / 4.0 + TINY * int(rng.integers(0, 4))
            ops.append(('add', base, int(rng.integers(0, nids))))
        r = rng.random()
        if r < 0.08 and t > 0:
            ops.append(('evolve', t - float(rng.integers(1, 5)) / 4.0))       # backwards: must be refused
        elif r < 0.16:
            ops.append(('evolve', t))                                           # zero-length evolution
        else:
            t = t + float(rng.integers(0, 13)) / 4.0 + (TINY * int(rng.integers(0, 6)) if style in ('coalesce', 'mixed', 'pastadds') else 0.0)
            ops.append(('evolve', t))
    return style, ops


def gen_epsgrid(rng):
    """All times are multiples of U = 2^-72 below 2^-19, so every float operation of the loop is exact, and they sit on and
    right next to the threshold: stretches of exactly the double 1e-6 (not integrated), one ulp more (integrated), one
    ulp less, two stretches that add up to it."""
    pts = [0, 1, NH, NH + 1, NE - 1, NE, NE + 1, NE + 2, NE + NH, NE + NH + 1]
    ops = []
    if rng.random() < 0.5:
        ops.append(('kids', 0, [(float(int(rng.integers(0, 3))) * U, 1)]))
    targets = sorted(int(pts[int(rng.integers(0, len(pts)))]) + int(rng.integers(-1, 2)) * int(rng.random() < 0.3)
                     for _ in range(int(rng.integers(1, 5))))
    for T in targets:
        T = max(T, 0)
        for _ in range(int(rng.integers(0, 4))):
            n = int(pts[int(rng.integers(0, len(pts)))])
            ops.append(('add', n * U, int(rng.integers(0, 3))))
        ops.append(('evolve', T * U))
        if rng.random() < 0.2:
            ops.append(('evolve', T * U))
    return ops


def gen_decimal(rng, nids):
    """Times that are NOT dyadic (k/10, k/3, k/7, k/1000): t_next - self.t rounds.  The model works on the exact rationals
    of these doubles; compared are clocks, callbacks, queue and - through the clocks - the stretches integrated."""
    den = [10.0, 3.0, 7.0, 1000.0, 100.0]
    ops = []
    # no children here: the harness's own `t + d` would round, which is not the code under test
    t = 0.0
    for _ in range(int(rng.integers(1, 6))):
        for _ in range(int(rng.integers(0, 5))):
            ops.append(('add', t + float(rng.integers(0, 400)) / den[int(rng.integers(0, 5))], int(rng.integers(0, nids))))
        t = t + float(rng.integers(1, 400)) / den[int(rng.integers(0, 5))]
        ops.append(('evolve', t))
        if rng.random() < 0.5:
            ops.append(('evolve', t))          # the same target again: must be accepted (a zero-length evolution)
    return ops


def gen_clockrel(rng, nids):
    """The idiom of the add_callback docstring: a callback re-inserts itself (or schedules another) at `self.t + period`,
    relative to the CLOCK, which may rest up to 1e-6 below the callback's own time.  `kids` entries carry the kind 'clock'.
    The model's callbacks see their queue entry only, not the clock, so these histories are checked by the property
    oracle alone (hypothesis-free clauses; order/clock-ahead only while no child landed before its parent's time)."""
    ops = []
    for i in range(nids):
        kids = []
        if rng.random() < 0.6:
            kids.append((float(rng.integers(1, 9)) / 8.0 + TINY * int(rng.integers(0, 3)), i, 'clock'))
        if i + 1 < nids and rng.random() < 0.5:
            d = [0.0, TINY * int(rng.integers(0, 6)), float(rng.integers(0, 5)) / 4.0][int(rng.integers(0, 3))]
            kids.append((d, int(rng.integers(i + 1, nids)), 'clock' if rng.random() < 0.7 else 'own'))
        if kids:
            ops.append(('kids', i, kids))
    t = 0.0
    for _ in range(int(rng.integers(1, 5))):
        for _ in range(int(rng.integers(0, 6))):
            ops.append(('add', t + float(rng.integers(0, 9)) / 4.0 + TINY * int(rng.integers(0, 7)), int(rng.integers(0, nids))))
        t = t + float(rng.integers(0, 13)) / 4.0 + TINY * int(rng.integers(0, 6))
        ops.append(('evolve', t))
    return ops


def gen_exact(rng, nids):
    """Round 6: a history on an exact time axis that is NOT a Python float (seed C20-11: legal inputs) - integer ticks
    around an epoch-nanosecond stamp (Python int / np.int64 far above 2**53: doubles are 256 apart there, neighbouring
    ticks collapse onto one double), Fraction (thirds, sevenths, offsets of 1/3000000 around the 1e-6 window),
    np.longdouble (64-bit mantissa: an extra 2**-58 grid no double can hold) and Decimal.  Every time in the history is
    written as the text 'n/d' of its exact value; run_real hands it over as an object of the axis, reads everything back
    exactly (`exact_val`) and the model - which computes in exact rationals anyway - must print the very same lines."""
    F = Fraction
    kind = AXES[int(rng.integers(0, len(AXES)))]
    ri = lambda a, b: int(rng.integers(a, b))      # noqa
    if kind in ('int', 'i64'):
        base = F(TICK0 + ri(0, 10 ** 9))
        off = lambda: F(ri(0, 40) if rng.random() < 0.7 else ri(0, 1500))      # noqa
        small = lambda: F(ri(0, 3))                # noqa
        step = lambda: F(ri(0, 700))               # noqa
        period = lambda: F(ri(20, 300))            # noqa
    elif kind == 'frac':
        base = F(0)
        den = (3, 7, 12, 1000)
        small = lambda: F(ri(0, 5), 3000000)       # noqa  (3/3000000 = 1e-6 exactly: just above the double 1e-6)
        off = lambda: F(ri(0, 30), den[ri(0, 4)]) + small()      # noqa
        step = lambda: F(ri(0, 30), den[ri(0, 4)]) + small()     # noqa
        period = lambda: F(ri(1, 9), (3, 7, 8)[ri(0, 3)])        # noqa
    elif kind == 'ld':
        base = F(0)
        small = lambda: F(ri(0, 6), 2 ** 22) + F(ri(0, 4), 2 ** 58)      # noqa
        off = lambda: F(ri(0, 17), 4) + small()    # noqa
        step = lambda: F(ri(0, 13), 4) + small()   # noqa
        period = lambda: F(ri(1, 9), 8) + F(ri(0, 4), 2 ** 58)   # noqa
    else:
        base = F(0)
        small = lambda: F(3 * ri(0, 5), 10 ** 7)   # noqa
        off = lambda: F(ri(0, 17), 4) + small()    # noqa
        step = lambda: F(ri(0, 13), 4) + small()   # noqa
        period = lambda: F(ri(1, 9), 8)            # noqa
    ops = [('axis', kind)]
    for i in range(nids):
        kids = []
        if rng.random() < 0.5:
            kids.append((qs(period()), i) + (('clock',) if rng.random() < 0.3 else ()))
        if i + 1 < nids and rng.random() < 0.5:
            kids.append((qs(small() if rng.random() < 0.7 else off()), ri(i + 1, nids)) + (('clock',) if rng.random() < 0.3 else ()))
        if kids:
            ops.append(('kids', i, kids))
    t = base
    if base and rng.random() < 0.7:
        ops.append(('evolve', qs(t)))       # the clock leaves the int 0 it starts from
    for _ in range(ri(1, 5)):
        for _ in range(ri(0, 7)):
            ops.append(('add', qs(t + off()), ri(0, nids)))
        r = rng.random()
        if r < 0.08 and t > base:
            ops.append(('evolve', qs(t - (small() or 1))))      # backwards (by as little as one tick): must be refused
        elif r < 0.16:
            ops.append(('evolve', qs(t)))
        else:
            t = t + step()
            ops.append(('evolve', qs(t)))
    return ops


def reentrant(ops):
    return any(op[0] == 'nest' for op in ops)


def nest_reach(ops):
    """how far beyond an evolve_until target nested calls can carry the evolution: each callback added from outside may
    re-enter once (re-entering callbacks are nobody's children), by at most the largest positive nest delay"""
    ds = [float(op[2]) for op in ops if op[0] == 'nest' and float(op[2]) > 0]
    return (max(ds) if ds else 0.0) * sum(1 for op in ops if op[0] == 'add')


def gen_reent(rng, nids):
    """Round 6: callbacks that call evolve_until themselves (op ('nest', id, d, k): after scheduling its first k children
    the callback calls evolve_until(own time + d)) - Lean loopR / evolveUntilR, theorems reentrant_*.  d < 0 (or a clock
    ahead of the callback's time): the nested call is refused and the ValueError leaves the outer call; 0 <= d: a nested
    evolution, beyond the outer target or not.  Re-entering callbacks are nobody's children (no unbounded recursion)."""
    nids = max(nids, 2)
    while True:
        ops = []
        nesters = sorted(set(int(rng.integers(0, nids)) for _ in range(int(rng.integers(1, 3)))))
        plain = [i for i in range(nids) if i not in nesters]
        for i in range(nids):
            kids = []
            if i in plain and rng.random() < 0.4:
                kids.append((float(rng.integers(1, 9)) / 8.0, i))
            for _ in range(int(rng.integers(0, 3))):
                if plain:
                    j = plain[int(rng.integers(0, len(plain)))]
                    if j > i or i in nesters:
                        kids.append(([0.0, TINY * int(rng.integers(0, 6)), float(rng.integers(0, 9)) / 4.0][int(rng.integers(0, 3))], j))
            if kids:
                ops.append(('kids', i, kids))
            if i in nesters:
                d = [-0.5, -TINY, 0.0, 2 * TINY, 0.25, 1.0, 2.5, float(rng.integers(0, 17)) / 4.0][int(rng.integers(0, 8))]
                ops.append(('nest', i, d, int(rng.integers(0, 3))))
        t = 0.0
        for _ in range(int(rng.integers(1, 5))):
            for _ in range(int(rng.integers(0, 6))):
                ops.append(('add', t + float(rng.integers(0, 17)) / 4.0 + TINY * int(rng.integers(0, 4)), int(rng.integers(0, nids))))
            t = t + float(rng.integers(0, 13)) / 4.0 + TINY * int(rng.integers(0, 4))
            ops.append(('evolve', t))
        ext = nest_reach(ops)
        if population([(op[0], op[1] + ext) if op[0] == 'evolve' else op for op in ops]) < POPULATION_CAP // 2:
            return ops


def gen_interrupt(rng, big):
    """A callback raises in the middle of an ordinary (terminating) evolution and the caller resumes: every
    evolve_until(T) runs under a guard (the g-th callback executed raises after its work), then the guard is taken off
    and the same target is requested again.  Lean: interrupted_resume / interrupted_entry_lost - the entry whose
    callback raised is gone (popped before the call), nothing runs twice, the two calls together are the
    uninterrupted run.  Several interruptions in a row with probability 1/3."""
    while True:
        style, base = gen_history_any(rng, big)
        if style in ('plain', 'ties', 'coalesce', 'reinserting', 'mixed', 'pastadds', 'negkids', 'clockrel'):
            break
    # 'guard': the callback raises after its work;  'raise': before doing anything (not with clock-relative children: the
    # model's `kidsExcept` path works on entry-only callbacks)
    # (round 6: clock-relative children too - Lean loopXC / raise_eq_fuel_out_clock)
    kind = 'raise' if rng.random() < 0.5 else 'guard'
    ops = []
    for op in base:
        if op[0] != 'evolve':
            ops.append(op)
            continue
        for _ in range(1 + 2 * int(rng.random() < 0.33)):
            ops.append((kind, int(rng.integers(1, 12 if kind == 'guard' else 5))))
            ops.append(op)
        ops.append((kind, 0))
        ops.append(op)
    return ops


def clock_relative(ops):
    return any(op[0] == 'kids' and any(len(k) > 2 and k[2] == 'clock' for k in op[2]) for op in ops)


def gen_diverge(rng, nids):
    """Callbacks that re-insert themselves (or each other, in a cycle) for the very same instant or an earlier one: the
    real loop never returns.  Every evolve_until runs under a guard: the N-th callback executed raises after its work -
    compared with the model run on fuel N (status, clock, counter, trace, queue of the interrupted evolution)."""
    ops = [('guard', int(rng.integers(1, 40)))]
    i = int(rng.integers(0, nids))
    r = rng.random()
    if r < 0.4 or nids == 1:
        ops.append(('kids', i, [(0.0, i)]))
    elif r < 0.7:
        j = (i + 1) % nids
        ops.append(('kids', i, [(0.0, j)]))
        ops.append(('kids', j, [(0.0, i)]))
    else:
        ops.append(('kids', i, [(-0.25, i), (0.5, (i + 1) % nids)]))
    t = 0.0
    for _ in range(int(rng.integers(1, 4))):
        for _ in range(int(rng.integers(1, 4))):
            ops.append(('add', t + float(rng.integers(0, 9)) / 4.0, int(rng.integers(0, nids))))
        ops.append(('add', t + float(rng.integers(0, 5)) / 4.0, i))
        t = t + float(rng.integers(1, 9)) / 4.0
        if rng.random() < 0.3:
            ops.append(('guard', int(rng.integers(1, 60))))
        ops.append(('evolve', t))
    return ops


def respell(rng, ops):
    """Choose how the caller spells the time arguments of a generated history (the values stay the same).
    Returns (spelling style, ops).  'float': as generated.  'mixed': every call draws from all spellings.
    'arrays': fresh 0-d / 1-element arrays everywhere.  'running0d' / 'running1d': ONE caller-owned array that is
    overwritten in place before each evolve_until (and some add_callback) - the time-stepping-loop idiom."""
    sp = ['float', 'float', 'mixed', 'mixed', 'arrays', 'running0d', 'running1d'][int(rng.integers(0, 7))]
    if reentrant(ops):
        return 'float', ops
    if exact_axis(ops):
        return 'axis-' + exact_axis(ops), ops       # the spelling IS the axis: every time an object of that type
    if sp == 'float':
        return sp, ops
    out = []
    if rng.random() < 0.4:
        out.append(('mode', 'clockobj'))
    for op in ops:
        if op[0] not in ('add', 'evolve'):
            out.append(op)
            continue
        if sp == 'mixed':
            how = SPELLINGS[int(rng.integers(0, len(SPELLINGS)))]
        elif sp == 'arrays':
            how = ('0d', '1d')[int(rng.integers(0, 2))]
        else:
            own = '0ds' if sp == 'running0d' else '1ds'
            how = own if op[0] == 'evolve' or rng.random() < 0.3 else ('f', 'np', 'i', own[:2])[int(rng.integers(0, 4))]
        out.append(tuple(op) + (how,))
    return sp, out


# ---------------------------------------------------------------------------------------------
# the real code

SPELLINGS = ('f', 'i', 'ni', 'np', '0d', '1d', '0ds', '1ds')


def fl(x):
    """The value of a time object (float/int/NumPy scalar/0-d or 1-element array) as a Python float."""
    import numpy as np
    return float(np.asarray(x, dtype=float).reshape(-1)[0])


AXES = ('int', 'i64', 'frac', 'ld', 'dec')
TICK0 = 1760000000000000000      # an epoch-nanosecond time stamp (time.time_ns() in 2025): doubles are 256 apart there


def tm(x):
    """The time written in an op: a float as generated, or - in a history on an exact, non-float time axis (op
    ('axis', kind)) - the text 'n/d' of an exact rational (JSON-serialisable, so replay files carry it unchanged)."""
    return Fraction(x) if isinstance(x, str) else float(x)


def qs(q):
    """the op text of an exact time"""
    q = Fraction(q)
    return '%d/%d' % (q.numerator, q.denominator)


def exact_axis(ops):
    """The kind of the exact time axis of a history, or None for the float axes (everything up to round 5)."""
    for op in ops:
        if op[0] == 'axis':
            return op[1]
    for op in ops:
        if (op[0] in ('add', 'evolve') and isinstance(op[1], str)) or (op[0] == 'kids' and any(isinstance(k[0], str) for k in op[2])):
            return 'frac'       # shrinking removed the axis op: the times are still exact rationals
    return None


def exact_val(x):
    """The EXACT value of a time object as a Fraction: Python int / NumPy integer ticks (beyond 2**53 too), Fraction,
    Decimal, NumPy floating of any width (longdouble: 64-bit mantissa), Python float, 0-d / 1-element arrays of those."""
    import numpy as np
    import decimal
    if isinstance(x, np.ndarray):
        x = x.reshape(-1)[0]
    if isinstance(x, Fraction):
        return x
    if isinstance(x, bool):
        raise TypeError('bool is not a time')
    if isinstance(x, (int, np.integer)):
        return Fraction(int(x))
    if isinstance(x, decimal.Decimal):
        return Fraction(x)
    if isinstance(x, np.floating):
        n, d = x.as_integer_ratio()
        return Fraction(int(n), int(d))
    return Fraction(float(x))


def spell_exact(q, kind):
    """The exact time q (a Fraction) as an object of the time axis `kind`; a q the axis cannot hold exactly (only a
    broken implementation's clock leads to one) is handed over as a Fraction."""
    import numpy as np
    import decimal
    q = Fraction(q)
    if kind == 'int' and q.denominator == 1:
        return int(q)
    if kind == 'i64' and q.denominator == 1 and abs(q) < 2 ** 63:
        return np.int64(int(q))
    if kind == 'ld':
        n, d = q.numerator, q.denominator
        if d & (d - 1) == 0 and abs(n) < 2 ** 64:
            sgn, n = (-1 if n < 0 else 1), abs(n)
            x = np.longdouble(n >> 32) * np.longdouble(2.0 ** 32) + np.longdouble(n & (2 ** 32 - 1))
            x = x / np.longdouble(2.0) ** (d.bit_length() - 1)
            x = -x if sgn < 0 else x
            if exact_val(x) == q:
                return x
    if kind == 'dec':
        with decimal.localcontext() as c:
            c.prec = 60
            x = decimal.Decimal(q.numerator) / decimal.Decimal(q.denominator)
        if Fraction(x) == q and len(x.as_tuple().digits) <= 24:
            return x
    return q


def spell(x, how, shared):
    """The time `x` (a float) in the spelling `how`.  Returns (object handed to hcipy, the caller-owned mutable
    array inside it or None).  'i'/'ni' fall back to float when x is not integral; '0ds'/'1ds' reuse ONE array per
    history that the caller overwrites in place before every call (the `t += dt; evolve_until(t)` idiom)."""
    import numpy as np
    x = float(x)
    if how == 'i' and x.is_integer():
        return int(x), None
    if how == 'ni' and x.is_integer():
        return np.int64(int(x)), None
    if how == 'np':
        return np.float64(x), None
    if how == '0d':
        a = np.array(x)
        return a, a
    if how == '1d':
        a = np.array([x])
        return a, a
    if how in ('0ds', '1ds'):
        a = shared.setdefault(how, np.array(0.0) if how == '0ds' else np.array([0.0]))
        a[...] = x
        return a, a
    return x, None


KEEP_EVENTS = 4000     # events of one evolve_until kept in memory (a runaway implementation must not eat the machine)
WATCHDOG_S = 10.0      # wall-clock limit of one evolve_until (an implementation spinning without calling anything)
_watchdog = [WATCHDOG_S]   # halved after every hit (never below 0.5 s): a tree that hangs must not stall the check for hours


def hard_bound(ops):
    """How many callbacks + integrate() calls ONE evolve_until of this history may execute before the recorder aborts it:
    four times what the dry run of the whole history executes (each callback is preceded by at most one integration,
    plus slack for the coalescing the dry run ignores), and at least 200."""
    if reentrant(ops):      # nested calls carry an evolution beyond its own target
        ext = nest_reach(ops)
        ops = [(op[0], tm(op[1]) + ext) + tuple(op[2:]) if op[0] == 'evolve' else op for op in ops]
    return 4 * population(ops, cap=4 * POPULATION_CAP) + 4 * sum(1 for op in ops if op[0] in ('add', 'evolve')) + 200


def progress(kids):
    """(delta, B) when every callback behaviour schedules its children at least delta > 0 after the callback's OWN time
    and at most B of them (the hypothesis of Lean evolve_total_of_progress); None otherwise."""
    ds = [d for l in kids.values() for (d, c, kind) in l]
    if any(kind != 'own' for l in kids.values() for (d, c, kind) in l) or any(d <= 0 for d in ds):
        return None
    return (min(ds) if ds else 1.0, max([len(l) for l in kids.values()] + [0]))


GEOM_CAP = 10 ** 6


def geom(B, n):
    """1 + B + ... + B^(n-1) (Lean: geom), or None when that exceeds GEOM_CAP (the bound then says nothing a run of at
    most POPULATION_CAP callbacks could violate)"""
    if B == 0:
        return min(n, 1)
    if B == 1:
        return n if n <= GEOM_CAP else None
    g = 0
    for _ in range(n):
        g = 1 + B * g
        if g > GEOM_CAP:
            return None
    return g


def run_real(ops):
    """Execute a history on hcipy's DynamicOpticalSystem.  Returns per-evolve observations.

    ops: ('kids', id, [(delay, child)]) | ('add', t, id[, spelling]) | ('evolve', T[, spelling]) | ('mode', 'clockobj').
    Times are handed over in the given spelling; when that is a caller-owned array the caller MUTATES it in place
    right after the call (a snapshot of clock and queue, as floats, is taken before and after the mutation: the
    time arguments are values, so nothing may move).  In mode 'clockobj' a callback that schedules a child for its own
    instant passes the system's clock object `self.t` itself back into add_callback.  Everything recorded is a float
    taken at the moment of the observation."""
    import hcipy
    import signal

    class Sys(hcipy.DynamicOpticalSystem):
        def __init__(self):
            super().__init__()
            self.events = []

        def integrate(self, dt):
            record(('I', V(dt), V(self.t)))     # the stretch handed over, and the clock it starts from

    bound = hard_bound(ops)
    nrec = [0]         # callbacks + integrations of the running evolve_until

    def record(ev):
        nrec[0] += 1
        if len(s.events) < KEEP_EVENTS:
            s.events.append(ev)
        if nrec[0] > bound:
            raise Runaway('more than %d callbacks + integrations in one evolve_until' % bound)

    def on_alarm(signum, frame):
        w = _watchdog[0]
        _watchdog[0] = max(0.5, w / 2)
        raise Runaway('no return within %g s' % w)

    axis = exact_axis(ops)
    V = exact_val if axis else fl      # the value of a time object: exact on the exact axes, the float otherwise
    s = Sys()
    kids = {}
    scheduled = []     # every add_callback: (time, ctr, id)
    mode = set()
    shared = {}
    alias = []         # (key, what) found since the last evolve
    npoison = [0]
    guard = [0]        # > 0: the guard-th callback executed within one evolve_until raises FuelGuard after its work
    nexec = [0]
    pre = [0]          # > 0: the pre-th callback called within one evolve_until raises PreRaise before doing anything
    wf = [True]        # every child delay so far is >= 0 (Lean: WF kids)
    nest = {}          # id -> (d, k): the callback calls evolve_until(own time + d) after its first k children (Lean: nestBody)
    nested = []        # (target, clock when the nested call was made) of the running evolve_until

    def snap():
        return (V(s.t), sorted((V(q[0]), q[1]) for q in s.callbacks))

    def moved(before, after, call):
        """clause: a caller's in-place change of ITS OWN array must not reach the system (key by what moved)"""
        if before[0] != after[0]:
            alias.append(('clock-aliases-caller-object', '%s the caller changed its own time array in place and the '
                          "system's clock moved with it: %r -> %r" % (call, before[0], after[0])))
        if before[1] != after[1]:
            alias.append(('queue-aliases-caller-object', '%s the caller changed its own time array in place and the queued '
                          'times moved with it: %r -> %r' % (call, [q[0] for q in before[1]][:4], [q[0] for q in after[1]][:4])))

    def poison(arr, call):
        """the caller goes on using ITS array: advance it a little, a lot, or rewind it"""
        before = snap()
        k = npoison[0]
        npoison[0] += 1
        if k % 3 == 0:
            arr += 0.5
        elif k % 3 == 1:
            arr += 1024.5
        else:
            arr[...] = -3.5
        moved(before, snap(), 'after ' + call)

    def spelled(x, how):
        """`spell`, observing that overwriting the caller's shared array for the next call moves nothing either"""
        if axis:
            return spell_exact(x, axis), None
        before = snap()
        arg, mut = spell(x, how, shared)
        if how in ('0ds', '1ds'):
            moved(before, snap(), 'preparing the next call (overwriting its running-time array with %r)' % (x,))
        return arg, mut

    def add(t, cid, how='f', obj=None):
        ctr = s.callback_counter
        scheduled.append((t, ctr, cid))

        def cb():
            record(('F', t, ctr, cid, V(s.t)))
            if pre[0] and nexec[0] + 1 >= pre[0]:
                nexec[0] += 1
                raise PreRaise()
            kl = kids.get(cid, [])
            nst = nest.get(cid)
            if nst is not None and nst[1] >= len(kl):
                kl = kl + [None]                    # the nested call comes after all children
            for idx, kd in enumerate(kl):
                if nst is not None and idx == min(nst[1], len(kl) - 1):
                    nested.append((t + nst[0], V(s.t)))
                    s.evolve_until(t + nst[0])      # re-entrancy: a ValueError (target below the clock) escapes
                if kd is None:
                    break
                d, child, kind = kd
                if kind == 'clock':
                    tc = V(s.t) + d                # the docstring idiom: self.t + period
                    if tc < t:
                        wf[0] = False               # the clock lagged: the child is due before its parent's time
                    add(tc, child)
                elif 'clockobj' in mode and d == 0 and V(s.t) == t:
                    add(t, child, obj=s.t)          # "now", spelled as the clock object itself
                else:
                    add(t + d, child)
            nexec[0] += 1
            if guard[0] and nexec[0] >= guard[0]:
                raise FuelGuard()
        if obj is not None:
            s.add_callback(obj, cb)
            return
        arg, mut = spelled(t, how)
        s.add_callback(arg, cb)
        if mut is not None:
            poison(mut, 'add_callback(<%s array %r>)' % (how, t))

    obs = Obs()
    faults = obs.faults
    last_arg = [None]
    hz = 0.0                    # the largest target an accepted evolve_until was given
    adds_after_horizon = True   # every add_callback from outside was for a time >= hz at that moment
    adds_from_clock = True      # every add_callback from outside was for a time >= the clock at that moment (Lean: Inv.future)
    for op in ops:
        if op[0] == 'kids':
            kids[op[1]] = [(tm(k[0]), int(k[1]), (k[2] if len(k) > 2 else 'own')) for k in op[2]]
            if any(tm(k[0]) < 0 for k in op[2]):
                wf[0] = False
        elif op[0] == 'nest':
            nest[int(op[1])] = (tm(op[2]), int(op[3]))
        elif op[0] == 'mode':
            mode.add(op[1])
        elif op[0] == 'guard':
            guard[0] = int(op[1])
        elif op[0] == 'raise':
            pre[0] = int(op[1])
        elif op[0] == 'add':
            if tm(op[1]) < hz:
                adds_after_horizon = False
            if tm(op[1]) < V(s.t):
                adds_from_clock = False
            try:
                add(tm(op[1]), int(op[2]), how=(op[3] if len(op) > 3 else 'f'))
            except Exception as e:  # noqa - the public API refused a legal time argument: a violation, and the history ends here
                scheduled.pop()
                faults.append(('add-callback-raises:' + type(e).__name__, 'add_callback(%r spelled %s, f) raised %s: %s' % (
                    tm(op[1]), axis or (op[3] if len(op) > 3 else 'f'), type(e).__name__, str(e)[:120])))
                break
        elif op[0] == 'evolve':
            s.events = []
            del nested[:]
            nexec[0] = 0
            nrec[0] = 0
            t0 = V(s.t)
            q0 = sorted(V(q[0]) for q in s.callbacks)
            n_sched0 = len(scheduled)
            status = 'ok'
            how = op[2] if len(op) > 2 else 'f'
            arg, mut = spelled(tm(op[1]), how)
            last_arg[0] = arg if mut is None else None
            why = ''
            old_handler = None
            try:
                old_handler = signal.signal(signal.SIGALRM, on_alarm)
                signal.setitimer(signal.ITIMER_REAL, _watchdog[0], 0.5)
            except (ValueError, AttributeError, OSError):      # not the main thread / no SIGALRM: the count guard remains
                old_handler = None
            try:
                s.evolve_until(arg)
            except ValueError:
                status = 'value'
            except IndexError:
                status = 'index'
            except FuelGuard:
                status = 'fuel'
            except PreRaise:
                status = 'raised'
            except Runaway as e:
                status, why = 'runaway', str(e)
            except Exception as e:  # noqa
                status = 'other:' + type(e).__name__
            finally:
                if old_handler is not None:
                    signal.setitimer(signal.ITIMER_REAL, 0)
                    signal.signal(signal.SIGALRM, old_handler)
            if status != 'value':
                hz = max(hz, tm(op[1]))
            t1 = V(s.t)
            queue = sorted((V(q[0]), q[1]) for q in s.callbacks)
            if mut is not None:
                poison(mut, 'evolve_until(<%s array %r>)' % (how, tm(op[1])))
            obs.append({'T': tm(op[1]), 'status': status, 't0': t0, 't1': t1, 'ctr': s.callback_counter,
                        'events': list(s.events), 'queue': queue, 'scheduled': list(scheduled), 'n_sched0': n_sched0,
                        'hz': hz, 'adds_after_horizon': adds_after_horizon, 'alias': alias,
                        'adds_from_clock': adds_from_clock, 'wf': wf[0], 'guard': guard[0], 'why': why,
                        'q0': q0, 'progress': progress(kids), 'pre': pre[0],
                        'nrec': nrec[0], 'reent': bool(nest), 'nested': list(nested)})
            alias = []
            if status == 'runaway':
                break           # the system is in the middle of a loop that does not end: the history stops here
    if alias and obs:
        obs[-1]['alias'] = obs[-1]['alias'] + alias
    if obs:
        obs[-1]['created'] = list(scheduled)      # every entry ever created, in creation order
        # the classification of the whole history (adds after the last evolve_until included)
        obs[-1]['final_flags'] = (adds_after_horizon, adds_from_clock)
        # the same target once more must be accepted (it is not backwards): a zero-length evolution
        last = obs[-1]
        if last['status'] == 'ok' and not guard[0] and not pre[0] and not (nest and last['t1'] > last['T']):
            try:
                n0 = len(s.events)
                s.evolve_until(last['T'] if last_arg[0] is None else last_arg[0])
                last['again'] = 'ok' if len(s.events) == n0 and V(s.t) == last['t1'] else 'changed'
            except ValueError:
                last['again'] = 'value'
            except Exception as e:  # noqa
                last['again'] = 'other:' + type(e).__name__
    return obs


def real_hist_line(obs, ops):
    """The whole-history summary the model prints for `C20 hist` (Lean: `Hist` after `runOps`)."""
    fires = [e for o in obs for e in o['events'] if e[0] == 'F']
    keys = [(e[1], e[2]) for e in fires]
    last = obs[-1]
    # adds after the last evolve are created and pending too
    nadd_after = 0
    for op in reversed(ops):
        if op[0] == 'evolve':
            break
        if op[0] == 'add':
            nadd_after += 1
    fuels = set()
    fuel = FUEL
    for op in ops:
        if op[0] == 'guard':
            fuel = int(op[1]) or FUEL
        elif op[0] == 'evolve':
            fuels.add(fuel)
    if any(o['status'] == 'raised' for o in obs):
        fuels.add(-1)       # the model ran that call on the fuel of raise_eq_fuel_out
    # `replay`: the model re-ran the whole history through runOps with one entry-only callback table and one fuel and
    # got the same Hist (not attempted when the guard, i.e. the fuel, changed within the history)
    # the hypotheses of history_inv / history_exactly_once as the harness classified the real history (these flags gate
    # the oracle clauses order-across-evolves / clock-ahead-of-callback); the model decides AddsFrom / NoFuelOut itself
    if len(fuels) <= 1:
        b = lambda x: 'true' if x else 'false'  # noqa
        hyp = 'addsfrom_hz=%s addsfrom_t=%s nofuelout=%s' % (b(last['final_flags'][0]), b(last['final_flags'][1]),
                                                             b(all(o['status'] != 'fuel' for o in obs)))
    else:
        hyp = 'addsfrom_hz=na addsfrom_t=na nofuelout=na'
    return 'replay=%s %s hz=%s t=%s created=%d fired=%d pending=%d sorted=%s run=%s created=%s' % (
        'true' if len(fuels) <= 1 else 'na', hyp, rat(last['hz']), rat(last['t1']), last['ctr'] + nadd_after, len(fires), len(last['queue']) + nadd_after,
        'true' if all(a < b for a, b in zip(keys, keys[1:])) else 'false',
        ';'.join('%s:%d:%d' % (rat(e[1]), e[2], e[3]) for e in fires),
        ';'.join('%s:%d:%d' % (rat(t), c, i) for (t, c, i) in last['created']))


def stretches(o):
    """For every integrate() call of one evolve_until: (dt handed over, clock before, clock after), the clock after read
    off the next observation (the clock the next callback saw, or the final clock); None where that is not possible."""
    out = []
    ev = o['events']
    for k, e in enumerate(ev):
        if e[0] != 'I':
            continue
        if k + 1 < len(ev):
            after = ev[k + 1][4] if ev[k + 1][0] == 'F' else None
        else:
            after = o['t1']
        out.append((e[1], e[2], after))
    return out


def real_line(o):
    """Integrations are printed as the exact length of the stretch the clock moved over (for dyadic times that IS the dt
    handed to integrate(); for other doubles dt is its rounding, checked by the oracle clause `integrate-argument`)."""
    ev = []
    st = iter(stretches(o))
    for e in o['events']:
        if e[0] == 'I':
            dt, before, after = next(st)
            ev.append('I:' + (rat(Fraction(after) - Fraction(before)) if after is not None else rat(dt)))
        else:
            ev.append('F:%s:%d:%d:%s' % (rat(e[1]), e[2], e[3], rat(e[4])))
    ids = {(t, c): i for (t, c, i) in o['scheduled']}
    # an entry the harness did not schedule itself (re-inserted by the implementation) prints as id -1:
    # that is a correspondence difference, never a harness fault
    q = ';'.join('%s:%d:%d' % (rat(t), c, ids.get((t, c), -1)) for (t, c) in o['queue'])
    # the integration intervals as the real clock moved over them (clock when integrate() was entered > the next clock
    # observed), the total movement of the clock, the clock the last callback saw: Lean `intervals`, `sumDt`,
    # `lastFireClock` of the model's trace (intervals_tile, trace_consistent, final_clock_exact)
    iv = ';'.join('%s>%s' % (rat(before), rat(after if after is not None else before + dt)) for dt, before, after in stretches(o))
    fires = [e for e in o['events'] if e[0] == 'F']
    return '%s t=%s ctr=%d trace=%s queue=%s iv=%s sum=%s lfc=%s same=true' % (
        o['status'], rat(o['t1']), o['ctr'], ';'.join(ev), q, iv, rat(Fraction(o['t1']) - Fraction(o['t0'])),
        rat(fires[-1][4] if fires else o['t0']))


ARRAYS = ('0d', '1d', '0ds', '1ds')


def progress_fuels(ops, obs):
    """The explicit fuel of Lean `evolve_total_of_progress` for every evolve_until of a history that meets its hypotheses
    (no guard; every callback behaviour schedules its children >= delta > 0 after its own time, at most B of them;
    nothing queued before the clock when the call starts): N = |queue| * geom(B, ceil((T - t) / delta)) + 1.
    None when the history does not qualify."""
    import math
    if any(op[0] in ('guard', 'raise') for op in ops) or not obs or len(obs) != sum(1 for op in ops if op[0] == 'evolve'):
        return None
    out = []
    for o in obs:
        if o['status'] not in ('ok', 'value') or not o.get('progress') or any(q < o['t0'] for q in o['q0']):
            return None
        delta, B = o['progress']
        n = max(0, math.ceil((Fraction(o['T']) - Fraction(o['t0'])) / Fraction(delta)))
        if geom(B, n) is None:
            return None
        out.append(len(o['q0']) * geom(B, n) + 1)
    return out


def dag_fuels(ops, obs):
    """The explicit fuel of Lean `terminates_if_dag` for every evolve_until of a history whose callbacks schedule only
    callbacks of strictly larger id (any delay: zero, sub-window, negative; entry-only): with B = most children of one
    callback and N = number of ids, fuel = sum over the queued entries of (B+1)^(N - id), plus one.  None when the
    history does not qualify (or has no children at all)."""
    if any(op[0] in ('guard', 'raise', 'nest', 'axis') for op in ops) or not obs or len(obs) != sum(1 for op in ops if op[0] == 'evolve'):
        return None
    kids = {int(op[1]): op[2] for op in ops if op[0] == 'kids'}
    if not kids or any((len(k) > 2 and k[2] == 'clock') or int(k[1]) <= i for i, l in kids.items() for k in l):
        return None
    N = 1 + max([int(k[1]) for l in kids.values() for k in l] + [int(op[2]) for op in ops if op[0] == 'add'] + list(kids))
    B = max(len(l) for l in kids.values())
    fired, out = set(), []
    for o in obs:
        if o['status'] not in ('ok', 'value'):
            return None
        f = sum((B + 1) ** (N - i) for (t, c, i) in o['scheduled'][:o['n_sched0']] if (t, c) not in fired) + 1
        if f > GEOM_CAP:
            return None
        out.append(f)
        fired |= set((e[1], e[2]) for e in o['events'] if e[0] == 'F')
    return out


def model_lines(ops, fuels=None, obs=None):
    """The history as the CALLER's program (Lean: `ROp`, Model/SchedulerRef.lean): a time handed over as a caller-owned
    array is a reference to a cell (`cell k x` = the caller writes x into its array k; `addref` / `evolveref` hand the
    cell over), and the in-place change the caller makes right after the call (`poison` in run_real: += 0.5, += 1024.5,
    = -3.5 in turn) is one more `cell` write.  Cells 0 / 1 are the two running-time arrays of a history, fresh arrays
    get fresh cells.  Other spellings are values."""
    lines = ['C20 reset']
    idx = []
    fuel = FUEL
    fuels = list(fuels) if fuels else None    # per-evolve fuels (progress_fuels) instead of FUEL
    npoison = 0
    fresh = 2
    for op in ops:
        how = (op[3] if len(op) > 3 else 'f') if op[0] == 'add' else (op[2] if len(op) > 2 else 'f') if op[0] == 'evolve' else 'f'
        cell = None
        if how in ARRAYS:
            if how == '0ds':
                cell = 0
            elif how == '1ds':
                cell = 1
            else:
                cell, fresh = fresh, fresh + 1
            lines.append('C20 cell %d %s' % (cell, rat(tm(op[1]))))
        if op[0] == 'kids':
            lines.append('C20 kids %d %s' % (op[1], ','.join(
                '%s:%d:%s' % (rat(tm(k[0])), k[1], 'c' if len(k) > 2 and k[2] == 'clock' else 'o') for k in op[2]) or '-'))
        elif op[0] == 'add':
            lines.append('C20 add %s %d' % (rat(tm(op[1])), op[2]) if cell is None else 'C20 addref %d %d' % (cell, op[2]))
        elif op[0] == 'nest':
            lines.append('C20 nest %d %s %d' % (op[1], rat(tm(op[2])), op[3]))
        elif op[0] in ('mode', 'axis'):
            continue            # callbacks passing the clock object back: times are values
        elif op[0] == 'raise':
            pass                # which callback raised is read off the real run (`evolvex`)
        elif op[0] == 'guard':
            fuel = int(op[1]) or FUEL   # the N-th callback raises  <->  the model runs on fuel N (0: no guard)
        else:
            idx.append(len(lines))
            if fuels:
                fuel = fuels.pop(0)
            o = obs[len(idx) - 1] if obs is not None and len(idx) - 1 < len(obs) else None
            if reentrant(ops):
                lines.append('C20 evolver %s %d new' % (rat(tm(op[1])), fuel))
            elif o is not None and o['status'] == 'raised':
                # the callback that raised at once: the last one called (Lean: loopX with raises = (ctr == c))
                c = [e for e in o['events'] if e[0] == 'F'][-1][2]
                lines.append('C20 evolvex %s %d %d new' % (rat(tm(op[1])), fuel, c))
            else:
                lines.append('C20 evolve %s %d new' % (rat(tm(op[1])), fuel) if cell is None else 'C20 evolveref %d %d new' % (cell, fuel))
        if cell is not None:
            v = float(op[1])
            v = v + 0.5 if npoison % 3 == 0 else v + 1024.5 if npoison % 3 == 1 else -3.5
            npoison += 1
            lines.append('C20 cell %d %s' % (cell, rat(v)))
    lines.append('C20 byref')
    lines.append('C20 hist')
    return lines, idx


# ---------------------------------------------------------------------------------------------
# the property itself, stated on the observations of the real code (independent of the model)

def reent_clauses(o, fires, fired_keys, executed_before):
    """One evolve_until(T >= clock) during which callbacks called evolve_until themselves.  Outside the quantifier of
    C20 ("callbacks may schedule further callbacks"); evaluated are the clauses the code keeps - and Lean proves of
    loopR: tiling for every status (reentrant_tiling), a returning call leaves the clock >= T - 1e-6
    (reentrant_clock_end_lower) and <= T when no nested target exceeded T (reentrant_clock_end) - plus exactly-once
    (nothing twice, everything due before T executed, nothing beyond the furthest target) and: an escaping ValueError
    comes from a nested target below the clock."""
    bad = []
    T = o['T']
    tol = 1e-9 * max(1.0, abs(o['t1']))
    dts = [e[1] for e in o['events'] if e[0] == 'I']
    if o['status'] not in ('ok', 'value'):
        return [('raises-%s' % o['status'], 're-entrant evolve_until(%r) raised %s' % (T, o['status']))]
    if abs(sum(dts) - (o['t1'] - o['t0'])) > tol:
        bad.append(('tiling', 're-entrant: integration intervals sum to %r but the clock moved by %r' % (sum(dts), o['t1'] - o['t0'])))
    if any(dt <= EPS for dt in dts):
        bad.append(('tiling', 're-entrant: an integration interval of at most 1e-6 was integrated'))
    if len(set(fired_keys)) != len(fired_keys):
        bad.append(('exactly-once', 're-entrant: a callback ran twice'))
    reach = max([T] + [tg for tg, clk in o['nested']])
    allowed = set((t, c) for (t, c, i) in o['scheduled'] if t < reach) - executed_before
    if not set(fired_keys) <= allowed:
        bad.append(('exactly-once', 're-entrant: a callback ran that was not due before the furthest target %r or had run already' % (reach,)))
    if set(fired_keys) & set(o['queue']):
        bad.append(('exactly-once', 're-entrant: an executed callback is still queued'))
    if o['status'] == 'value':
        if not any(tg < clk for tg, clk in o['nested']):
            bad.append(('forwards-refused', 're-entrant evolve_until(%r): ValueError although no nested target was below the clock' % (T,)))
        elif fires and o['t1'] != fires[-1][4] and o['nested'][-1][0] < o['nested'][-1][1]:
            pass
        return bad
    due = set((t, c) for (t, c, i) in o['scheduled'] if t < T) - executed_before
    if not due <= set(fired_keys) or any(t < T for (t, c) in o['queue']):
        bad.append(('exactly-once', 're-entrant: a callback due before T=%r was not executed' % (T,)))
    if any(tg < clk for tg, clk in o['nested']):
        bad.append(('backwards-not-refused', 're-entrant: a nested evolve_until below the clock was not refused'))
    if T - o['t1'] > EPS:
        bad.append(('clock-end', 're-entrant: clock ended at %r for target %r' % (o['t1'], T)))
    if all(tg <= T for tg, clk in o['nested']) and o['t1'] > T:
        bad.append(('clock-above-target', 're-entrant (no nested target beyond T): evolve_until(%r) left the clock at %r' % (T, o['t1'])))
    if o['t1'] > reach:
        bad.append(('clock-above-target', 're-entrant: the clock %r is beyond the furthest target %r' % (o['t1'], reach)))
    return bad


def oracle(obs):
    """Returns a list of (key, what) for every clause of C20 that fails on these observations.

    Each clause is evaluated exactly under the hypotheses of its theorem in Properties/C20.lean: exactly-once, the
    upper clock lag, tiling, the final clock and the refusal of backwards calls for EVERY history (adds in the past,
    children in the past: `exactly_once_count`, `clock_lag_any`, `intervals_tile`, `final_clock_exact`,
    `loop_clock_end_any`); the order within a call when no callback schedules a child before its own time (`WF`:
    `fired_sorted`); "the clock is never ahead of the callback's time" when moreover nothing was added before the
    clock (`clock_at_callback`); the order across calls when nothing was added before the time evolved to
    (`history_inv`).  Comparisons of clocks with targets are exact float comparisons: the clauses are inequalities
    between the numbers the system holds."""
    bad = list(getattr(obs, 'faults', []))
    executed_before = set()
    for k, o in enumerate(obs):
        # time arguments are values: the caller's later in-place changes of ITS array must not reach the system
        bad.extend(o.get('alias', []))
        T = o['T']
        if T < o['t0']:
            if o['status'] != 'value':
                bad.append(('backwards-not-refused', 'evolve_until(%r) with clock %r was not refused' % (T, o['t0'])))
            elif o['events'] or o['t1'] != o['t0']:
                bad.append(('backwards-side-effects', 'refused backwards evolution changed the system'))
            continue
        fires = [e for e in o['events'] if e[0] == 'F']
        fired_keys = [(e[1], e[2]) for e in fires]
        if o.get('reent'):
            bad.extend(reent_clauses(o, fires, fired_keys, executed_before))
            executed_before |= set(fired_keys)
            continue
        if o['status'] == 'value':
            bad.append(('forwards-refused', 'evolve_until(%r) with the clock at %r (not ahead of the target) was refused as backwards'
                        % (T, o['t0'])))
            continue
        if (o['status'] == 'fuel' and o.get('guard')) or (o['status'] == 'raised' and o.get('pre')):
            # the harness's guard interrupted the evolution: what holds whatever the status (conservation_perm,
            # fired_nodup, fired_lt_horizon, trace_consistent)
            if len(set(fired_keys)) != len(fired_keys):
                bad.append(('exactly-once', 'a callback ran twice'))
            known = set((t, c) for (t, c, i) in o['scheduled'] if t < T) - executed_before
            if not set(fired_keys) <= known:
                bad.append(('exactly-once', 'a callback ran that was not due before T=%r or had run already' % (T,)))
            executed_before |= set(fired_keys)
            if set(fired_keys) & set(o['queue']):
                bad.append(('raised-callback-requeued', 'a callback that was executed (the last one raised) is still queued: %r'
                            % (sorted(set(fired_keys) & set(o['queue']))[:3],)))
            # the state after the exception (Lean: raise_eq_fuel_out / trace_consistent for any status): the clock is the
            # one the raising callback saw - the stretch integrated up to it is neither rolled back nor extended - and
            # the stretches integrated so far add up to the clock's movement
            if fires and o['t1'] != fires[-1][4]:
                bad.append(('clock-after-exception', 'the callback due at %r raised with the clock at %r; afterwards the clock is %r'
                            % (fires[-1][1], fires[-1][4], o['t1'])))
            dts_x = [e[1] for e in o['events'] if e[0] == 'I']
            if abs(sum(dts_x) - (o['t1'] - o['t0'])) > 1e-9 * max(1.0, abs(o['t1'])):
                bad.append(('tiling', 'interrupted by an exception: integration intervals sum to %r but the clock moved by %r'
                            % (sum(dts_x), o['t1'] - o['t0'])))
            want = o['guard'] if o['status'] == 'fuel' else o['pre']
            if len(fires) != want:
                bad.append(('guard', 'the guard tripped after %d callbacks, not %d' % (len(fires), want)))
            continue
        if o['status'] == 'runaway':
            # the recorder's hard guard aborted the call: termination (Lean: evolve_total_of_progress - the generated
            # histories meet its hypothesis or are acyclic) and, on the prefix observed, exactly-once
            twice = sorted(set(k for k in fired_keys if fired_keys.count(k) > 1))[:3] if len(fired_keys) <= KEEP_EVENTS else []
            bad.append(('does-not-terminate', 'evolve_until(%r) from clock %r did not return: %s (%d recorded); first events %r'
                        % (T, o['t0'], o.get('why', ''), o.get('nrec', 0), o['events'][:6])))
            if len(set(fired_keys)) != len(fired_keys):
                bad.append(('exactly-once', 'a callback ran twice (fired-more-than-once): %r' % (twice,)))
            continue
        if o['status'] != 'ok':
            pending = [q for q in o['queue']]
            key = 'raises-%s%s' % (o['status'], '-empty-queue' if not pending else '')
            bad.append((key, 'evolve_until(%r) raised %s (queue %s)' % (T, o['status'], 'empty' if not pending else 'non-empty')))
            continue
        if (o.get('guard') and len(fires) >= o['guard']) or (o.get('pre') and len(fires) >= o['pre']):
            bad.append(('callback-exception-swallowed', 'the %d-th callback of evolve_until(%r) raised, but the call returned normally '
                        'after %d callbacks' % (o.get('guard') or o.get('pre'), T, len(fires))))
        # termination with the explicit bound (Lean: evolve_total_of_progress): children at least delta after their
        # parent, at most B of them, nothing queued before the clock -> at most |queue| * (1 + B + .. + B^(n-1)) callbacks,
        # n = ceil((T - t0) / delta)
        if o.get('progress') and all(q >= o['t0'] for q in o['q0']):
            import math
            delta, B = o['progress']
            n = max(0, math.ceil((Fraction(T) - Fraction(o['t0'])) / Fraction(delta)))
            if geom(B, n) is not None and len(fires) > len(o['q0']) * geom(B, n):
                bad.append(('progress-bound', 'evolve_until(%r) from clock %r with %d queued executed %d callbacks, more than %d * geom(%d, %d)'
                            % (T, o['t0'], len(o['q0']), len(fires), len(o['q0']), B, n)))
        # exactly once: everything ever scheduled with time < T and not executed earlier
        due = set((t, c) for (t, c, i) in o['scheduled'] if t < T) - executed_before
        if len(set(fired_keys)) != len(fired_keys):
            bad.append(('exactly-once', 'a callback ran twice'))
        if set(fired_keys) != due:
            missing = sorted(due - set(fired_keys))[:3]
            extra = sorted(set(fired_keys) - due)[:3]
            bad.append(('exactly-once', 'executed set differs from the callbacks due before T=%r: missing %r, extra %r' % (T, missing, extra)))
        executed_before |= set(fired_keys)
        if o['wf'] and fired_keys != sorted(fired_keys):
            bad.append(('order', 'callbacks did not run in (time, insertion) order: %r' % (fired_keys[:6],)))
        for e in fires:
            lag = e[1] - e[4]
            if lag > EPS:
                bad.append(('clock-at-callback', 'callback due at %r ran with the clock at %r, more than 1e-6 behind' % (e[1], e[4])))
                break
            if lag < 0 and o['wf'] and o['adds_from_clock']:
                bad.append(('clock-ahead-of-callback', 'callback due at %r ran with the clock already at %r' % (e[1], e[4])))
                break
        dts = [e[1] for e in o['events'] if e[0] == 'I']
        if any(dt <= EPS for dt in dts):
            bad.append(('tiling', 'an integration interval of at most 1e-6 was integrated'))
        if abs(sum(dts) - (o['t1'] - o['t0'])) > 1e-9 * max(1.0, abs(o['t1'])):
            bad.append(('tiling', 'integration intervals sum to %r but the clock moved by %r' % (sum(dts), o['t1'] - o['t0'])))
        # gap-free: replaying the intervals from t0 passes through every callback clock
        clock = o['t0']
        for e in o['events']:
            if e[0] == 'I':
                clock += e[1]
            elif abs(clock - e[4]) > 1e-9 * max(1.0, abs(clock)):
                bad.append(('tiling', 'clock at a callback is not the sum of the intervals integrated so far'))
                break
        # each integrate(dt) is handed the (correctly rounded) length of the stretch the clock then moves over,
        # starting where the previous one ended
        prev = o['t0']
        for dt, before, after in stretches(o):
            if before != prev:
                bad.append(('tiling', 'an integration starts at clock %r but the previous stretch ended at %r' % (before, prev)))
                break
            # (on an exact time axis - dt is a Fraction - the subtraction does not round: dt IS the stretch)
            if after is None or dt != (after - before if isinstance(dt, Fraction) else float(Fraction(after) - Fraction(before))):
                bad.append(('integrate-argument', 'integrate(%r) was called for the stretch from clock %r to clock %r' % (dt, before, after)))
                break
            prev = after
        if o['t1'] > T:
            bad.append(('clock-above-target', 'evolve_until(%r) left the clock at %r, above the target' % (T, o['t1'])))
        if T - o['t1'] > EPS:
            bad.append(('clock-end', 'clock ended at %r for target %r' % (o['t1'], T)))
        # the final clock exactly (Lean: final_clock_exact): from the clock the last callback saw, the remaining
        # stretch is bridged iff it is longer than 1e-6
        c_last = fires[-1][4] if fires else o['t0']
        want = T if T - c_last > EPS else c_last
        if o['t1'] != want and o['t1'] <= T:
            bad.append(('clock-end-exact', 'last callback clock %r, target %r: the clock ended at %r, not %r' % (c_last, T, o['t1'], want)))
        if any(t < T for (t, c) in o['queue']):
            bad.append(('exactly-once', 'a callback due before T is still queued'))
        if o.get('again', 'ok') != 'ok':
            bad.append(('repeated-target-refused' if o['again'] == 'value' else 'repeated-target-' + o['again'],
                        'after evolve_until(%r) returned (clock %r) the same call once more %s' % (
                            T, o['t1'], 'raises ValueError (backwards)' if o['again'] == 'value' else 'gives ' + o['again'])))
    # history level (Lean: history_inv): when no add_callback was for a time before the largest target
    # already evolved to, the callbacks run in (time, insertion) order ACROSS evolve_until calls as well
    # (not for re-entering callbacks: what they schedule after their nested evolve_until returns lies behind the clock)
    if obs and obs[-1]['adds_after_horizon'] and obs[-1]['wf'] and not any(o.get('reent') for o in obs):
        allkeys = [(e[1], e[2]) for o in obs if o['status'] == 'ok' for e in o['events'] if e[0] == 'F']
        if any(not (a < b) for a, b in zip(allkeys, allkeys[1:])):
            bad.append(('order-across-evolves', 'callbacks of successive evolve_until calls did not run in (time, insertion) order'))
    return bad


# ---------------------------------------------------------------------------------------------

DIRECTED = [
    ('empty', [('evolve', 1.0)]),
    ('empty', [('evolve', 0.0), ('evolve', 0.0), ('evolve', 2.5)]),
    ('drain', [('add', 0.5, 0), ('evolve', 1.0), ('evolve', 2.0)]),
    ('ties', [('add', 1.0, 2), ('add', 1.0, 1), ('add', 1.0, 0), ('evolve', 1.0), ('evolve', 1.25)]),
    ('reinserting', [('kids', 0, [(0.25, 0)]), ('add', 0.0, 0), ('evolve', 1.0), ('evolve', 1.0), ('evolve', 3.0)]),
    ('coalesce', [('add', 1.0, 0), ('add', 1.0 + 3 * TINY, 1), ('add', 1.0 + 5 * TINY, 2), ('add', 1.0 + 9 * TINY, 3), ('evolve', 1.0 + 11 * TINY), ('evolve', 2.0)]),
    ('horizon', [('add', 2.0, 0), ('evolve', 2.0), ('evolve', 2.0 + TINY), ('evolve', 2.0 + 8 * TINY)]),
    ('backwards', [('add', 3.0, 0), ('evolve', 1.0), ('evolve', 0.5), ('evolve', 4.0)]),
    ('child-now', [('kids', 0, [(0.0, 1)]), ('kids', 1, [(0.0, 2)]), ('add', 1.0, 0), ('add', 1.0, 2), ('evolve', 2.0)]),
    # spellings of the time arguments and caller-owned arrays that are changed in place after the call
    ('spelled', [('add', 0.25, 0), ('add', 0.75, 1), ('add', 0.75, 2), ('add', 1.25, 3), ('add', 2.0, 4), ('add', 9.0, 5)] +
                [('evolve', 0.5 * k, '0ds') for k in range(1, 6)]),
    ('spelled', [('add', 0.25, 0), ('add', 1.25, 1), ('add', 9.0, 2)] + [('evolve', 0.5 * k, '1ds') for k in range(1, 6)]),
    ('spelled', [('add', 1.0, 0, '0d'), ('add', 2.0, 1, '1d'), ('add', 1.5, 2, '0ds'), ('add', 0.5, 3, '0ds'), ('evolve', 1.75, '0d'),
                 ('add', 2.0, 4, 'ni'), ('evolve', 3.0, 'i'), ('evolve', 3.0, 'np'), ('evolve', 4.0, '1d')]),
    ('spelled', [('mode', 'clockobj'), ('kids', 0, [(0.0, 1), (0.25, 0)]), ('kids', 1, [(0.0, 2)]), ('add', 0.5, 0, '1d'),
                 ('evolve', 1.0, '1ds'), ('evolve', 1.0, '1ds'), ('evolve', 2.125, '1ds'), ('evolve', 1.0, '0d'), ('evolve', 3.0, '0ds')]),
    ('spelled', [('mode', 'clockobj'), ('kids', 0, [(0.0, 1)]), ('add', 1.0, 0, '0d'), ('add', 1.0 + 3 * TINY, 1, '1d'),
                 ('evolve', 1.0 + 5 * TINY, '1d'), ('add', 2.0, 0, 'np'), ('evolve', 2.0 + 2 * TINY, '0ds'), ('evolve', 3.0, '0ds')]),
    # --- round 4: outside the hypotheses of the hypothesis-carrying theorems
    # adds for instants already passed (Inv.future, AddsFrom violated): they run at the next call, exactly once
    ('pastadds', [('add', 1.0, 0), ('evolve', 2.0), ('add', 0.5, 1), ('add', 1.5, 2), ('add', -1.0, 3), ('evolve', 2.0), ('evolve', 3.0)]),
    # Lean `sliverOps` / history_order_needs_horizon on the real code: the clock rests 2 TINY below the target 1, an add
    # into that sliver runs, in the next call, after a callback with a later time
    ('pastadds', [('add', 1.0 - 2 * TINY, 0), ('add', 1.0 - TINY, 1), ('evolve', 1.0), ('add', 1.0 - 1.5 * TINY, 2), ('evolve', 2.0)]),
    # Lean `pastKid` / order_needs_wf: a child half a time unit before its parent runs after it, clock ahead of its time
    ('negkids', [('kids', 0, [(-0.5, 1)]), ('add', 1.0, 0), ('evolve', 2.0)]),
    ('negkids', [('kids', 0, [(-0.5, 1), (-TINY, 2), (0.0, 1)]), ('kids', 1, [(-2.0, 2)]), ('add', 1.0, 0), ('add', 1.0, 1), ('evolve', 1.0), ('evolve', 2.0)]),
    # Lean `selfNow` / diverges_zero_delay_reinsertion: the real loop would spin; the 7th callback raises (fuel 7)
    ('diverge', [('guard', 7), ('kids', 0, [(0.0, 0)]), ('add', 1.0, 0), ('evolve', 2.0), ('evolve', 2.0)]),
    ('diverge', [('guard', 1), ('add', 0.5, 0), ('add', 0.75, 1), ('evolve', 1.0), ('guard', 2), ('evolve', 1.0), ('evolve', 2.0)]),
    ('diverge', [('guard', 5), ('kids', 0, [(0.0, 1)]), ('kids', 1, [(-0.25, 0)]), ('add', 1.0, 0), ('evolve', 2.0), ('guard', 3), ('evolve', 3.0)]),
    # a callback that raises at once (Lean loopX / raise_eq_fuel_out): entry lost, clock at its stop, resume completes
    ('interrupt', [('raise', 1), ('add', 1.0, 0), ('add', 2.0, 1), ('evolve', 3.0), ('raise', 0), ('evolve', 3.0)]),
    ('interrupt', [('kids', 0, [(0.25, 0), (0.0, 1)]), ('raise', 3), ('add', 0.5, 0), ('add', 0.5 + 2 * TINY, 2), ('evolve', 2.0), ('evolve', 2.0),
                   ('raise', 0), ('evolve', 2.0)]),
    # round 6: raising at once with clock-relative children (Lean loopXC): the clock lags by 2 TINY when the second fires
    ('interrupt', [('kids', 0, [(0.25, 0, 'clock'), (0.0, 1, 'clock')]), ('raise', 3), ('add', 1.0, 0), ('add', 1.0 + 2 * TINY, 0), ('evolve', 2.0),
                   ('evolve', 2.0), ('raise', 0), ('evolve', 2.0)]),
    # Lean final_clock_below_target_possible: the clock ends strictly below the target
    ('below-target', [('evolve', 2 * TINY), ('evolve', 3 * TINY), ('evolve', 5 * TINY)]),
    # the threshold itself: a stretch of exactly the double 1e-6 is not integrated, one ulp more is
    ('epsgrid', [('evolve', NE * U), ('evolve', (NE + 1) * U)]),
    ('epsgrid', [('add', NH * U, 0), ('add', NE * U, 1), ('add', (NE + 1) * U, 2), ('evolve', (NE + NH + 1) * U)]),
    ('epsgrid', [('add', 1 * U, 0), ('evolve', (NE + 1) * U), ('evolve', (NE + 2) * U)]),
    # doubles that are not dyadic: the subtraction t_next - self.t rounds
    # the docstring idiom `add_callback(self.t + period, ...)`: clock-relative children (oracle only)
    ('clockrel', [('kids', 0, [(0.25, 0, 'clock')]), ('add', 1.0, 0), ('add', 1.0 + 2 * TINY, 0), ('evolve', 2.0), ('evolve', 3.0 + TINY)]),
    ('clockrel', [('kids', 1, [(0.0, 2, 'clock')]), ('add', 1.0, 0), ('add', 1.0 + 2 * TINY, 1), ('evolve', 2.0)]),
    # round 6: callbacks that call evolve_until themselves (Lean reentrant_later_target_overshoots and friends)
    ('reent', [('nest', 0, 2.0, 0), ('add', 1.0, 0), ('add', 2.5, 1), ('evolve', 2.25), ('evolve', 4.0)]),
    ('reent', [('kids', 0, [(0.25, 1), (0.5, 1)]), ('nest', 0, 0.375, 1), ('add', 1.0, 0), ('add', 1.125, 1), ('evolve', 3.0)]),
    ('reent', [('nest', 0, -0.5, 0), ('add', 1.0, 0), ('add', 2.0, 1), ('evolve', 3.0), ('evolve', 3.0)]),
    ('reent', [('kids', 1, [(0.0, 2)]), ('nest', 1, 0.0, 5), ('nest', 0, 1.0, 0), ('add', 1.0, 0), ('add', 1.5, 1), ('add', 1.0 + TINY, 1),
               ('evolve', 1.25), ('evolve', 2.0 + TINY), ('evolve', 5.0)]),
    # round 6: exact time axes that are not floats (times as 'n/d' texts; handed over as objects of the axis)
    ('exact', [('axis', 'i64'), ('evolve', qs(TICK0)), ('add', qs(TICK0 + 300), 0), ('add', qs(TICK0 + 200), 1), ('add', qs(TICK0 + 201), 2),
               ('add', qs(TICK0 + 200), 3), ('evolve', qs(TICK0 + 250)), ('evolve', qs(TICK0 + 1000)), ('evolve', qs(TICK0 + 999))]),
    ('exact', [('axis', 'int'), ('kids', 0, [(qs(7), 0, 'clock'), (qs(0), 1)]), ('add', qs(TICK0 + 3), 0), ('add', qs(TICK0 + 1), 1),
               ('evolve', qs(TICK0 + 40)), ('evolve', qs(TICK0 + 40))]),
    ('exact', [('axis', 'frac'), ('add', '1/3', 0), ('add', '1000003/3000000', 1), ('add', '1000001/3000000', 2), ('add', '1000004/3000000', 3),
               ('evolve', '2/3'), ('evolve', '2000003/3000000'), ('evolve', '2000007/3000000')]),
    ('exact', [('axis', 'ld'), ('kids', 0, [(qs(Fraction(1, 2 ** 58)), 1)]), ('add', qs(1 + Fraction(2, 2 ** 58)), 0), ('add', qs(1 + Fraction(1, 2 ** 58)), 1),
               ('add', qs(1), 2), ('evolve', qs(1 + Fraction(3, 2 ** 58))), ('evolve', qs(2))]),
    ('exact', [('axis', 'dec'), ('add', '1/4', 0), ('add', '2500003/10000000', 1), ('add', '2500012/10000000', 2), ('evolve', '1/2'), ('evolve', '1/2')]),
    ('decimal', [('evolve', 20.2), ('evolve', 53.6), ('evolve', 53.6)]),
    ('decimal', [('add', 53.6, 0), ('evolve', 20.2), ('evolve', 62.4)]),
    ('decimal', [('add', 0.1, 0), ('add', 0.3, 1), ('add', 0.1 + 0.2, 2), ('add', 0.7, 3), ('evolve', 0.7), ('evolve', 0.7), ('evolve', 1.3)]),
]


def terminating(ops, cand):
    """Shrinking must not strip the guard off a history whose callbacks re-insert themselves for the same instant: the
    real loop would spin forever.  A candidate of a guarded history must install a guard before its first evolve_until."""
    if not any(op[0] == 'guard' for op in ops):
        return True
    for op in cand:
        if op[0] == 'guard' and int(op[1]) > 0:
            return True
        if op[0] == 'evolve':
            return False
    return True


def check_history(ctx, style, ops, want_model=True):
    obs = run_real(ops)
    bad = oracle(obs)
    seen = set()
    for key, what in bad:
        if key in seen:
            continue
        seen.add(key)
        small = shrink_list(ops, lambda o: terminating(ops, o) and any(k == key for k, _ in oracle(run_real(o))))
        what_small = [w for k, w in oracle(run_real(small)) if k == key]
        ctx.violation(key, what_small[0] if what_small else what, {'ops': small})
    nfire = sum(1 for o in obs for e in o['events'] if e[0] == 'F')
    if exact_axis(ops):
        ctx.count('exact_axis:' + exact_axis(ops))
        times = [t for (t, c, i) in (obs[-1]['created'] if obs else [])]
        ctx.count('exact_axis_callback_times', len(times))
        ctx.count('exact_axis_callback_times_no_double_can_hold', sum(1 for t in times if Fraction(float(t)) != t))
        ctx.count('exact_axis_pairs_of_distinct_times_collapsing_onto_one_double',
                  sum(1 for a, b in zip(sorted(set(times)), sorted(set(times))[1:]) if float(a) == float(b)))
    ctx.count('style:' + style)
    ctx.count('evolves', len(obs))
    ctx.count('callbacks_fired', nfire)
    ctx.count('status:' + ','.join(sorted(set(o['status'] for o in obs))))
    coalesced = sum(1 for o in obs for e in o['events'] if e[0] == 'F' and e[1] != e[4])
    ctx.count('callbacks_run_with_lagging_clock', coalesced)
    sig = (style, len(ops), nfire, coalesced > 0, tuple(o['status'] for o in obs))
    ctx.case({'style': style, 'ops': ops} if nfire > 1 else None, nontrivial_key=sig if nfire > 0 or len(obs) > 1 else None)
    return obs


def run(ctx):
    ctx.rule = ('histories of add_callback / evolve_until on a recording subclass of DynamicOpticalSystem: '
                'directed corpus first, then random histories (styles plain/ties/coalesce/reinserting/empty/mixed; '
                'times dyadic, some offset by multiples of 2^-22 to exercise the 1e-6 coalescing; callbacks schedule '
                'children or re-insert themselves). Every evolve_until is compared line by line (status, clock, counter, '
                'integrate/fire trace, remaining queue) with the Lean model, the whole-history summary (time evolved to, '
                'clock, #created, #executed, #pending, executed sequence over all evolutions and whether it is in order) '
                'is compared with the model\'s `Hist` (the object of the history theorems), and the property clauses '
                '(including order across evolve_until calls when no add was before the time already evolved to) are evaluated '
                'directly on the observations. The time arguments are spelled as float / int / NumPy scalar / 0-d array / '
                '1-element array / one caller-owned array overwritten in place per call (about 5 of 7 random histories), the caller '
                'changes its arrays in place right after each call and clock and queue (as floats) must not move; callbacks may pass '
                'the clock object itself back into add_callback. Non-trivial = at least one callback fired or several evolutions; '
                'distinct by (style, #ops, #fired, coalescing seen, statuses).')
    ctx.rule += (' Round 4: styles outside the hypotheses of the hypothesis-carrying theorems - pastadds (add_callback for '
                 'instants before the time evolved to, before the clock, or in the sliver between a resting clock and the last '
                 'target), negkids (children scheduled before their parent\'s time), diverge (zero/negative-delay '
                 're-insertion cycles; every evolve_until under a guard: the N-th callback raises, the model runs on fuel N), '
                 'epsgrid (times on the 2^-72 grid around the double 1e-6: stretches of exactly the threshold, one ulp '
                 'more/less), decimal (non-dyadic doubles: clocks, callbacks and queue compared exactly, each integrate(dt) '
                 'must be the correctly rounded stretch between two clocks). The oracle evaluates each clause under exactly the '
                 'hypotheses of its theorem; after each history the last target is requested once more and must be accepted.')
    ctx.rule += (' Clock-relative children (`self.t + d`, the docstring idiom; style clockrel) are modelled by loopC/stepOpC. '
                 'Generated histories whose dry-run population reaches %d executed callbacks are drawn again.' % POPULATION_CAP)
    ctx.rule += (' Round 6: style exact - one exact NON-float time axis per history (Python int / np.int64 ticks around 1.76e18, '
                 'Fraction, np.longdouble on a 2^-58 grid, Decimal): times are exact rationals, handed over as objects of the axis, '
                 'clock / queue / integrate arguments read back exactly and compared exactly with oracle and model; style reent - '
                 'callbacks that call evolve_until themselves (nested target below the clock, inside, beyond the outer target), '
                 'compared with Lean evolveUntilR, oracle = the clauses the code keeps; raising at once also with clock-relative '
                 'children (loopXC); histories whose callbacks schedule only larger ids are re-run on the fuel of terminates_if_dag; '
                 'add_callback raising on a legal argument is a violation.')
    ctx.extra['population_cap'] = POPULATION_CAP
    ctx.assumptions += ['heapq pops the least (time, counter) tuple',
                        'float subtraction of the generated dyadic / grid times is exact; for the decimal style only the clocks are '
                        'compared exactly (integrate arguments through the clocks)']
    # T2-like tie of the threshold constant: read the float literal out of the running code object
    import hcipy
    consts = [c for c in hcipy.DynamicOpticalSystem.evolve_until.__code__.co_consts if isinstance(c, float)]
    ctx.extra['threshold_constants_in_evolve_until'] = [repr(c) for c in consts]
    n = ctx.scale(400, 6000)
    hist = [(s, o) for s, o in DIRECTED]
    for k in range(n):
        style, ops = gen_history(ctx.rng, big=(ctx.tier == 'thorough' and k % 3 == 0))
        sp, ops = respell(ctx.rng, ops)
        ctx.count('spelling:' + sp)
        hist.append((style, ops))
    all_lines = []
    index = []
    observations = []
    tight = []
    n_tight = ctx.scale(150, 1500)
    n_dag = [0]
    for style, ops in hist:
        obs = check_history(ctx, style, ops)
        if clock_relative(ops):
            ctx.count('histories_with_clock_relative_children')
            ctx.count('clock_relative_wf:%s' % (obs[-1]['wf'] if obs else True))
        lines, idx = model_lines(ops, obs=obs)
        base = len(all_lines)
        all_lines += lines
        index.append([base + i for i in idx] + [base + len(lines) - 1])
        observations.append((style, ops, obs))
        # the same history once more on exactly the fuel of evolve_total_of_progress (when its hypotheses hold): the
        # model must return (not run out of fuel) and print the same lines, i.e. the real unbounded loop's run
        pf = progress_fuels(ops, obs)
        if pf is not None and len(tight) - n_dag[0] < n_tight:
            lines2, idx2 = model_lines(ops, fuels=pf)
            base2 = len(all_lines)
            all_lines += lines2
            tight.append((ops, obs, [base2 + i for i in idx2], pf, 'evolve_total_of_progress'))
        # ... and on the fuel of terminates_if_dag (children only towards larger ids, any delay)
        df = dag_fuels(ops, obs)
        if df is not None and n_dag[0] < n_tight:
            n_dag[0] += 1
            lines2, idx2 = model_lines(ops, fuels=df)
            base2 = len(all_lines)
            all_lines += lines2
            tight.append((ops, obs, [base2 + i for i in idx2], df, 'terminates_if_dag'))
    eps_line = len(all_lines)
    all_lines.append('C20 eps %s' % (rat(consts[0]) if len(consts) == 1 else '0'))
    out = ctx.model(all_lines)
    ctx.traces_validated += 1
    if len(consts) != 1 or out[eps_line] != 'ok':
        ctx.disagree('C20 eps', {'impl': 'float literals of DynamicOpticalSystem.evolve_until: %r' % (consts,),
                                 'model': out[eps_line] + ' (eps of Model/Scheduler.lean)'})
    for ops, obs, idx2, pf, thm in tight:
        ctx.count('histories_rerun_on_the_fuel_of_' + thm)
        pre_ = 'progress' if thm == 'evolve_total_of_progress' else 'dag'
        ctx.count(pre_ + '_fuel_total', sum(pf))
        ctx.count(pre_ + '_callbacks_total', sum(1 for o in obs for e in o['events'] if e[0] == 'F'))
        for o, i, f in zip(obs, idx2, pf):
            ctx.traces_validated += 1
            if real_line(o) != out[i]:
                ctx.disagree('C20 evolve on the fuel of ' + thm,
                             {'ops': ops, 'T': o['T'], 'fuel': f, 'impl': real_line(o), 'model': out[i]})
                break
    for (style, ops, obs), idx in zip(observations, index):
        ihist = idx.pop()
        # stored by value (Lean: stored_by_value / Bad.byReference): the caller program replayed through `runG .copy`
        # gives the model's history; would the by-reference scheduler have run something else on this program?
        byref = dict(tok.split('=') for tok in out[ihist - 1].split())
        ctx.count('by_reference_scheduler_would_differ:' + byref.get('differs', '?'))
        if byref.get('replayG') not in ('true', 'na'):
            ctx.disagree('C20 byref', {'ops': ops, 'model': out[ihist - 1]})
        agree = True
        for o, i in zip(obs, idx):
            ctx.traces_validated += 1
            if out[i].startswith('fuel') and not o.get('guard'):
                raise MachineryError('model ran out of fuel on %r' % (ops,))
            if o['status'] == 'fuel':
                ctx.count('evolves_interrupted_by_guard')
            if o['status'] == 'raised':
                ctx.count('evolves_interrupted_by_a_callback_raising_at_once')
                if clock_relative(ops):
                    ctx.count('evolves_interrupted_by_raising_at_once_with_clock_relative_children')
            if real_line(o) != out[i]:
                ctx.disagree('C20 evolve', {'ops': ops, 'T': o['T'], 'impl': real_line(o), 'model': out[i]},
                             key=('raises-index-empty-queue' if o['status'] == 'index' else None))
                agree = False
                break
        # whole-history summary: time evolved to, clock, #created, #executed, #pending, global order
        if reentrant(ops):
            ctx.count('reentrant_evolves', len(obs))
            ctx.count('reentrant_nested_calls', sum(len(o['nested']) for o in obs))
            ctx.count('reentrant_nested_beyond_outer_target', sum(1 for o in obs for tg, clk in o['nested'] if tg > o['T']))
            ctx.count('reentrant_nested_refused', sum(1 for o in obs for tg, clk in o['nested'] if tg < clk))
            ctx.count('reentrant_clock_left_above_target', sum(1 for o in obs if o['status'] == 'ok' and o['t1'] > o['T']))
            continue        # the whole-history summary is about `Hist` / `runOps` (entry-only callbacks)
        if agree and obs and all(o['status'] in ('ok', 'value', 'fuel', 'raised') for o in obs):
            ctx.traces_validated += 1
            ctx.count('history_summaries_compared')
            for flag in ('adds_after_horizon', 'adds_from_clock', 'wf'):
                ctx.count('histories_%s:%s' % (flag, obs[-1][flag]))
            rl = real_hist_line(obs, ops)
            if rl != out[ihist]:
                ctx.disagree('C20 hist', {'ops': ops, 'impl': rl, 'model': out[ihist]})


def replay(ctx, case):
    ops = [tuple(op) for op in case['ops']]
    bad = oracle(run_real(ops))
    for key, what in bad:
        print('  fails:', key, '-', what)
    return not bad
