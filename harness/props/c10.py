"""C10 — grid identity: correspondence with the Lean grid store + direct oracle on hcipy's grids."""
import numpy as np

from harness.common import rat, rat_list, MachineryError
from harness.props import gridlib as G

MAXLIVE = 9


# ---------------------------------------------------------------------------------------------
# generation

def gen_scale_arg(rng, ndim, polar):
    r = rng.random()
    vals = [-2.0, -1.0, -0.5, 0.5, 2.0, 1.5, 4.0, 1.0, -0.25]
    if polar or r < 0.45:
        return ['s', float(rng.choice(vals)), str(rng.choice(G.SCALAR_FORMS))]
    f = [float(rng.choice(vals)) for _ in range(ndim)]
    if rng.random() < 0.3:
        k = int(rng.integers(0, ndim))
        f = [1.0] * ndim
        f[k] = float(rng.choice([-1.0, 2.0, 0.5]))
    return ['v', f, str(rng.choice(G.VECTOR_FORMS))]


def gen_shift(rng, ndim):
    b = [float(rng.choice([0.0, 0.0, 0.5, -1.0, 2.0, 0.125, -3.25])) for _ in range(ndim)]
    return b


def spec_ndim(spec):
    return len(spec['data'][1]) if spec['kind'] == 'reg' else len(spec['data'])


def gen_case(rng, big):
    maxn = 6 if not big else int(rng.choice([6, 12, 40]))
    ops = []
    meta = []          # (sys, ndim) per slot
    nbase = int(rng.integers(1, 4))
    first = None
    last = None
    shared = bool(rng.random() < 0.4)       # constructor inputs alias each other / are reused between grids
    xdim = bool(rng.random() < 0.15)        # family: grids of different ndim with equal point counts and shared leading axes
    if xdim:
        nbase = int(rng.integers(2, 5))
    for k in range(nbase):
        if first is not None and xdim:
            # cross-dimension twin: other number of axes, same number of points, shared leading axes
            spec = twin_of(rng, first if rng.random() < 0.6 else last, what='ndim')
        elif first is not None and rng.random() < (0.5 if not shared else 0.75):
            # a near twin of the first grid: same shape, one thing changed
            spec = twin_of(rng, first)
        else:
            spec = G.gen_spec(rng, maxn=maxn)
            if shared:
                G.make_shared(rng, spec)
            elif rng.random() < 0.5:
                G.gen_forms(rng, spec)
        if first is None:
            first = spec
        last = spec
        ops.append(['new', spec])
        meta.append((spec['sys'], spec_ndim(spec), bool(spec.get('int'))))
    nops = int(rng.integers(2, 8 if not big else 12))
    for _ in range(nops):
        if len(meta) >= MAXLIVE:
            kinds = ['scale', 'shift', 'reverse', 'mat']
        else:
            kinds = ['rt', 'rt', 'rebuild', 'scaled', 'shifted', 'reversed', 'scale', 'shift', 'reverse', 'mat']
        op = str(rng.choice(kinds))
        if op == 'rt' and rng.random() < 0.2:
            op = 'rtas'
        i = int(rng.integers(0, len(meta)))
        sysm, ndim, isint = meta[i]
        if op in ('shift', 'shifted') and sysm == 'p':
            op = 'reversed' if op == 'shifted' else 'reverse'
        if isint and op in ('shift', 'scale', 'mat'):
            op = 'reverse'      # integer-dtype twins exist only to be compared and hashed
        if isint and op in ('shifted', 'scaled'):
            op = 'reversed'
        if op == 'rtas':
            # from_dict of the dictionary with its two names replaced: the other system (2-D), an unknown system, an unknown type
            r = rng.random()
            other = {'c': 'polar', 'p': 'cartesian'}[sysm]
            if r < 0.45 and ndim == 2 and not isint:
                ops.append(['rtas', i, other, None])
                meta.append((other[0], ndim, isint))
            elif r < 0.6:
                ops.append(['rtas', i, {'c': 'cartesian', 'p': 'polar'}[sysm], None])
                meta.append(meta[i])
            elif r < 0.8:
                ops.append(['rtas', i, str(rng.choice(['spherical', 'Cartesian', 'polar_'])), None])
            else:
                ops.append(['rtas', i, None, str(rng.choice(['regular_', 'Separated', 'unstructured ', 'coords']))])
        elif op == 'rt':
            ops.append(['rt', i, str(rng.choice(['copy', 'dict', 'pickle']))])
            meta.append(meta[i])
        elif op == 'rebuild':
            asint = [False, False, 'int64', 'int32', 'int16', 'pyintlist'][int(rng.integers(0, 6))]
            ops.append(['rebuild', i, asint])
            meta.append((sysm, ndim, isint or bool(asint)))
        elif op in ('scaled', 'scale'):
            ops.append([op, i, gen_scale_arg(rng, ndim, sysm == 'p')])
            if op == 'scaled':
                meta.append(meta[i])
        elif op in ('shifted', 'shift'):
            ops.append([op, i, gen_shift(rng, ndim), str(rng.choice(G.VECTOR_FORMS))])
            if op == 'shifted':
                meta.append(meta[i])
        else:
            ops.append([op, i])
            if op == 'reversed':
                meta.append(meta[i])
    return {'ops': ops, 'shared': shared, 'xdim': xdim}


def gen_share_case(rng):
    """Histories with SHARING AT THE COORDS LEVEL: several grids on one Coords object (`CartesianGrid(g.coords)`,
    `PolarGrid(g.coords)`, a grid on the coords of a grid that is itself a second holder), written through ANY holder's
    API (scale / shift / reverse), through the Coords object itself (`c = g.coords; c *= f; c += b; c.reverse()` - what a
    caller who kept the object does) and through the arrays the accessors hand out (`g.separated_coords[k] *= c`,
    `g.coords[k] += c`, `g.coords.zero += b`), interleaved with copies / round trips (fresh Coords objects), reading
    `.weights`, and further holders built late.  All live grids are re-read, compared pairwise and hashed after every op."""
    kinds = ('sep', 'uns', 'sep', 'uns', 'reg')
    ops = []
    meta = []           # (sys, ndim, kind, cell) per slot
    ncell = 0
    for _ in range(int(rng.integers(1, 3))):
        spec = G.gen_spec(rng, maxn=5, kinds=kinds)
        if spec['kind'] == 'sep':
            spec['data'] = [a if len(a) > 1 else a + [a[0] + 1.5] for a in spec['data']]
            if isinstance(spec['w'], list):
                spec['w'] = None
        ops.append(['new', spec])
        meta.append((spec['sys'], spec_ndim(spec), spec['kind'], ncell))
        ncell += 1
    for _ in range(int(rng.integers(1, 4))):
        i = int(rng.integers(0, len(meta)))
        sysm, ndim, kind, cell = meta[i]
        tosys = ('p' if sysm == 'c' else 'c') if (ndim == 2 and rng.random() < 0.4) else sysm
        ops.append(['on', i, tosys])
        meta.append((tosys, ndim, kind, cell))
    for _ in range(int(rng.integers(3, 9))):
        i = int(rng.integers(0, len(meta)))
        sysm, ndim, kind, cell = meta[i]
        r = rng.random()
        if r < 0.3:
            op = str(rng.choice(['scale', 'shift', 'reverse']))
            if op == 'shift' and sysm == 'p':
                op = 'reverse'
            if op == 'scale':
                ops.append(['scale', i, gen_scale_arg(rng, ndim, sysm == 'p')])
            elif op == 'shift':
                ops.append(['shift', i, gen_shift(rng, ndim), str(rng.choice(G.VECTOR_FORMS))])
            else:
                ops.append(['reverse', i])
        elif r < 0.6:
            via = 'coords-object' if (rng.random() < 0.5 or (kind == 'reg')) else 'accessor-array'
            what = str(rng.choice(['scale', 'shift', 'reverse'])) if via == 'coords-object' else str(rng.choice(['scale', 'shift']))
            if kind == 'reg' and rng.random() < 0.3:
                via, what = 'accessor-array', 'shift'           # g.coords.zero += b
            if what == 'scale':
                arg = [float(rng.choice([-2.0, -1.0, 0.5, 2.0, 1.5, 4.0])) for _ in range(ndim)]
                if via == 'accessor-array':
                    k = int(rng.integers(0, ndim))
                    arg = [arg[q] if q == k else 1.0 for q in range(ndim)]
            elif what == 'shift':
                arg = [float(rng.choice([0.5, -1.0, 2.0, 0.125, -3.25])) for _ in range(ndim)]
                if via == 'accessor-array' and kind != 'reg':
                    k = int(rng.integers(0, ndim))
                    arg = [arg[q] if q == k else 0.0 for q in range(ndim)]
            else:
                arg = None
            ops.append(['cedit', i, what, arg, via])
        elif len(meta) >= MAXLIVE:
            ops.append(['mat', i])
        elif r < 0.72:
            tosys = ('p' if sysm == 'c' else 'c') if (ndim == 2 and rng.random() < 0.3) else sysm
            ops.append(['on', i, tosys])
            meta.append((tosys, ndim, kind, cell))
        elif r < 0.86:
            ops.append(['rt', i, str(rng.choice(['copy', 'dict', 'pickle']))])
            meta.append((sysm, ndim, kind, ncell))
            ncell += 1
        elif r < 0.93:
            ops.append(['rebuild', i, False])
            meta.append((sysm, ndim, kind, ncell))
            ncell += 1
        else:
            ops.append(['mat', i])
    return {'ops': ops, 'shared': False, 'share': True}


TINY = [2.0 ** -54, 2.0 ** -53, -2.0 ** -54, 2.0 ** -60, 1e-17, -1e-20, 2.0 ** -1074, 1e-300]
INEXACT = [0.1, -0.3, 1.0 / 3.0, 1e-3, 2.0 ** -52, 3 * 2.0 ** -53, 1e16, 2.0 ** 53, 0.7]


def gen_float_case(rng):
    """Float-shift histories (Cartesian float64 grids, values not necessarily dyadic): in-place and
    copying shifts by amounts that are absorbed (below half an ulp of every coordinate), partly absorbed,
    or rounded — the model rounds every stored sum to nearest-even binary64 (`shiftf`), so representation,
    `==` matrix and hash are still compared exactly."""
    spec = G.gen_spec(rng, maxn=5, polar_ok=False)
    r = rng.random()
    if r < 0.5:
        # non-dyadic values: the float *is* a rational, the model gets exactly that rational
        k = float(rng.choice([1.1, 0.3, 1e-3, 7.7e5, 1.0 / 3.0]))
        if spec['kind'] == 'reg':
            spec['data'][0] = [v * k for v in spec['data'][0]]
            spec['data'][2] = [v * k for v in spec['data'][2]]
        else:
            spec['data'] = [[v * k for v in a] for a in spec['data']]
    ndim = spec_ndim(spec)
    ops = [['new', spec]]
    nlive = 1
    for _ in range(int(rng.integers(2, 6))):
        i = int(rng.integers(0, nlive))
        c = rng.random()
        if c < 0.15 and nlive < MAXLIVE:
            ops.append(['rt', i, 'copy'])
            nlive += 1
            continue
        mode = str(rng.choice(['tiny', 'tiny', 'inexact', 'mixed', 'zero-but-one']))
        if mode == 'tiny':
            b = [float(rng.choice(TINY)) for _ in range(ndim)]
        elif mode == 'inexact':
            b = [float(rng.choice(INEXACT)) for _ in range(ndim)]
        elif mode == 'mixed':
            b = [float(rng.choice(TINY + INEXACT + [0.0, 0.5])) for _ in range(ndim)]
        else:
            b = [0.0] * ndim
            b[int(rng.integers(0, ndim))] = float(rng.choice(TINY))
        if c < 0.6 and nlive < MAXLIVE:
            ops.append(['shiftedf', i, b, str(rng.choice(['float64', 'list', 'tuple']))])
            nlive += 1
        else:
            ops.append(['shiftf', i, b, str(rng.choice(['float64', 'list', 'tuple']))])
    return {'ops': ops, 'shared': False, 'float': True}


def change_ndim(rng, t):
    """Give the spec another number of axes while keeping the number of points and every remaining axis as it is:
    unstructured - a column more (a copy of a column, zeros, or new values) or the last column dropped; separated - a
    one-point axis appended / the last axis dropped (same point count when it had one point); regular - an axis with
    dims 1 appended / the last axis dropped.  Cartesian only (polar grids are 2-D)."""
    t['sys'] = 'c'
    kind = t['kind']
    nd = spec_ndim(t)
    grow = nd == 1 or (nd < 3 and rng.random() < 0.6)
    size_before = G.spec_size(t)
    if kind == 'uns':
        if grow:
            n = len(t['data'][0])
            r = rng.random()
            col = list(t['data'][-1]) if r < 0.35 else [0.0] * n if r < 0.6 else [float(rng.integers(-4, 5)) * 0.5 for _ in range(n)]
            t['data'] = t['data'] + [col]
        else:
            t['data'] = t['data'][:-1]
    elif kind == 'sep':
        if grow:
            t['data'] = t['data'] + [[float(rng.choice([0.0, 1.0, -2.5]))]]
        else:
            t['data'] = t['data'][:-1]
    else:
        d, n, z = t['data']
        if grow:
            t['data'] = [d + [float(rng.choice([1.0, 0.5, d[-1]]))], n + [1], z + [float(rng.choice([0.0, z[-1]]))]]
        else:
            t['data'] = [d[:-1], n[:-1], z[:-1]]
    if isinstance(t['w'], list) and G.spec_size(t) != size_before:
        t['w'] = None
    t.pop('forms', None)
    t.pop('shared', None)
    t['int'] = False


def twin_of(rng, spec, what=None):
    """A grid that differs from `spec` in exactly one aspect (or in none)."""
    import copy
    t = copy.deepcopy(spec)
    if what is None:
        what = str(rng.choice(['same', 'system', 'kind', 'value', 'size', 'weights', 'int', 'forms', 'forms', 'ndim']))
    t['_twin'] = what
    if what == 'ndim':
        change_ndim(rng, t)
        if rng.random() < 0.3:
            # ... and another storage of the same points (regular -> separated, 1-D separated -> unstructured)
            if t['kind'] == 'reg':
                d, n, z = t['data']
                t['kind'] = 'sep'
                t['data'] = [[zz + k * dd for k in range(nn)] for dd, nn, zz in zip(d, n, z)]
            elif t['kind'] == 'sep' and all(len(a) == len(t['data'][0]) for a in t['data']) and rng.random() < 0.5:
                t['kind'] = 'uns'       # the axes re-read as columns: other points, same arrays
                if isinstance(t['w'], list):
                    t['w'] = None
        return t
    if what == 'system' and len(t['data'][1] if t['kind'] == 'reg' else t['data']) == 2:
        t['sys'] = 'p' if t['sys'] == 'c' else 'c'
    elif what == 'kind':
        # same points, other storage
        if t['kind'] == 'reg':
            d, n, z = t['data']
            t['kind'] = 'sep'
            t['data'] = [[zz + k * dd for k in range(nn)] for dd, nn, zz in zip(d, n, z)]
        elif t['kind'] == 'sep' and len(t['data']) == 1:
            t['kind'] = 'uns'
        if isinstance(t['w'], list):
            t['w'] = None
    elif what == 'value':
        if t['kind'] == 'reg':
            j = int(rng.integers(0, len(t['data'][0])))
            which = 0 if rng.random() < 0.5 else 2
            t['data'][which][j] += float(rng.choice([0.5, -1.0, 2.0 ** -6]))
        else:
            j = int(rng.integers(0, len(t['data'])))
            if t['data'][j]:
                k = int(rng.integers(0, len(t['data'][j])))
                t['data'][j][k] += float(rng.choice([0.5, -1.0, 2.0 ** -6]))
    elif what == 'size':
        if t['kind'] == 'reg':
            j = int(rng.integers(0, len(t['data'][1])))
            t['data'][1][j] += 1
        elif t['kind'] == 'sep':
            j = int(rng.integers(0, len(t['data'])))
            t['data'][j] = t['data'][j] + [t['data'][j][-1] + 1.0]
        else:
            t['data'] = [a + [a[-1] + 1.0] for a in t['data']]
        t['w'] = None
    elif what == 'weights':
        t['w'] = 2.5
    elif what == 'int':
        t['int'] = G.int_form(rng, t) if G.spec_integral(t) else False
        t.pop('forms', None)
    elif what == 'forms':
        # identical values, other dtypes / containers for every constructor argument
        t.pop('shared', None)
        G.gen_forms(rng, t)
    return t


# ---------------------------------------------------------------------------------------------
# the real code

def observe(grids):
    snaps = [G.snap(g) for g in grids]
    n = len(grids)
    eq = [[None] * n for _ in range(n)]
    for i in range(n):
        for j in range(n):
            try:
                eq[i][j] = bool(grids[i] == grids[j])
            except Exception as e:  # noqa
                eq[i][j] = 'err:' + G.errkind(e)
    hashes = [G.safe_hash(g) for g in grids]
    return {'snaps': snaps, 'eq': eq, 'hash': hashes}


LAST = {}


def canon_dict(tree):
    """what `Grid.to_dict()` wrote, as plain Python values (names verbatim)"""
    c = tree['coords']
    w = tree['weights']
    out = {'sys': tree['coordinate_system'], 'type': c['type'], 'delta': [], 'dims': [], 'zero': [], 'arrays': [],
           'w': None if w is None else float(w) if np.ndim(w) == 0 else [float(v) for v in np.asarray(w).ravel()],
           'keys': sorted(tree.keys()), 'ckeys': sorted(c.keys())}
    if 'delta' in c:
        out['delta'] = [float(v) for v in c['delta']]
        out['dims'] = [int(v) for v in c['dims']]
        out['zero'] = [float(v) for v in c['zero']]
    if 'separated_coords' in c:
        out['arrays'] = [[float(v) for v in a] for a in c['separated_coords']]
    if 'coords' in c:
        out['arrays'] = [[float(v) for v in a] for a in c['coords']]
    return out


def compare_dict(ans, real, snap):
    """None, or the first difference between the model's `toDict` and what `to_dict()` wrote for a grid
    whose snapshot is `snap`"""
    t = ans.split(' ')
    if t[0] != 'ok' or len(t) != 8:
        return 'model answered %r' % ans
    want_keys = {'reg': ['delta', 'dims', 'type', 'zero'], 'sep': ['separated_coords', 'type'], 'uns': ['coords', 'type']}[snap['kind']]
    if real['keys'] != ['coordinate_system', 'coords', 'weights'] or real['ckeys'] != want_keys:
        return 'keys %r / %r' % (real['keys'], real['ckeys'])
    if t[1] != real['sys'] or t[2] != real['type']:
        return 'names %s/%s vs %s/%s' % (t[1], t[2], real['sys'], real['type'])
    if not G.lists_close(G.parse_rat_list(t[3]), real['delta']) or not G.lists_close(G.parse_rat_list(t[5]), real['zero']):
        return 'delta/zero %s %s vs %r %r' % (t[3], t[5], real['delta'], real['zero'])
    if [int(x) for x in G.parse_rat_list(t[4])] != real['dims']:
        return 'dims %s vs %r' % (t[4], real['dims'])
    ma = G.parse_rat_lists(t[6])
    if len(ma) != len(real['arrays']) or not all(G.lists_close(a, b) for a, b in zip(ma, real['arrays'])):
        return 'arrays %s vs %r' % (t[6][:120], real['arrays'])
    if not G.w_same(G.parse_w(t[7]), real['w']):
        return 'weights %s vs %r' % (t[7][:80], real['w'])
    return None


def apply_real(grids, op, pool=None, shared=False):
    """Apply one op to the list of live hcipy grids. Returns status string."""
    import hcipy
    kind = op[0]
    try:
        if kind == 'new':
            g = G.build(op[1], pool)
            G.validate(g)           # a grid that cannot report its own coordinates / points counts as a failed construction
            grids.append(g)
        elif kind == 'rt' and op[2] == 'dict':
            tree = grids[op[1]].to_dict()
            LAST['dict'] = canon_dict(tree)
            grids.append(hcipy.Grid.from_dict(tree))
        elif kind == 'rtas':
            tree = grids[op[1]].to_dict()
            LAST['dict'] = canon_dict(tree)
            if op[2] is not None:
                tree['coordinate_system'] = op[2]
            if op[3] is not None:
                tree['coords']['type'] = op[3]
            try:
                grids.append(hcipy.Grid.from_dict(tree))
            except KeyError:
                return 'err:key'
        elif kind == 'rt':
            grids.append(G.roundtrip(grids[op[1]], op[2]))
        elif kind == 'rebuild':
            s = G.snap(grids[op[1]])
            spec = {'sys': s['sys'], 'kind': s['kind'], 'data': s['data'], 'w': s['w'], 'int': False}
            spec['int'] = (op[2] if isinstance(op[2], str) else 'int64') if (op[2] and G.spec_integral(spec)) else False
            spec['shared'] = bool(shared)
            grids.append(G.build(spec, pool))
        elif kind in ('scaled', 'scale'):
            a = G.op_arg(op[2])
            import warnings
            with warnings.catch_warnings():
                warnings.simplefilter('ignore')
                if kind == 'scaled':
                    grids.append(grids[op[1]].scaled(a))
                else:
                    r = grids[op[1]].scale(a)
                    if r is not grids[op[1]]:
                        return 'err:not-self'
        elif kind == 'mat':
            import warnings
            with warnings.catch_warnings():
                warnings.simplefilter('ignore')
                grids[op[1]].weights        # the getter caches the automatic weights
        elif kind in ('shifted', 'shift', 'shiftedf', 'shiftf'):
            b = G.as_form(op[2], op[3] if len(op) > 3 else 'float64')
            if kind in ('shifted', 'shiftedf'):
                grids.append(grids[op[1]].shifted(b))
            else:
                grids[op[1]].shift(b)
        elif kind == 'on':
            cls = hcipy.CartesianGrid if op[2] == 'c' else hcipy.PolarGrid
            grids.append(cls(grids[op[1]].coords))
        elif kind == 'cedit':
            g = grids[op[1]]
            what, arg, via = op[2], op[3], op[4]
            if via == 'coords-object':
                c = g.coords            # the object a caller who built the grid still holds
                if what == 'scale':
                    c *= np.array(arg)
                elif what == 'shift':
                    c += np.array(arg)
                else:
                    c.reverse()
            else:
                name = type(g.coords).__name__
                if name == 'RegularCoords':
                    g.coords.zero += np.array(arg)
                else:
                    neutral = 1.0 if what == 'scale' else 0.0
                    ks = [q for q, v in enumerate(arg) if v != neutral]
                    for q in ks:
                        arr = g.separated_coords[q] if name == 'SeparatedCoords' else g.coords[q]
                        if what == 'scale':
                            arr *= arg[q]
                        else:
                            arr += arg[q]
        elif kind == 'reversed':
            grids.append(grids[op[1]].reversed())
        elif kind == 'reverse':
            grids[op[1]].reverse()
        else:
            raise MachineryError('unknown op %r' % (op,))
    except MachineryError:
        raise
    except Exception as e:  # noqa
        return 'err:' + G.errkind(e)
    return 'ok'


def model_op_lines(op, pool):
    if op[0] == 'new':
        return G.new_lines('C10', op[1], pool)
    if op[0] == 'rtas' or (op[0] == 'rt' and op[2] == 'dict'):
        return ['C10 todict %d' % op[1], model_op_line(op)]
    if op[0] in ('shiftf', 'shiftedf'):
        return ['C10 shiftvals %d' % op[1], 'C10 absorbs %d %s' % (op[1], rat_list(op[2])), model_op_line(op)]
    return [model_op_line(op)]


def model_op_line(op):
    kind = op[0]
    if kind == 'new':
        return G.new_line('C10', op[1])
    if kind == 'rtas':
        return 'C10 rtdictas %d %s %s' % (op[1], op[2] if op[2] is not None else '=', (op[3] if op[3] is not None else '=').replace(' ', '_'))
    if kind == 'rt' and op[2] == 'dict':
        return 'C10 rtdict %d' % op[1]
    if kind in ('rt', 'rebuild'):
        return 'C10 copy %d' % op[1]
    if kind == 'on':
        return 'C10 on %d %s' % (op[1], op[2])
    if kind == 'cedit':
        return 'C10 cedit %d %s' % (op[1], {'scale': 'cscale ' + rat_list(op[3] or []), 'shift': 'cshift ' + rat_list(op[3] or []),
                                             'reverse': 'creverse'}[op[2]])
    if kind in ('scaled', 'scale'):
        a = op[2]
        arg = ('s:' + rat(a[1])) if a[0] == 's' else ('v:' + rat_list(a[1]))
        return 'C10 %s %d %s' % (kind, op[1], arg)
    if kind in ('shifted', 'shift', 'shiftedf', 'shiftf'):
        return 'C10 %s %d %s' % (kind, op[1], rat_list(op[2]))
    return 'C10 %s %d' % (kind, op[1])


def run_real(case):
    grids = []
    steps = []
    pool = G.Pool()
    cells = []          # by the history alone: which Coords object every live grid was built on
    for op in case['ops']:
        before = [G.snap(g) for g in grids]
        LAST.clear()
        status = apply_real(grids, op, pool, case.get('shared', False))
        while len(cells) < len(grids):
            cells.append(cells[op[1]] if op[0] == 'on' else (max(cells) + 1 if cells else 0))
        # the same partition read from the objects (`is`)
        real_cells = [min(q for q in range(len(grids)) if grids[q].coords is grids[k].coords) for k in range(len(grids))]
        steps.append({'op': op, 'status': status, 'before': before, 'dict': LAST.get('dict'), 'cells': list(cells), 'real_cells': real_cells,
                      'shared': count_shared([a for g in grids for a in coord_arrays(g)] + list(pool.arrays)), 'obs': observe(grids), 'caller_changed': pool.changed(),
                      'pool': [a.tolist() for a in pool.arrays], 'pool_keys': list(pool.keys)})
        if status != 'ok':
            break       # later ops refer to slots that may not exist; the history ends here
    return steps


# ---------------------------------------------------------------------------------------------
# the property itself on the observations (independent of the Lean model)

INPLACE = ('scale', 'shift', 'reverse', 'shiftf', 'mat')


def expected_effect(op, s):
    """Reference for 'mutating a grid changes its identity accordingly': the coordinates after the
    in-place op, computed directly from the snapshot before it."""
    kind, data = s['kind'], s['data']
    ndim = len(data[1]) if kind == 'reg' else len(data)
    if op[0] == 'scale':
        f = [op[2][1]] * ndim if op[2][0] == 's' else list(op[2][1])
        if s['sys'] == 'p':
            f = [op[2][1], 1.0]
        if kind == 'reg':
            return [[d * x for d, x in zip(data[0], f)], data[1], [z * x for z, x in zip(data[2], f)]]
        return [[v * x for v in a] for a, x in zip(data, f)]
    if op[0] == 'mat':
        return data
    if op[0] in ('shift', 'shiftf'):
        b = op[2]
        if kind == 'reg':
            return [data[0], data[1], [z + x for z, x in zip(data[2], b)]]
        return [[v + x for v in a] for a, x in zip(data, b)]
    if kind == 'reg':
        return [[-d for d in data[0]], data[1], [z + d * (n - 1) for d, n, z in zip(*data)]]
    return [a[::-1] for a in data]


def unknown_names(op):
    """an `rtas` op whose dictionary names a coordinate system or coordinate type that does not exist"""
    return op[2] not in (None, 'cartesian', 'polar') or op[3] is not None


def oracle(steps):
    bad = []
    for st in steps:
        op, status, obs, before = st['op'], st['status'], st['obs'], st['before']
        if st.get('caller_changed'):
            bad.append(('caller-array-changed', "%s changed an array owned by the caller (array %r is now %r)" % (
                op[0], list(st['pool_keys'][st['caller_changed'][0]])[:6], st['pool'][st['caller_changed'][0]][:6])))
        snaps = obs['snaps']
        n = len(snaps)
        ids = [G.ident(s) for s in snaps]
        opname = op[0]
        if status != 'ok':
            src = before[op[1]] if opname != 'new' else None
            undefined_weights = (opname in ('scale', 'scaled', 'mat') and src is not None and src['sys'] == 'c' and src['kind'] == 'sep'
                                 and src['w'] is None and any(len(a) < 2 for a in src['data']))
            if opname == 'new':
                bad.append(('new-raises', 'constructing (or reading the points of) a %s %s grid with argument forms %r / int=%r raised %s' % (
                    op[1]['sys'], op[1]['kind'], op[1].get('forms'), op[1].get('int'), status[4:])))
            elif opname == 'rtas' and status == 'err:key' and unknown_names(op):
                pass        # from_dict of a dictionary with an unknown name: KeyError is the specified answer
            elif not undefined_weights:
                bad.append(('op-raises %s' % opname, '%s raised %s on a %s %s grid' % (
                    opname, status[4:], src['sys'] if src else '-', src['kind'] if src else '-')))
            # state must be unchanged by the failed operation
            if [G.ident(s) for s in before] != ids[:len(before)] or len(ids) != len(before):
                bad.append(('failed-op-side-effect', 'a failed %s changed a live grid' % opname))
            continue
        # every grid can be hashed
        for k in range(n):
            if obs['hash'][k][0] != 'ok':
                rev = ''
                bad.append(('hash-raises', 'hash(grid) raised %s for a %s %s grid (after %s)' % (
                    obs['hash'][k][1], snaps[k]['sys'], snaps[k]['kind'], opname)))
        for i in range(n):
            for j in range(n):
                want = ids[i] == ids[j]
                got = obs['eq'][i][j]
                if got is not want:
                    if i == j:
                        key = 'eq-refl'
                        what = 'a %s grid with axis lengths %s is not equal to itself' % (snaps[i]['kind'], lens(snaps[i]))
                    elif want:
                        key = 'eq-identical'
                        what = 'two %s grids with identical coordinates and system compare unequal (%s)' % (snaps[i]['kind'], got)
                    else:
                        key = 'eq-differ'
                        what = 'grids that differ (%s) compare equal' % differ(snaps[i], snaps[j])
                    bad.append((key, what))
                if obs['eq'][j][i] is not got:
                    bad.append(('eq-symm', 'g%d == g%d is %s but g%d == g%d is %s' % (i, j, got, j, i, obs['eq'][j][i])))
                if got is True and obs['hash'][i][0] == 'ok' and obs['hash'][j][0] == 'ok' and obs['hash'][i][1] != obs['hash'][j][1]:
                    bad.append(('eq-hash %s' % hash_class(snaps[i], snaps[j]), 'equal %s grids have different hashes (%s)' % (
                        snaps[i]['kind'], hash_class(snaps[i], snaps[j]))))
        for i in range(n):
            for j in range(n):
                if obs['eq'][i][j] is True:
                    for k in range(n):
                        if obs['eq'][j][k] is True and obs['eq'][i][k] is not True:
                            bad.append(('eq-trans', 'g%d == g%d == g%d but not g%d == g%d' % (i, j, k, i, k)))
        # earlier grids untouched / the mutated one changed accordingly
        target = op[1] if opname in INPLACE or opname == 'cedit' else None
        cells = st.get('cells') or list(range(n))
        canon = [min(q for q in range(n) if cells[q] == cells[k]) for k in range(n)]
        if canon != st.get('real_cells', canon):
            bad.append(('coords-object-sharing', 'after %s the grids hold the Coords objects %r, by construction they should hold %r' % (
                opname, st.get('real_cells'), canon)))
        if opname == 'cedit':
            # a write to the Coords object itself: the plain coordinate arithmetic, no system-specific argument handling
            eff_op = {'scale': ['scale', op[1], ['v', op[3]]], 'shift': ['shift', op[1], op[3]], 'reverse': ['reverse', op[1]]}[op[2]]
            src = dict(before[op[1]])
            src['sys'] = 'c'
            want_shared = expected_effect(eff_op, src)
        elif target is not None:
            want_shared = expected_effect(op, before[target])
        for k in range(len(before)):
            if target is not None and k != target and cells[k] == cells[target] and opname != 'mat':
                # another holder of the Coords object that was written through: it follows (coordinates), keeps system and weights
                if not same_data(want_shared, snaps[k]['data']) or before[k]['sys'] != snaps[k]['sys'] or before[k]['kind'] != snaps[k]['kind']:
                    bad.append(('shared-coords-follow %s' % opname, 'a write through the shared Coords object (%s via grid %d) is not seen by grid %d on the same object' % (
                        opname, op[1], k)))
                if before[k]['w'] != snaps[k]['w']:
                    bad.append(('alias %s' % opname, '%s on grid %d changed the stored weights of another holder of its Coords object' % (opname, op[1])))
                continue
            if k == target and opname == 'cedit':
                if not same_data(want_shared, snaps[k]['data']):
                    bad.append(('mutate-identity cedit', 'an in-place %s of the Coords object (%s) did not change the coordinates as specified' % (op[2], op[4])))
                if before[k]['w'] != snaps[k]['w']:
                    bad.append(('alias cedit', 'a write to the Coords object changed stored weights'))
                continue
            if k == target:
                want = expected_effect(op, before[k])
                if opname == 'shiftf':
                    # float shift: every stored sum is the IEEE sum, bit for bit (absorbed shifts leave the value as it was)
                    if [list(map(float, a)) for a in want] != [list(map(float, a)) for a in snaps[k]['data']]:
                        bad.append(('mutate-identity shiftf', 'in-place float shift by %r did not store fl(x + b) for every coordinate' % (op[2],)))
                elif not same_data(want, snaps[k]['data']):
                    bad.append(('mutate-identity %s' % opname, 'in-place %s did not change the coordinates as specified' % opname))
                if opname == 'mat' and (obs['eq'][k][k] is not True):
                    bad.append(('mat-identity', 'reading .weights changed the identity of the grid'))
                changed = G.ident(before[k]) != ids[k]
                continue
            if G.ident(before[k]) != ids[k] or before[k]['w'] != snaps[k]['w']:
                bad.append(('alias %s' % opname, '%s on grid %s changed another live grid (%s %s)' % (
                    opname, op[1] if opname != 'new' else '-', snaps[k]['sys'], snaps[k]['kind'])))
        if opname == 'shiftedf':
            # the copying form: fresh grid with fl(x + b); equal to the source iff every sum was absorbed
            want = expected_effect(['shiftf', op[1], op[2]], before[op[1]])
            absorbed = [list(map(float, a)) for a in want] == [list(map(float, a)) for a in before[op[1]]['data']]
            if [list(map(float, a)) for a in want] != [list(map(float, a)) for a in snaps[n - 1]['data']]:
                bad.append(('mutate-identity shiftf', 'shifted(%r) did not store fl(x + b) for every coordinate' % (op[2],)))
            elif obs['eq'][op[1]][n - 1] is not absorbed:
                bad.append(('float-shift-identity', 'g.shifted(%r) == g is %s although the stored values %s' % (
                    op[2], obs['eq'][op[1]][n - 1], 'are all unchanged (shift absorbed)' if absorbed else 'changed')))
            elif absorbed and obs['hash'][op[1]] != obs['hash'][n - 1]:
                bad.append(('float-shift-identity', 'an absorbed shift changed the hash'))
        if opname == 'rtas' and unknown_names(op):
            bad.append(('from-dict-unknown-name', 'from_dict accepted a dictionary with coordinate_system=%r, type=%r and built a %s %s grid' % (
                op[2], op[3], snaps[n - 1]['sys'], snaps[n - 1]['kind'])))
        elif opname == 'rtas':
            a, b = snaps[n - 1], snaps[op[1]]
            if (a['sys'], a['kind'], a['data'], a['w']) != (op[2][0], b['kind'], b['data'], b['w']):
                bad.append(('from-dict-names', 'from_dict of the dictionary of a %s %s grid with coordinate_system=%r is a %s %s grid with %s' % (
                    b['sys'], b['kind'], op[2], a['sys'], a['kind'], 'the same values' if a['data'] == b['data'] else 'other values')))
        if opname in ('rt', 'rebuild'):
            if obs['eq'][op[1]][n - 1] is not True or obs['eq'][n - 1][op[1]] is not True:
                bad.append(('eq-identical',
                            'a %s of a %s grid is not equal to the original' % (op[2] if opname == 'rt' else 'rebuilt twin', snaps[n - 1]['kind'])))
            if opname == 'rt' and snaps[n - 1]['w'] != snaps[op[1]]['w']:
                bad.append(('roundtrip-weights', 'a %s round trip changed the stored weights' % op[2]))
    # deduplicate by key, keep first
    out, seen = [], set()
    for k, w in bad:
        if k not in seen:
            seen.add(k)
            out.append((k, w))
    return out


def snap_ndim(s):
    return len(s['data'][1]) if s['kind'] == 'reg' else len(s['data'])


def snap_size(s):
    if s['kind'] == 'reg':
        return int(np.prod(s['data'][1]))
    if s['kind'] == 'sep':
        return int(np.prod([len(a) for a in s['data']]))
    return len(s['data'][0]) if s['data'] else 0


def leading_axes_shared(a, b):
    """two grids of different ndim, same system and kind, same number of points, the lower-dimensional one's axes
    being the leading axes of the other"""
    if a['sys'] != b['sys'] or a['kind'] != b['kind'] or snap_size(a) != snap_size(b):
        return False
    k = min(snap_ndim(a), snap_ndim(b))
    if a['kind'] == 'reg':
        return all(a['data'][q][:k] == b['data'][q][:k] for q in range(3))
    return a['data'][:k] == b['data'][:k]


def aliased(spec):
    """does the constructor receive one array object more than once?"""
    if not spec.get('shared') or spec.get('int'):
        return False
    arrs = [tuple(a) for a in (spec['data'] if spec['kind'] != 'reg' else [spec['data'][0], spec['data'][2]])]
    if isinstance(spec['w'], list):
        arrs.append(tuple(spec['w']))
    return len(set(arrs)) < len(arrs)


def lens(s):
    if s['kind'] == 'reg':
        return s['data'][1]
    return [len(a) for a in s['data']]


def differ(a, b):
    if a['sys'] != b['sys']:
        return 'system'
    if a['kind'] != b['kind']:
        return 'kind'
    if snap_ndim(a) != snap_ndim(b):
        return 'ndim %d vs %d, %s' % (snap_ndim(a), snap_ndim(b), 'same point count and leading axes' if leading_axes_shared(a, b) else 'other axes')
    if lens(a) != lens(b):
        return 'size'
    return 'value'


def hash_class(a, b):
    vals_a = [v for part in a['data'] for v in part]
    vals_b = [v for part in b['data'] for v in part]
    import math
    if any(v == 0 and math.copysign(1, v) < 0 for v in vals_a + vals_b if isinstance(v, float)):
        return 'negative-zero'
    return 'values-equal'


def same_data(want, got):
    if len(want) != len(got):
        return False
    for a, b in zip(want, got):
        if len(a) != len(b):
            return False
        for x, y in zip(a, b):
            if abs(x - y) > 1e-12 * max(1.0, abs(x)):
                return False
    return True


# ---------------------------------------------------------------------------------------------

def S(sysm, kind, data, w=None, integer=False):
    return {'sys': sysm, 'kind': kind, 'data': data, 'w': w, 'int': integer}


def SH(sysm, kind, data, w=None):
    d = S(sysm, kind, data, w)
    d['shared'] = True
    return d


AX = [0.0, 1.0, 3.0]
DIRECTED_SHARED = [
    # one array object for both axes of a square separated grid; copies; in-place and copying ops
    {'shared': True, 'ops': [['new', SH('c', 'sep', [AX, AX])], ['scaled', 0, ['s', 2.0]], ['rt', 0, 'copy'], ['scale', 2, ['v', [2.0, 0.5]]],
                             ['shift', 0, [1.0, 0.0]], ['scale', 0, ['s', 2.0]], ['rebuild', 0, False], ['reverse', 0]]},
    {'shared': True, 'ops': [['new', SH('c', 'uns', [AX, AX, AX], AX)], ['scaled', 0, ['s', 2.0]], ['shift', 0, [1.0, 0.0, 0.5]], ['scale', 0, ['v', [2.0, 1.0, -1.0]]],
                             ['rt', 0, 'pickle'], ['reverse', 0]]},
    # delta and zero are one array; a second grid is built from the same arrays
    {'shared': True, 'ops': [['new', SH('c', 'reg', [[0.5, 0.5], [3, 2], [0.5, 0.5]])], ['new', SH('p', 'reg', [[0.5, 0.5], [3, 2], [0.5, 0.5]])],
                             ['scale', 0, ['s', 2.0]], ['shift', 0, [1.0, 1.0]], ['scaled', 1, ['s', 2.0]], ['reverse', 1]]},
    # two grids share axes and the weights array
    {'shared': True, 'ops': [['new', SH('c', 'sep', [AX, [0.0, 2.0]], [1.0, 2.0, 3.0, 4.0, 5.0, 6.0])], ['new', SH('c', 'sep', [AX, [0.0, 2.0]], [1.0, 2.0, 3.0, 4.0, 5.0, 6.0])],
                             ['new', SH('c', 'uns', [[1.0, 2.0, 3.0, 4.0, 5.0, 6.0], [0.0, 0.0, 0.0, 1.0, 1.0, 1.0]], [1.0, 2.0, 3.0, 4.0, 5.0, 6.0])],
                             ['scale', 0, ['s', 2.0]], ['reverse', 1], ['scaled', 2, ['v', [2.0, 3.0]]], ['shift', 1, [1.0, 1.0]]]},
]

DIRECTED = [
    # ragged separated grid: reflexivity, copies (D2)
    {'ops': [['new', S('c', 'sep', [[0.0, 1.0, 2.0], [0.0, 1.0]])], ['rt', 0, 'copy'], ['rt', 0, 'dict'], ['rt', 0, 'pickle'], ['rebuild', 0, False]]},
    {'ops': [['new', S('c', 'reg', [[0.5, 0.25], [4, 3], [-1.0, 0.0]], 2.0)], ['rtas', 0, 'polar', None], ['rtas', 0, 'spherical', None],
             ['rtas', 0, None, 'Regular'], ['rtas', 1, 'cartesian', None], ['rt', 1, 'dict']]},
    {'ops': [['new', S('p', 'uns', [[1.0, 2.0, 0.5], [0.0, 1.0, 2.0]], [1.0, 2.0, 3.0])], ['rt', 0, 'dict'], ['rtas', 0, 'cartesian', None],
             ['scale', 2, ['v', [2.0, -1.0]]], ['rt', 2, 'dict']]},
    {'ops': [['new', S('c', 'sep', [[0.0, 1.0], [0.0, 1.0, 3.0], [5.0]], 2.0)], ['rt', 0, 'copy'], ['reversed', 0], ['reversed', 2]]},
    # int vs float (D24)
    {'ops': [['new', S('c', 'reg', [[1.0, 1.0], [4, 4], [0.0, 0.0]])], ['new', S('c', 'reg', [[1.0, 1.0], [4, 4], [0.0, 0.0]], None, True)],
             ['new', S('c', 'sep', [[0.0, 1.0, 2.0], [3.0, 4.0, 5.0]], None, True)], ['rebuild', 2, False]]},
    # reversed separated / unstructured grids must be hashable (D26)
    {'ops': [['new', S('c', 'sep', [[0.0, 1.0, 3.0], [0.0, 1.0, 4.0]])], ['reversed', 0], ['reverse', 0], ['reverse', 0]]},
    {'ops': [['new', S('c', 'uns', [[0.0, 1.0, 3.0], [0.0, 1.0, 4.0]])], ['reversed', 0], ['reverse', 0], ['rebuild', 0, False]]},
    {'ops': [['new', S('p', 'sep', [[1.0, 2.0], [0.0, 1.0, 2.0]])], ['reversed', 0], ['rt', 1, 'pickle']]},
    # negative zero (D25)
    {'ops': [['new', S('c', 'reg', [[1.0], [3], [0.0]])], ['new', S('c', 'reg', [[-1.0], [3], [0.0]])], ['scaled', 0, ['s', -1.0]]]},
    {'ops': [['new', S('c', 'uns', [[0.0, 1.0], [2.0, 0.0]])], ['scaled', 0, ['v', [-1.0, 1.0]]], ['scaled', 1, ['v', [-1.0, 1.0]]], ['rebuild', 2, False]]},
    # same points, different storage / system
    {'ops': [['new', S('c', 'reg', [[0.5, 1.0], [3, 2], [0.0, -0.5]])], ['new', S('c', 'sep', [[0.0, 0.5, 1.0], [-0.5, 0.5]])],
             ['new', S('p', 'reg', [[0.5, 1.0], [3, 2], [0.0, -0.5]])], ['new', S('c', 'reg', [[0.5, 1.0], [3, 3], [0.0, -0.5]])]]},
    {'ops': [['new', S('c', 'sep', [[1.0, 2.0]])], ['new', S('c', 'uns', [[1.0, 2.0]])], ['new', S('c', 'sep', [[1.0], [2.0]])],
             ['new', S('c', 'sep', [[1.0, 2.0], [3.0]])], ['new', S('c', 'sep', [[1.0], [2.0, 3.0]])]]},
    # in-place histories and aliasing
    {'ops': [['new', S('c', 'reg', [[0.5, 0.25], [4, 3], [-1.0, 0.0]], None)], ['rt', 0, 'copy'], ['scale', 0, ['s', 2.0]], ['shift', 0, [1.0, 0.0]],
             ['reverse', 0], ['rt', 0, 'dict'], ['scale', 2, ['v', [1.0, -1.0]]]]},
    {'ops': [['new', S('c', 'sep', [[0.0, 1.0, 3.0], [0.0, 2.0]], [1.0, 2.0, 3.0, 4.0, 5.0, 6.0])], ['scaled', 0, ['s', 2.0]], ['shifted', 0, [0.5, 0.0]],
             ['scale', 1, ['v', [0.5, 1.0]]], ['shift', 2, [-0.5, 0.0]]]},
]


X3, Y3, Z3 = [0.0, 1.0, 3.0], [2.0, -1.0, 0.5], [4.0, 4.0, -2.0]
DIRECTED_XDIM = [
    # a point cloud, its projections and a second cloud over the same projection: == must not be a prefix comparison
    {'xdim': True, 'ops': [['new', S('c', 'uns', [X3, Y3, Z3])], ['new', S('c', 'uns', [X3, Y3])], ['new', S('c', 'uns', [X3, Y3, [0.0, 0.0, 0.0]])],
                           ['new', S('c', 'uns', [X3])], ['rt', 1, 'copy'], ['scaled', 0, ['s', 2.0]], ['scaled', 1, ['s', 2.0]]]},
    {'xdim': True, 'ops': [['new', S('c', 'sep', [X3, [0.0, 1.0]])], ['new', S('c', 'sep', [X3, [0.0, 1.0], [5.0]])], ['new', S('c', 'sep', [X3])],
                           ['new', S('c', 'sep', [X3, [0.0]])], ['new', S('c', 'uns', [X3, [0.0, 0.0, 0.0]])], ['rt', 1, 'dict'], ['reverse', 1]]},
    {'xdim': True, 'ops': [['new', S('c', 'reg', [[0.5], [4], [-1.0]])], ['new', S('c', 'reg', [[0.5, 1.0], [4, 1], [-1.0, 0.0]])],
                           ['new', S('c', 'reg', [[0.5, 1.0, 1.0], [4, 1, 1], [-1.0, 0.0, 0.0]])], ['new', S('c', 'sep', [[-1.0, -0.5, 0.0, 0.5], [0.0]])],
                           ['new', S('c', 'sep', [[-1.0, -0.5, 0.0, 0.5]])], ['rt', 0, 'pickle'], ['shifted', 1, [0.0, 0.0]]]},
    {'xdim': True, 'ops': [['new', S('c', 'uns', [[1.0], [2.0]])], ['new', S('c', 'uns', [[1.0], [2.0], [3.0]])], ['new', S('c', 'sep', [[1.0], [2.0]])],
                           ['new', S('c', 'sep', [[1.0], [2.0], [3.0]])], ['new', S('c', 'reg', [[1.0, 1.0], [1, 1], [1.0, 2.0]])],
                           ['new', S('c', 'reg', [[1.0, 1.0, 1.0], [1, 1, 1], [1.0, 2.0, 3.0]])]]},
]

DIRECTED_SHARE = [
    # two Cartesian grids and a polar one on ONE Coords object; written through each holder in turn, through the object, through an accessor's array
    {'share': True, 'shared': False, 'ops': [['new', S('c', 'sep', [[0.0, 1.0, 3.0], [0.0, 2.0]])], ['on', 0, 'c'], ['on', 0, 'p'], ['rt', 0, 'copy'],
        ['scale', 0, ['s', 2.0, 'pyfloat']], ['shift', 1, [1.0, 0.0], 'float64'], ['reverse', 1], ['cedit', 2, 'scale', [2.0, 0.5], 'coords-object'],
        ['cedit', 0, 'shift', [0.0, 0.5], 'accessor-array'], ['rebuild', 1, False], ['scale', 2, ['s', 2.0, 'pyfloat']]]},
    {'share': True, 'shared': False, 'ops': [['new', S('c', 'uns', [[0.0, 1.0, 3.0], [2.0, -1.0, 0.5]], [1.0, 2.0, 3.0])], ['on', 0, 'c'], ['on', 1, 'p'],
        ['cedit', 0, 'scale', [1.0, 4.0], 'accessor-array'], ['rt', 1, 'pickle'], ['scale', 1, ['v', [2.0, 1.0], 'float64']], ['cedit', 2, 'reverse', None, 'coords-object'],
        ['rt', 2, 'dict'], ['shift', 0, [0.5, 0.5], 'list']]},
    {'share': True, 'shared': False, 'ops': [['new', S('c', 'reg', [[0.5, 0.25], [4, 3], [-1.0, 0.0]])], ['on', 0, 'p'], ['on', 0, 'c'], ['cedit', 1, 'shift', [1.0, 0.5], 'accessor-array'],
        ['scale', 0, ['s', 2.0, 'pyfloat']], ['reverse', 2], ['cedit', 2, 'scale', [2.0, -1.0], 'coords-object'], ['rt', 1, 'copy'], ['reverse', 3]]},
    {'share': True, 'shared': False, 'ops': [['new', S('p', 'sep', [[1.0, 2.0], [0.0, 1.0, 2.0]])], ['on', 0, 'p'], ['scale', 0, ['s', 2.0, 'pyfloat']], ['reverse', 1],
        ['on', 1, 'c'], ['scale', 2, ['v', [1.0, 2.0], 'float64']], ['cedit', 0, 'shift', [0.5, 0.0], 'coords-object']]},
]

DIRECTED_FLOAT = [
    # the caveat of `shift_changes`: a shift below half an ulp of every coordinate is absorbed (== stays True, same hash)
    {'float': True, 'shared': False, 'ops': [['new', S('c', 'sep', [[1.0, 2.0, -1.5]])], ['shiftedf', 0, [2.0 ** -54]], ['shiftf', 0, [2.0 ** -54]], ['shiftedf', 0, [2.0 ** -52]]]},
    {'float': True, 'shared': False, 'ops': [['new', S('c', 'reg', [[0.5], [3], [1.0]])], ['shiftedf', 0, [2.0 ** -54]], ['shiftedf', 0, [2.0 ** -52]], ['shiftf', 0, [2.0 ** -53]], ['shiftf', 0, [3 * 2.0 ** -53]]]},
    # partly absorbed: the small coordinate moves, the large one does not
    {'float': True, 'shared': False, 'ops': [['new', S('c', 'uns', [[1.0, 2.0 ** -30], [4.0, 0.0]])], ['shiftedf', 0, [2.0 ** -60, 2.0 ** -60]], ['shiftf', 0, [2.0 ** -60, 0.0]]]},
    # inexact sums are rounded to nearest-even, ties included
    {'float': True, 'shared': False, 'ops': [['new', S('c', 'sep', [[0.1, 0.2, 0.30000000000000004], [1.0, 1.0 + 2.0 ** -52]])], ['shiftedf', 0, [0.1, 2.0 ** -53]], ['shiftf', 0, [0.7, 3 * 2.0 ** -53]],
                                              ['rt', 0, 'copy'], ['shiftedf', 2, [1e16, -1e-20]]]},
]


def check_case(ctx, case, label):
    steps = run_real(case)
    bad = oracle(steps)
    for key, what in bad:
        ctx.violation(key, what, case)
    ctx.count('family:' + label)
    if case.get('xdim'):
        ctx.count('family:xdim')
    for st in steps:
        ctx.count('op:' + st['op'][0])
        o = st['op']
        if o[0] == 'on' and st['status'] == 'ok':
            ctx.count('share:on:' + ('same-system' if st['before'][o[1]]['sys'] == o[2] else 'other-system') + ':' + st['before'][o[1]]['kind'])
        if st.get('cells') and o[0] in ('scale', 'shift', 'reverse', 'cedit') and st['status'] == 'ok' and o[1] < len(st['cells']):
            holders = sum(1 for c in st['cells'] if c == st['cells'][o[1]])
            if holders > 1 or o[0] == 'cedit':
                ctx.count('share:write-via:' + ('holder-api:' + o[0] if o[0] != 'cedit' else o[4] + ':' + o[2]))
                ctx.count('share:holders-at-write:%d' % holders)
                ctx.count('share:writer-is:' + ('first-holder' if st['cells'].index(st['cells'][o[1]]) == o[1] else 'later-holder'))
        if st['op'][0] in ('shiftf', 'shiftedf') and st['status'] == 'ok':
            src = st['before'][st['op'][1]]
            want = expected_effect(['shiftf', st['op'][1], st['op'][2]], src)
            same = [x == y for a, b in zip(want, src['data']) for x, y in zip(a, b)] if src['kind'] != 'reg' else [x == y for x, y in zip(want[2], src['data'][2])]
            nz = any(v != 0 for v in st['op'][2])
            ctx.count('float-shift:' + ('zero-shift' if not nz else 'absorbed' if all(same) else 'partly-absorbed' if any(same) else 'all-changed'))
        if st['status'] != 'ok':
            ctx.count('status:' + st['status'])
    last = steps[-1]['obs']
    for s in last['snaps']:
        ctx.count('grid:%s-%s-%dD' % (s['sys'], s['kind'], len(s['data'][1]) if s['kind'] == 'reg' else len(s['data'])))
        if s['kind'] == 'sep' and len(set(len(a) for a in s['data'])) > 1:
            ctx.count('ragged-separated')
    n = len(last['snaps'])
    for i in range(n):
        for j in range(i + 1, n):
            a, b = last['snaps'][i], last['snaps'][j]
            na, nb = snap_ndim(a), snap_ndim(b)
            if na != nb:
                lead = leading_axes_shared(a, b)
                ctx.count('xdim-pairs:%s-%s:%s' % (min(a['kind'], b['kind']), max(a['kind'], b['kind']),
                                                 'same-size-shared-leading-axes' if lead else 'other'))
    neq = sum(1 for i in range(n) for j in range(n) if i < j and last['eq'][i][j] is True)
    ctx.count('equal-pairs', neq)
    ctx.count('unequal-pairs', n * (n - 1) // 2 - neq)
    sig = (tuple(o[0] for o in case['ops']), tuple(sorted(set(G.ident(s)[:2] for s in last['snaps']))), neq)
    ctx.case({'ops': case['ops']} if len(ctx.samples) < 3 else None, nontrivial_key=sig if n >= 2 else None)
    return steps


def model_requests(case):
    """Request lines and, per step, the indices of the `show`, `eqrow` and `hash` answers."""
    lines = ['C10 reset']
    index = []
    nlive = 0
    for op in case['ops']:
        opi = len(lines)
        lines.append(model_op_line(op))
        index.append({'op': opi})
    return lines, index


# ---------------------------------------------------------------------------------------------
# the reference model (Model/GridHeap.lean): arrays held by reference, which arrays are shared

def coord_arrays(g):
    """the ndarray objects the coordinates of a grid hold (what in-place operations write to)"""
    c = g.coords
    name = type(c).__name__
    if name == 'RegularCoords':
        return [c.delta, c.zero]
    if name == 'SeparatedCoords':
        return list(c.separated_coords)
    return list(c.coords)


def count_shared(arrays):
    """number of pairs of array slots whose memory overlaps (the same object in two slots included)"""
    from numpy.lib import array_utils
    bounds = []
    for a in arrays:
        a = np.asarray(a)
        if a.size:
            bounds.append(array_utils.byte_bounds(a))
    bounds.sort()
    n = 0
    for i in range(len(bounds)):
        end = bounds[i][1]
        j = i + 1
        while j < len(bounds) and bounds[j][0] < end:
            n += 1
            j += 1
    return n


def ref_ops(opname, arg, snap):
    """the array operations of an in-place scale / shift on a grid with snapshot `snap`"""
    kind = snap['kind']
    ndim = len(snap['data'][1]) if kind == 'reg' else len(snap['data'])
    if opname == 'scale':
        f = [arg[1]] * ndim if arg[0] == 's' else list(arg[1])
        if snap['sys'] == 'p':
            f = [arg[1], 1.0]
        if kind == 'reg':
            return ['mv:' + rat_list(f), 'mv:' + rat_list(f)]
        return ['ms:' + rat(x) for x in f]
    b = list(arg)
    if kind == 'reg':
        return ['k', 'av:' + rat_list(b)]
    return ['as:' + rat(x) for x in b]


def snap_arrays(snap):
    return [snap['data'][0], snap['data'][2]] if snap['kind'] == 'reg' else snap['data']


def ref_plan(case, steps):
    """`ref …` requests mirroring a history on the reference model, and what to compare after each step:
    (index of the `shared` answer, real number of shared array pairs, [(index of `val`, real arrays)])"""
    lines = ['C10 ref reset']
    checks = []
    nobj = 0
    gobj = []           # object index of every live grid
    pobj = {}           # object index of every caller array (by pool index)
    for st in steps:
        op, kind = st['op'], st['op'][0]
        if st['status'] != 'ok' or kind in ('shiftf', 'shiftedf', 'on', 'cedit'):
            break       # float shifts: Grid.shiftR; grids on one Coords object: Model/GridShare.lean (`on`, `cedit`, propagation)
        snaps = st['obs']['snaps']
        if kind == 'new' and op[1].get('shared') and not op[1].get('int'):
            spec = op[1]
            arrs = [spec['data'][0], spec['data'][2]] if spec['kind'] == 'reg' else spec['data']
            idx = []
            for a in arrs:
                k = st['pool_keys'].index(tuple(float(v) for v in a))
                if k not in pobj:
                    lines.append('C10 ref new ' + G.rat_lists([list(st['pool_keys'][k])]))
                    pobj[k] = nobj
                    nobj += 1
                idx.append(pobj[k])
            w = spec['w']
            if isinstance(w, list):
                k = st['pool_keys'].index(tuple(float(v) for v in w))
                if k not in pobj:
                    lines.append('C10 ref new ' + G.rat_lists([list(st['pool_keys'][k])]))
                    pobj[k] = nobj
                    nobj += 1
            lines.append('C10 ref construct [' + ','.join(str(i) for i in idx) + ']')
            gobj.append(nobj)
            nobj += 1
        elif kind in ('new', 'rebuild', 'reversed'):
            lines.append('C10 ref new ' + G.rat_lists(snap_arrays(snaps[-1])))
            gobj.append(nobj)
            nobj += 1
        elif kind == 'reverse':
            # the arrays of the grid are re-bound to new ones (`x = x[::-1]`, `delta = -delta`): a fresh object takes its place
            lines.append('C10 ref new ' + G.rat_lists(snap_arrays(snaps[op[1]])))
            gobj[op[1]] = nobj
            nobj += 1
        elif kind in ('rt', 'rtas'):
            lines.append('C10 ref copy %d' % gobj[op[1]])
            gobj.append(nobj)
            nobj += 1
        elif kind in ('scale', 'shift'):
            lines.append('C10 ref inplace %d %s' % (gobj[op[1]], ' '.join(ref_ops(kind, op[2], st['before'][op[1]]))))
        elif kind in ('scaled', 'shifted'):
            lines.append('C10 ref copied %d %s' % (gobj[op[1]], ' '.join(ref_ops(kind[:-1], op[2], st['before'][op[1]]))))
            gobj.append(nobj)
            nobj += 1
        elif kind == 'mat':
            pass
        else:
            raise MachineryError('reference model: unknown op %r' % (op,))
        if len(gobj) != len(snaps):
            raise MachineryError('reference model: %d objects for %d live grids' % (len(gobj), len(snaps)))
        shared_at = len(lines)
        lines.append('C10 ref shared')
        vals = []
        for k, o in enumerate(gobj):
            vals.append((len(lines), snap_arrays(snaps[k])))
            lines.append('C10 ref val %d' % o)
        for k, o in sorted(pobj.items()):
            vals.append((len(lines), [list(st['pool'][k])]))
            lines.append('C10 ref val %d' % o)
        checks.append((shared_at, st['shared'], vals, op))
    return lines, checks


# ---------------------------------------------------------------------------------------------
# NaN coordinates: what `==` and `hash` do (IEEE comparison; model `Grid.eqNaN`, theorem `eq_refl_iff_no_nan`)

def gen_nan_case(rng):
    import copy as _copy
    specs = []
    first = G.gen_spec(rng, maxn=4)
    for k in range(int(rng.integers(1, 4))):
        spec = _copy.deepcopy(first) if (k > 0 and rng.random() < 0.6) else G.gen_spec(rng, maxn=4)
        spec['nan'] = []
        if rng.random() < 0.6:
            for _ in range(int(rng.integers(1, 3))):
                if spec['kind'] == 'reg':
                    a = int(rng.choice([0, 2]))
                else:
                    a = int(rng.integers(0, len(spec['data'])))
                spec['nan'].append([a, int(rng.integers(0, len(spec['data'][a])))])
        specs.append(spec)
    ops = []
    n = len(specs)
    for _ in range(int(rng.integers(1, 5))):
        i = int(rng.integers(0, n))
        op = str(rng.choice(['copy', 'dict', 'pickle', 'reversed', 'shifted', 'shift']))
        if op in ('shift', 'shifted'):
            ops.append([op, i, float(rng.choice([0.0, 0.5, -1.0]))])
        else:
            ops.append([op, i])
        if op != 'shift':
            n += 1
    return {'family': 'nan', 'specs': specs, 'ops': ops}


def nan_real_spec(spec, nan):
    import copy as _copy
    r = _copy.deepcopy(spec)
    for a, e in spec['nan']:
        r['data'][a][e] = nan
    return r


def run_nan_real(case):
    """the real grids of a NaN case: (has-NaN flags, polar flags, == matrix, hashes, source of each copy) or None if an op raised"""
    import warnings
    grids, flags, src = [], [], []
    with warnings.catch_warnings():
        warnings.simplefilter('ignore')
        for spec in case['specs']:
            grids.append(G.build(nan_real_spec(spec, float('nan'))))
            flags.append(bool(spec['nan']))
            src.append(None)
        done = []
        for op in case['ops']:
            g = grids[op[1]]
            if op[0] == 'shifted' and g._coordinate_system != 'cartesian':
                op = ['copy', op[1]]        # a polar shift goes through a conversion (C11): here a plain copy instead
            try:
                if op[0] in ('copy', 'dict', 'pickle'):
                    grids.append(G.roundtrip(g, op[0]))
                    src.append(op[1])
                elif op[0] == 'reversed':
                    grids.append(g.reversed())
                    src.append(None)
                elif op[0] == 'shifted':
                    grids.append(g.shifted(op[2]))
                    src.append(None)
                else:
                    if g._coordinate_system != 'cartesian':
                        continue
                    g.shift(op[2])
                    src = [None if (k == op[1] or v == op[1]) else v for k, v in enumerate(src)]
            except Exception as e:  # noqa
                return {'error': '%s raised %s' % (op[0], type(e).__name__)}
            done.append(op)
            if op[0] != 'shift':
                flags.append(flags[op[1]])
        n = len(grids)
        eq = [[None] * n for _ in range(n)]
        for i in range(n):
            for j in range(n):
                try:
                    eq[i][j] = bool(grids[i] == grids[j])
                except Exception as e:  # noqa
                    eq[i][j] = 'err:' + G.errkind(e)
        hashes = [G.safe_hash(g) for g in grids]
        snaps = [G.snap(g) for g in grids]
    return {'flags': flags, 'eq': eq, 'hash': hashes, 'src': src, 'done': done, 'snaps': snaps}


def nan_oracle(obs):
    bad = []
    if 'error' in obs:
        return [('nan-op-raises', 'on a grid with NaN coordinates ' + obs['error'])]
    n = len(obs['flags'])
    for i in range(n):
        if obs['hash'][i][0] != 'ok':
            bad.append(('hash-raises', 'hash(grid) raised %s for a grid with NaN coordinates' % obs['hash'][i][1]))
        if obs['src'][i] is not None and obs['hash'][i] != obs['hash'][obs['src'][i]]:
            bad.append(('nan-copy-hash', 'a copy of a grid with NaN coordinates has another hash'))
        for j in range(n):
            if not isinstance(obs['eq'][i][j], bool):
                bad.append(('eq-raises', 'g%d == g%d raised %s in a case with NaN coordinates' % (i, j, obs['eq'][i][j])))
                continue
            if obs['eq'][i][j] != obs['eq'][j][i]:
                bad.append(('eq-symm', 'g%d == g%d is %s but g%d == g%d is %s (NaN coordinates)' % (i, j, obs['eq'][i][j], j, i, obs['eq'][j][i])))
            if not obs['flags'][i] and not obs['flags'][j]:
                want = G.ident(obs['snaps'][i]) == G.ident(obs['snaps'][j])
                if obs['eq'][i][j] is not want:
                    bad.append(('eq-identical' if want else 'eq-differ', 'NaN-free grids in a NaN case: == is %s, identity %s' % (obs['eq'][i][j], want)))
    return bad


def nan_model_lines(case, done):
    lines = ['C10 reset']
    nds = []
    for spec in case['specs']:
        lines.append(G.new_line('C10', nan_real_spec(spec, 0.0)))
        nds.append(spec_ndim(spec))
    for op in done:
        if op[0] in ('copy', 'dict', 'pickle'):
            lines.append('C10 copy %d' % op[1])
        elif op[0] == 'reversed':
            lines.append('C10 reversed %d' % op[1])
        else:
            lines.append('C10 %s %d %s' % (op[0], op[1], rat_list([op[2]] * nds[op[1]])))
        if op[0] != 'shift':
            nds.append(nds[op[1]])
    return lines


DIRECTED_NAN = [
    {'family': 'nan', 'specs': [dict(S('c', 'uns', [[0.0, 1.0], [1.0, 2.0]]), nan=[[0, 1]]), dict(S('c', 'uns', [[0.0, 1.0], [1.0, 2.0]]), nan=[])],
     'ops': [['copy', 0], ['pickle', 0], ['copy', 1], ['dict', 0]]},
    {'family': 'nan', 'specs': [dict(S('c', 'sep', [[0.0, 1.0, 2.0], [1.0, 2.0]]), nan=[[1, 0]]), dict(S('c', 'sep', [[0.0, 1.0, 2.0], [1.0, 2.0]]), nan=[[1, 0]])],
     'ops': [['reversed', 0], ['shift', 1, 0.5], ['copy', 1]]},
    {'family': 'nan', 'specs': [dict(S('c', 'reg', [[1.0, 0.5], [2, 3], [0.0, 0.0]]), nan=[[0, 1]]), dict(S('p', 'reg', [[1.0, 0.5], [2, 3], [0.0, 0.0]]), nan=[[2, 0]]),
                                dict(S('c', 'reg', [[1.0, 0.5], [2, 3], [0.0, 0.0]]), nan=[])],
     'ops': [['copy', 0], ['dict', 1], ['shifted', 2, -1.0], ['copy', 2]]},
]


# ---------------------------------------------------------------------------------------------
# memory layout of the coordinate arrays (Model/GridLayout.lean): == and hash read values, not bytes

LAYOUT_THEN = ['none', 'copy', 'pickle', 'dict', 'reversed', 'reverse', 'scaled', 'shift', 'reverse-twice']


def layout_view(v, mode):
    """the values `v` as a float64 array lying in memory in layout `mode` (as `LArr.make` of the model):
    0 fresh contiguous, 1 negative stride, 2 stride 2 in a longer buffer, 3 offset into a longer buffer"""
    v = [float(x) for x in v]
    if mode == 1:
        return np.array(v[::-1], dtype='float64')[::-1]
    if mode == 2:
        buf = np.empty(2 * len(v), dtype='float64')
        buf[0::2] = v
        buf[1::2] = 7.0
        return buf[::2]
    if mode == 3:
        return np.array([7.0] + v, dtype='float64')[1:]
    return np.array(v, dtype='float64')


def gen_layout_case(rng):
    spec = G.gen_spec(rng, maxn=6, kinds=('sep', 'uns'))
    narr = len(spec['data'])
    modes = [int(rng.integers(0, 4)) for _ in range(narr)]
    if not any(modes):
        modes[int(rng.integers(0, narr))] = int(rng.integers(1, 4))
    return {'family': 'layout', 'spec': spec, 'modes': modes, 'then': str(rng.choice(LAYOUT_THEN))}


def layout_arrays(g):
    return g.coords.separated_coords if g.is_separated else g.coords.coords


def layout_then(g, how):
    if how == 'copy':
        return g.copy()
    if how in ('pickle', 'dict'):
        return G.roundtrip(g, how)
    if how == 'reversed':
        return g.reversed()
    if how == 'reverse':
        g.reverse()
        return g
    if how == 'reverse-twice':
        g.reverse()
        g.reverse()
        return g
    if how == 'scaled':
        return g.scaled(2.0)
    if how == 'shift':
        g.shift(0.5)
        return g
    return g


def run_layout_real(case):
    """two grids with identical coordinates: `g` as the constructor makes it, `t` with its coordinate arrays replaced by
    views of other buffers that denote the same values; then the same follow-up on both"""
    import warnings
    obs = {}
    with warnings.catch_warnings():
        warnings.simplefilter('ignore')
        try:
            g = G.build(case['spec'])
            t = G.build(case['spec'])
            arrs = layout_arrays(t)
            for k, m in enumerate(case['modes']):
                arrs[k] = layout_view(case['spec']['data'][k], m)
            obs['flags'] = ''.join('1' if a.flags['C_CONTIGUOUS'] else '0' for a in layout_arrays(t))
        except Exception as e:  # noqa
            return {'error': 'setting up the layout case raised %s' % G.errkind(e)}

        def safe_eq(a, b):
            try:
                r = a == b
                return bool(r) if isinstance(r, (bool, np.bool_)) else 'E'
            except Exception:  # noqa
                return 'E'
        obs['eq'] = [safe_eq(t, g), safe_eq(g, t), safe_eq(t, t)]
        obs['hash'] = [G.safe_hash(t), G.safe_hash(g)]
        try:
            g2 = layout_then(g, case['then'])
        except Exception:  # noqa
            obs['then'] = 'skip'        # the follow-up fails on fresh arrays too: not a matter of layout (judged elsewhere)
            return obs
        try:
            t2 = layout_then(t, case['then'])
            obs['then'] = 'ok'
            obs['eq2'] = [safe_eq(t2, g2), safe_eq(g2, t2)]
            obs['hash2'] = [G.safe_hash(t2), G.safe_hash(g2)]
            obs['points2'] = bool(np.array_equal(G.points(t2), G.points(g2)))
        except Exception as e:  # noqa
            obs['then'] = 'err:' + G.errkind(e)
    return obs


def layout_oracle(case, obs):
    bad = []
    lay = 'layouts %r of a %s grid' % (case['modes'], case['spec']['kind'])
    if 'error' in obs:
        return [('layout-setup', obs['error'])]
    if obs['hash'][0][0] != 'ok':
        bad.append(('hash-raises layout', 'hash() raised %s with %s' % (obs['hash'][0][1], lay)))
    if obs['eq'][0] is not True or obs['eq'][2] is not True:
        bad.append(('eq-identical layout', 'a grid with %s is not equal to the grid with the same values in fresh arrays (or to itself)' % lay))
    if obs['eq'][0] != obs['eq'][1]:
        bad.append(('eq-symmetry layout', '== is not symmetric between %s and fresh arrays' % lay))
    if obs['eq'][0] is True and obs['hash'][0][0] == 'ok' and obs['hash'][1][0] == 'ok' and obs['hash'][0][1] != obs['hash'][1][1]:
        bad.append(('eq-hash layout', 'equal grids hash differently: %s vs fresh arrays' % lay))
    if obs.get('then') == 'skip':
        pass
    elif obs.get('then') != 'ok':
        bad.append(('op-raises layout', '%s raised %s on a grid with %s' % (case['then'], obs.get('then'), lay)))
    else:
        if obs['hash2'][0][0] != 'ok':
            bad.append(('hash-raises layout', 'hash() raised %s after %s on a grid with %s' % (obs['hash2'][0][1], case['then'], lay)))
        if obs['eq2'][0] is not True or obs['eq2'][1] is not True or not obs['points2']:
            bad.append(('eq-identical layout', 'after %s the grid with %s and the grid with fresh arrays differ' % (case['then'], lay)))
        elif obs['hash2'][0][0] == 'ok' and obs['hash2'][1][0] == 'ok' and obs['hash2'][0][1] != obs['hash2'][1][1]:
            bad.append(('eq-hash layout', 'after %s: equal grids hash differently (%s vs fresh arrays)' % (case['then'], lay)))
    return bad


DIRECTED_LAYOUT = [
    {'family': 'layout', 'spec': S('c', 'sep', [[0.0, 1.0, 3.0], [0.0, 2.0]]), 'modes': [1, 0], 'then': 'none'},
    {'family': 'layout', 'spec': S('c', 'sep', [[0.0, 1.0, 3.0], [0.0, 2.0]]), 'modes': [2, 3], 'then': 'reverse'},
    {'family': 'layout', 'spec': S('c', 'uns', [[0.0, 1.0, 3.0], [0.5, 2.0, -1.0]]), 'modes': [3, 1], 'then': 'pickle'},
    {'family': 'layout', 'spec': S('p', 'uns', [[1.0, 2.0], [0.5, 2.0]]), 'modes': [2, 2], 'then': 'copy'},
    {'family': 'layout', 'spec': S('c', 'sep', [[5.0]]), 'modes': [2], 'then': 'dict'},
]


def dis(ctx, stream, detail, key=None):
    ctx.count('disagree:' + stream)
    ctx.disagree(stream, detail, key)


def run(ctx):
    ctx.rule = ('histories over a store of live grids: 1-3 base grids (Cartesian/polar; regular/separated incl. ragged/'
                'unstructured; 1-3 D; dyadic values; optional twin differing in exactly one of system/kind/value/size/weights/'
                'dtype; in 40 % of the cases the constructor inputs come from a pool of caller-owned arrays in which equal arrays are ONE '
                'object: same array for several axes, for delta and zero, for weights and a coordinate column, for several grids), '
                'in half of the other cases every constructor argument gets a random dtype / container: dims as int8..uint64, Python '
                'ints, tuple, float-valued, scalar; delta/zero/axes/columns as float64/float32/longdouble/list/tuple/Python or NumPy '
                'scalar/0-d array; weights likewise; twins with int64/int32/int16/int8/bool/Python-int coordinates; scale/shift '
                'arguments as Python/NumPy scalars, 0-d, one-element arrays/lists, float32/longdouble arrays, lists, tuples), '
                'then copy / to_dict+from_dict / pickle round trips, independent reconstruction (optionally with '
                'integer dtype), scaled/shifted/reversed and their in-place forms, reading .weights (materialises the cached '
                'weights: identity must not move). Plus float-shift histories: Cartesian float64 grids with dyadic or non-dyadic values '
                'shifted (in place / copying) by amounts below half an ulp of every coordinate (absorbed: == stays True, hash the '
                'same), partly absorbed, or rounded; the model rounds every stored sum to nearest-even binary64 and must reproduce '
                'representation, == matrix and hash bit for bit. After EVERY operation all live grids are '
                're-read: snapshots (aliasing), the full == matrix, and all hashes. Oracle: == must coincide with identity of '
                '(system, kind, coordinate arrays) read from the objects; reflexive/symmetric/transitive; equal => same hash; '
                'hash never raises; untouched grids keep their snapshot; the mutated grid has the specified new coordinates (each axis '
                'acted on exactly once); no array owned by the caller ever changes. '
                'Plus layout cases: a separated / unstructured grid whose coordinate arrays are replaced by NumPy views with the same '
                'values (negative stride, stride 2 in a longer buffer, offset view) against its twin with fresh arrays: ==, hash, then '
                'copy / pickle / dict / reversed / reverse / scaled / shift on both. '
                'Model: same ops on the Lean store; `show`, `eqrow` compared; hash(g) must equal xxh64 of the model hash input '
                '(also computed through the modelled views, with their C_CONTIGUOUS flags). '
                'Non-trivial = at least two live grids; distinct by (op sequence, kinds present, number of equal pairs).')
    ctx.assumptions += ['coordinates are finite floats (no NaN/inf)', 'xxhash is deterministic and collision-free on the inputs met',
                        'float arithmetic on the generated dyadic values is exact (checked per case; inexact cases skip the exact hash tie)',
                        'scale on a Cartesian separated grid with an axis of fewer than two points and no stored weights raises IndexError '
                        '(automatic weights undefined) and is treated as outside the quantifier']
    n = ctx.scale(2500, 12000)
    cases = [(c, 'directed') for c in DIRECTED + DIRECTED_SHARED + DIRECTED_XDIM + DIRECTED_SHARE + DIRECTED_FLOAT]
    for k in range(n):
        cases.append((gen_case(ctx.rng, big=(ctx.tier == 'thorough' and k % 4 == 0)), 'random'))
    for k in range(ctx.scale(300, 2000)):
        cases.append((gen_float_case(ctx.rng), 'float-shift'))
    for k in range(ctx.scale(350, 1200)):
        cases.append((gen_share_case(ctx.rng), 'coords-sharing'))
    all_lines = []
    plan = []
    nan_plan = []
    ref_plans = []
    nan_cases = list(DIRECTED_NAN) + [gen_nan_case(ctx.rng) for _ in range(ctx.scale(250, 1500))]
    for case in nan_cases:
        obs = run_nan_real(case)
        for key, what in nan_oracle(obs):
            ctx.violation(key, what, case)
        ctx.count('family:nan')
        if 'error' in obs:
            continue
        n = len(obs['flags'])
        ctx.count('nan:grids-with-nan', sum(obs['flags']))
        ctx.count('nan:grids-without-nan', n - sum(obs['flags']))
        ctx.count('nan:self-comparison-false', sum(1 for i in range(n) if obs['eq'][i][i] is False))
        ctx.case(None, nontrivial_key=('nan', tuple(o[0] for o in obs['done']), tuple(obs['flags']),
                                       tuple(sp['kind'] for sp in case['specs'])) if any(obs['flags']) else None)
        lines = nan_model_lines(case, obs['done'])
        first = len(lines)
        lines += ['C10 eqnan %d %d %d %d' % (i, j, obs['flags'][i], obs['flags'][j]) for i in range(n) for j in range(n)]
        nan_plan.append((case, obs, len(all_lines) + first, n))
        all_lines += lines
    layout_plan = []
    for case in list(DIRECTED_LAYOUT) + [gen_layout_case(ctx.rng) for _ in range(ctx.scale(300, 1000))]:
        obs = run_layout_real(case)
        for key, what in layout_oracle(case, obs):
            ctx.violation(key, what, case)
        ctx.count('family:layout')
        if 'error' in obs:
            continue
        for mm in case['modes']:
            ctx.count('layout:' + ['contiguous', 'negative-stride', 'stride-2', 'offset'][mm])
        ctx.count('layout-then:' + case['then'])
        ctx.case(None, nontrivial_key=('layout', case['spec']['sys'], case['spec']['kind'], tuple(case['modes']), case['then']))
        layout_plan.append((case, obs, len(all_lines) + 2))
        all_lines += ['C10 reset', G.new_line('C10', case['spec']), 'C10 hashl 0 [%s]' % ','.join(str(mm) for mm in case['modes'])]
    for case, label in cases:
        steps = check_case(ctx, case, label)
        lines = ['C10 reset']
        marks = []
        nlive = 0
        mpool = G.Pool()
        for st in steps:
            op = st['op']
            lines += model_op_lines(op, mpool)
            m = {'op': len(lines) - 1}
            if op[0] == 'rtas' and unknown_names(op) and st['status'] == 'ok':
                # the implementation built a grid the model does not have: only the status is compared (and differs)
                m['n'] = 0
                marks.append(m)
                break
            nlive = len(st['obs']['snaps'])
            m['show'] = len(lines)
            lines += ['C10 show %d' % k for k in range(nlive)]
            m['eqrow'] = len(lines)
            lines += ['C10 eqrow %d' % k for k in range(nlive)]
            m['hash'] = len(lines)
            lines += ['C10 hash %d' % k for k in range(nlive)]
            m['kinds'] = len(lines)
            lines.append('C10 kinds')
            m['n'] = nlive
            marks.append(m)
        if mpool.keys:
            marks[-1]['arrs'] = len(lines)
            marks[-1]['mpool'] = mpool
            lines.append('C10 arrs')
            ctx.count('cases-with-caller-arrays')
            ctx.count('aliased-constructor-inputs', sum(1 for op in case['ops'] if op[0] == 'new' and aliased(op[1])))
        rlines, rchecks = ref_plan(case, steps)
        plan.append((case, steps, len(all_lines), marks))
        all_lines += lines
        ref_plans.append((case, len(all_lines), rchecks))
        all_lines += rlines
    out = ctx.model(all_lines)
    inexact = 0
    for case, obs, first, n in nan_plan:
        ctx.traces_validated += 1
        model = [[out[first + i * n + j] for j in range(n)] for i in range(n)]
        real = [['ok 1' if obs['eq'][i][j] is True else 'ok 0' if obs['eq'][i][j] is False else 'E' for j in range(n)] for i in range(n)]
        if model != real:
            dis(ctx, 'C10 eq NaN', {'case': case, 'impl': obs['eq'], 'model': model, 'has-nan': obs['flags']})
    for case, obs, at in layout_plan:
        ctx.traces_validated += 1
        t = out[at].split(' ')
        if len(t) != 4 or t[0] != 'ok':
            dis(ctx, 'C10 layout', {'case': case, 'model': out[at][:200]})
            continue
        if t[2] != 'f' + obs['flags'] or t[3] != '1':
            dis(ctx, 'C10 layout', {'case': case, 'impl-contiguous-flags': obs['flags'], 'model': t[2:]})
        elif obs['hash'][0][0] == 'ok' and G.hash_of_tokens(t[1]) != obs['hash'][0][1]:
            dis(ctx, 'C10 layout', {'case': case, 'impl-hash': obs['hash'][0][1], 'model-hash': G.hash_of_tokens(t[1])}, key='hash')
    for case, rbase, rchecks in ref_plans:
        for shared_at, real_shared, vals, op in rchecks:
            ctx.traces_validated += 1
            ctx.count('ref:steps')
            ans = out[rbase + shared_at]
            if ans != 'ok %d' % real_shared:
                ctx.count('ref:shared-arrays-in-implementation', real_shared)
                dis(ctx, 'C10 ref shared', {'case': case, 'after': op, 'impl-shared-array-pairs': real_shared, 'model': ans})
                break
            bad = None
            for at, real in vals:
                ma = G.parse_rat_lists(out[rbase + at].split(' ', 1)[1]) if out[rbase + at].startswith('ok ') else None
                if ma is None or len(ma) != len(real) or not all(G.lists_close(a, b) for a, b in zip(ma, real)):
                    bad = {'case': case, 'after': op, 'impl': real, 'model': out[rbase + at][:200]}
                    break
            if bad is not None:
                dis(ctx, 'C10 ref values', bad)
                break
    for case, steps, base, marks in plan:
        for st, m in zip(steps, marks):
            op = st['op']
            ans = out[base + m['op']]
            mstatus = 'ok' if ans.startswith('ok') else 'err:' + (ans.split(' ') + ['refused'])[1]
            ctx.traces_validated += 1
            if mstatus != st['status']:
                dis(ctx, 'C10 op status', {'case': case, 'op': op, 'impl': st['status'], 'model': ans})
                break
            obs = st['obs']
            stop = False
            if 'kinds' in m:
                # `Coords.kind` of every live grid (0 regular, 1 separated, 2 unstructured) against the classes of the real coordinates
                real_k = 'k' + ''.join({'reg': '0', 'sep': '1', 'uns': '2'}[sn['kind']] for sn in obs['snaps'])
                if out[base + m['kinds']] != 'ok ' + real_k:
                    dis(ctx, 'C10 kinds', {'case': case, 'after': op, 'impl': real_k, 'model': out[base + m['kinds']]})
                    break
            if op[0] in ('shiftf', 'shiftedf') and st['status'] == 'ok':
                # the prediction of `shiftF_keeps_iff_absorbs` (made before the op) against what the shift did to the identity
                src = st['before'][op[1]]
                if op[0] == 'shiftedf':
                    kept = obs['eq'][op[1]][len(obs['snaps']) - 1] is True
                else:
                    kept = [list(map(float, a)) for a in obs['snaps'][op[1]]['data']] == [list(map(float, a)) for a in src['data']]
                ctx.traces_validated += 1
                ctx.count('absorbs:' + ('kept' if kept else 'changed'))
                real_vals = [[z] for z in src['data'][2]] if src['kind'] == 'reg' else src['data']
                mv = G.parse_rat_lists(out[base + m['op'] - 2].split(' ', 1)[1])
                if [[float(x) for x in a] for a in mv] != [[float(x) for x in a] for a in real_vals]:
                    dis(ctx, 'C10 shiftvals', {'case': case, 'op': op, 'impl': real_vals, 'model': out[base + m['op'] - 2][:200]})
                    break
                if out[base + m['op'] - 1] != 'ok ' + ('1' if kept else '0'):
                    dis(ctx, 'C10 absorbs', {'case': case, 'op': op, 'impl-identity-kept': kept, 'model': out[base + m['op'] - 1]})
                    break
            if st.get('dict') is not None:
                # `toDict` of the model against what `to_dict()` wrote (the request just before the op)
                ctx.traces_validated += 1
                ctx.count('todict:' + st['dict']['type'])
                d = compare_dict(out[base + m['op'] - 1], st['dict'], st['before'][op[1]])
                if d is not None:
                    dis(ctx, 'C10 to_dict', {'case': case, 'op': op, 'diff': d})
                    break
            for k in range(m['n']):
                ms = G.parse_show(out[base + m['show'] + k])
                d = G.compare_show(ms, obs['snaps'][k], None, weights=False)    # weights are C11's business
                if d is not None:
                    dis(ctx, 'C10 show', {'case': case, 'after': op, 'grid': k, 'diff': d})
                    stop = True
                    break
                row = out[base + m['eqrow'] + k].split(' ')[1]
                real_row = ''.join('1' if v is True else '0' if v is False else 'E' for v in obs['eq'][k])
                if row != real_row:
                    dis(ctx, 'C10 eq', {'case': case, 'after': op, 'grid': k, 'impl': real_row, 'model': row},
                                 key=None)
                    stop = True
                    break
                if not G.exact_same(ms, obs['snaps'][k]):
                    if case.get('float'):
                        # the float model (every stored sum rounded to nearest-even binary64) must reproduce the bits
                        dis(ctx, 'C10 float shift', {'case': case, 'after': op, 'grid': k, 'impl': obs['snaps'][k]['data'],
                                                         'model': out[base + m['show'] + k][:300]})
                        stop = True
                        break
                    inexact += 1
                    continue
                hk = obs['hash'][k]
                want = G.hash_of_tokens(out[base + m['hash'] + k].split(' ')[1])
                if hk[0] != 'ok' or hk[1] != want:
                    dis(ctx, 'C10 hash', {'case': case, 'after': op, 'grid': k, 'impl': hk, 'model-xxh64': want,
                                              'tokens': out[base + m['hash'] + k][:200]})
                    stop = True
                    break
            if stop:
                break
            if 'arrs' in m:
                # the caller's arrays: the model never changes them; the real ones must still hold the same values
                model_arrs = G.parse_rat_lists(out[base + m['arrs']].split(' ', 1)[1])
                real = {k: v for k, v in zip(st['pool_keys'], st['pool'])}
                for key, marr in zip(m['mpool'].keys, model_arrs):
                    if key in real and [float(x) for x in marr] != [float(x) for x in real[key]]:
                        dis(ctx, 'C10 caller arrays', {'case': case, 'array': list(key)[:8], 'impl': real[key][:8]})
                        break
    ctx.extra['hash_tie_skipped_inexact'] = inexact


def replay(ctx, case):
    if case.get('family') == 'nan':
        bad = nan_oracle(run_nan_real(case))
        for key, what in bad:
            print('  fails:', key, '-', what)
        return not bad
    if case.get('family') == 'layout':
        bad = layout_oracle(case, run_layout_real(case))
        for key, what in bad:
            print('  fails:', key, '-', what)
        return not bad
    bad = oracle(run_real(case))
    for key, what in bad:
        print('  fails:', key, '-', what)
    return not bad
