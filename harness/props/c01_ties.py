"""C01 round 4 — structure ties: driver ops that run the very definitions the C01/C02 theorems speak about
(Model/Mft, Model/Czt, Model/ZoomN, Model/Axes.zoomLoop, Model/FftState, the literal 2-D/3-D pipelines of
Model/FftIndex2/2b/N and the iterated fastForwardN, makeFT detectFix) compared with what the real hcipy
objects do on generated inputs.

Every tie case has (a) an *oracle* that is independent of the Lean model (the defining sum in longdouble on
the same impulse, a fresh-object comparison, the requested grid) -> ctx.violation with a replayable case, and
(b) the *correspondence* model-vs-code -> ctx.disagree.
"""
from fractions import Fraction

import numpy as np

from harness.common import MachineryError, rat, rat_list

LD = np.longdouble
CLD = np.clongdouble
PI_LD = LD(4) * np.arctan(LD(1))
TWO_PI_LD = 2 * PI_LD


# ---------------------------------------------------------------------------------------------
# helpers

def _frac_ld(fr):
    return LD(fr.numerator) / LD(fr.denominator)


def eval_psum(s):
    """'c:t:r+c:t:r…' -> complex longdouble value Σ c·exp(i(2π t + r))"""
    if s == '0':
        return CLD(0)
    tot = CLD(0)
    for part in s.split('+'):
        c, t, r = (Fraction(x) for x in part.split(':'))
        ang = TWO_PI_LD * _frac_ld(t) + _frac_ld(r)
        tot = tot + CLD(_frac_ld(c)) * np.exp(CLD(1j) * ang)
    return tot


def eval_psums(resp):
    if not resp.startswith('ok '):
        raise ValueError(resp)
    body = resp[3:]
    return np.array([eval_psum(s) for s in body.split(';')], dtype=CLD) if body else np.zeros(0, dtype=CLD)


def nat_list(xs):
    return '[' + ','.join(str(int(x)) for x in xs) + ']'


def dy(rng, lo, hi, bits=6):
    n = int(rng.integers(int(round(lo * (1 << bits))), int(round(hi * (1 << bits))) + 1))
    return n / float(1 << bits)


def dy_nz(rng, lo, hi, bits=6):
    while True:
        v = dy(rng, lo, hi, bits)
        if v != 0:
            return v


def maxerr(a, b):
    a = np.asarray(a).astype(CLD).reshape(-1)
    b = np.asarray(b).astype(CLD).reshape(-1)
    if a.size != b.size:
        return float('inf')
    return float(np.abs(a - b).max()) if a.size else 0.0


def unravel(flat, dims_shape):
    """flat index (row-major over the shape-order dims) -> multi-index in shape order"""
    return [int(v) for v in np.unravel_index(flat, dims_shape)]


class Tie:
    """result of one tie case: oracle failures, model requests + checker, counters"""

    def __init__(self):
        self.bad = []          # (key, what)
        self.lines = []
        self.check = None      # f(responses) -> None | detail
        self.counts = []
        self.sig = None


# ---------------------------------------------------------------------------------------------
# MFT: Model/Mft.lean  <->  MatrixFourierTransform

def gen_mft(rng):
    ndim = int(rng.choice([1, 2, 2]))
    sizes = [int(rng.integers(1, 6)) for _ in range(2 * ndim)]
    kinds = [str(rng.choice(['regular', 'separated', 'weighted'])) for _ in range(2)]

    def coords(n, kind):
        if kind == 'regular':
            z, d = dy(rng, -2, 2), dy_nz(rng, 0.125, 1.5)
            return [z + i * d for i in range(n)]
        z = dy(rng, -2, 2)
        steps = [dy(rng, 0.125, 1.0) for _ in range(n)]
        return [z + sum(steps[:i]) for i in range(n)]
    case = {'family': 'tie-mft', 'ndim': ndim, 'in_kind': kinds[0], 'out_kind': kinds[1],
            'in': [coords(sizes[d], kinds[0]) for d in range(ndim)],
            'out': [coords(sizes[ndim + d], kinds[1]) for d in range(ndim)],
            'pre': bool(rng.integers(0, 2)), 'alloc': bool(rng.integers(0, 2)), 'seed': int(rng.integers(0, 2 ** 31))}
    nin = int(np.prod(sizes[:ndim]))
    nout = int(np.prod(sizes[ndim:]))
    case['in_w'] = [dy(rng, 0.25, 2.0) for _ in range(nin)] if kinds[0] == 'weighted' else None
    case['out_w'] = [dy(rng, 0.25, 2.0) for _ in range(nout)] if kinds[1] == 'weighted' else None
    case['j'] = int(rng.integers(0, nin))
    case['k'] = int(rng.integers(0, nout))
    return case


def _sep_grid(coords, kind, w):
    import hcipy
    if kind == 'regular':
        delta = [(c[1] - c[0]) if len(c) > 1 else 1.0 for c in coords]
        g = hcipy.CartesianGrid(hcipy.RegularCoords(np.array(delta), np.array([len(c) for c in coords]), np.array([c[0] for c in coords])))
        return g
    if any(len(c) < 2 for c in coords) and w is None:
        w = [1.0] * int(np.prod([len(c) for c in coords]))     # automatic weights need two samples per axis
    return hcipy.CartesianGrid(hcipy.SeparatedCoords([np.array(c, dtype='float64') for c in coords]),
                               weights=None if w is None else np.array(w, dtype='float64'))


def _w_arg(w, n):
    """the weights the object reports -> protocol list (one entry = scalar branch)"""
    if np.isscalar(w) or np.ndim(w) == 0:
        return rat_list([float(w)])
    w = np.asarray(w, dtype='float64').reshape(-1)
    if w.size != n:
        raise MachineryError('weights array of %d entries for %d points' % (w.size, n))
    return rat_list([float(v) for v in w])


def tie_mft(case):
    import hcipy
    t = Tie()
    ndim = case['ndim']
    gi = _sep_grid(case['in'], case['in_kind'], case['in_w'])
    go = _sep_grid(case['out'], case['out_kind'], case['out_w'])
    ft = hcipy.MatrixFourierTransform(gi, go, precompute_matrices=case['pre'], allocate_intermediate=case['alloc'])
    j, k = case['j'], case['k']
    a = np.zeros(gi.size, dtype='complex128'); a[j] = 1
    b = np.zeros(go.size, dtype='complex128'); b[k] = 1
    fwd = np.asarray(ft.forward(hcipy.Field(a, gi)))
    bwd = np.asarray(ft.backward(hcipy.Field(b, go)))
    # oracle: the defining sums on the impulses, from the grids (not from the object)
    xi = [np.asarray(c, dtype=LD) for c in gi.coords]
    xo = [np.asarray(c, dtype=LD) for c in go.coords]
    wi = np.broadcast_to(np.asarray(gi.weights, dtype=LD), (gi.size,))
    wo = np.broadcast_to(np.asarray(go.weights, dtype=LD), (go.size,)) / TWO_PI_LD ** ndim
    ph_f = sum(xo[d] * xi[d][j] for d in range(ndim))
    ph_b = sum(xo[d][k] * xi[d] for d in range(ndim))
    ref_f = CLD(wi[j]) * np.exp(-CLD(1j) * ph_f)
    ref_b = CLD(wo[k]) * np.exp(CLD(1j) * ph_b)
    ef, eb = maxerr(fwd, ref_f), maxerr(bwd, ref_b)
    if not ef <= 1e-9 * max(float(np.abs(ref_f).max()), 1e-300):
        t.bad.append(('tie-mft-forward', 'MatrixFourierTransform.forward of the unit impulse at %d differs from the defining sum by %.3g' % (j, ef)))
    if not eb <= 1e-9 * max(float(np.abs(ref_b).max()), 1e-300):
        t.bad.append(('tie-mft-backward', 'MatrixFourierTransform.backward of the unit impulse at %d differs from the defining sum by %.3g' % (k, eb)))
    # correspondence: the two gemm calls of Model/Mft.lean with the weights the object reports
    ft2 = hcipy.MatrixFourierTransform(gi, go, precompute_matrices=True)
    ft2._compute_matrices(np.dtype('complex128'))
    w_in, w_out = ft2.weights_input, ft2.weights_output
    sep_i = [[float(v) for v in c] for c in gi.separated_coords]
    sep_o = [[float(v) for v in c] for c in go.separated_coords]
    if ndim == 2:
        args = '%s %s %s %s' % (rat_list(sep_i[0]), rat_list(sep_i[1]), rat_list(sep_o[0]), rat_list(sep_o[1]))
        t.lines = ['C01 mft fwd %s %s %d' % (args, _w_arg(w_in, gi.size), j), 'C01 mft sumfwd %s %s %d' % (args, _w_arg(w_in, gi.size), j),
                   'C01 mft bwd %s %s %d' % (args, _w_arg(w_out, go.size), k), 'C01 mft sumbwd %s %s %d' % (args, _w_arg(w_out, go.size), k)]
    else:
        args = '%s %s' % (rat_list(sep_i[0]), rat_list(sep_o[0]))
        t.lines = ['C01 mft1 fwd %s %s %d' % (args, _w_arg(w_in, gi.size), j), 'C01 mft1 bwd %s %s %d' % (args, _w_arg(w_out, go.size), k)]

    def check(rs):
        vals = [eval_psums(r) for r in rs]
        pairs = [(vals[0], fwd, 'forward'), (vals[2 if ndim == 2 else 1], bwd, 'backward')]
        for mv, rv, name in pairs:
            e = maxerr(mv, rv)
            if not e <= 1e-9 * max(float(np.abs(mv).max()) if mv.size else 0.0, 1e-300):
                return 'MatrixFourierTransform.%s differs from the modelled gemm products (mft%s) by %.3g' % (name, 'Forward' if name == 'forward' else 'Backward', e)
        if ndim == 2:
            for a_, b_, name in ((vals[0], vals[1], 'forward'), (vals[2], vals[3], 'backward')):
                e = maxerr(a_, b_)
                if not e <= 1e-12 * max(float(np.abs(a_).max()), 1e-300):
                    return 'modelled gemm products differ from the modelled defining sum (%s) by %.3g' % (name, e)
        return None
    t.check = check
    t.counts = ['tie-mft:%dD' % ndim, 'tie-mft-weights-in:' + ('scalar' if np.isscalar(w_in) or np.ndim(w_in) == 0 else 'array'),
                'tie-mft-weights-out:' + ('scalar' if np.isscalar(w_out) or np.ndim(w_out) == 0 else 'array'),
                'tie-mft-grid:%s->%s' % (case['in_kind'], case['out_kind'])]
    t.sig = ('tie-mft', ndim, tuple(len(c) for c in case['in']), tuple(len(c) for c in case['out']), case['in_kind'], case['out_kind'])
    return t


# ---------------------------------------------------------------------------------------------
# CZT: Model/Czt.lean  <->  ChirpZTransform

def gen_czt(rng):
    n, m = int(rng.integers(1, 13)), int(rng.integers(1, 13))
    big = bool(rng.integers(0, 4) == 0)
    omega = dy_nz(rng, -8, 8, 5) if big else dy_nz(rng, -2.5, 2.5, 6)
    return {'family': 'tie-czt', 'n': n, 'm': m, 'omega': omega, 'alpha': dy(rng, -6, 6, 5), 'j': int(rng.integers(0, n))}


def tie_czt(case):
    import hcipy
    from hcipy.fourier.chirp_z_transform import ChirpZTransform
    t = Tie()
    n, m, om, al, j = case['n'], case['m'], case['omega'], case['alpha'], case['j']
    c = ChirpZTransform(n, m, np.exp(1j * om), np.exp(1j * al))
    x = np.zeros(n, dtype='complex128'); x[j] = 1
    res = np.asarray(c(x))
    kk = np.arange(m, dtype=LD)
    ref = np.exp(CLD(1j) * (-LD(al) * j + LD(om) * j * kk))
    e = maxerr(res, ref)
    if not e <= 1e-9:
        t.bad.append(('tie-czt', 'ChirpZTransform(n=%d, m=%d, w=exp(%ri), a=exp(%ri)) of the unit impulse at %d differs from Σ x a^-n w^nk by %.3g' % (n, m, om, al, j, e)))
    nfft = int(c.nfft)
    principal = abs(om) < 3.0
    t.lines = ['C01 czt %d %d %d %s %s %d' % (n, m, nfft, rat(om), rat(al), j), 'C01 cztsum %d %d %d %s %s %d' % (n, m, nfft, rat(om), rat(al), j)]
    if principal:
        t.lines.append('C01 cztparts %d %d %s %s' % (n, m, rat(om), rat(al)))

    def check(rs):
        mv, sv = eval_psums(rs[0]), eval_psums(rs[1])
        e1 = maxerr(mv, res)
        if not e1 <= 1e-9:
            return 'ChirpZTransform.__call__ differs from the modelled Bluestein pipeline by %.3g' % e1
        if not maxerr(mv, sv) <= 1e-12:
            return 'modelled Bluestein pipeline differs from the modelled chirp-z sum by %.3g' % maxerr(mv, sv)
        if nfft < n + m - 1:
            return 'nfft = %d < n + m - 1' % nfft
        if principal:
            parts = rs[2][3:].split(' | ')
            awk2, wk2, ker = (np.array([eval_psum(s) for s in p.split(';')], dtype=CLD) for p in parts)
            if maxerr(awk2, c._Awk2) > 1e-9:
                return '_Awk2 differs from the modelled a^-k w^(k²/2) by %.3g' % maxerr(awk2, c._Awk2)
            if maxerr(wk2, c._wk2) > 1e-9:
                return '_wk2 differs from the modelled w^(k²/2) by %.3g' % maxerr(wk2, c._wk2)
            kern = np.fft.ifft(np.asarray(c._Fwk2))
            if maxerr(ker, kern[:n + m - 1]) > 1e-9 or (kern.size > n + m - 1 and float(np.abs(kern[n + m - 1:]).max()) > 1e-9):
                return 'the Bluestein kernel (ifft of _Fwk2) differs from the modelled hstack(1/wk2[n-1:0:-1], 1/wk2[:m]) zero padded'
        return None
    t.check = check
    t.counts = ['tie-czt', 'tie-czt-branch:' + ('principal (|ω|<3)' if principal else 'wrapped (|ω|>=3)'), 'tie-czt:n%sm' % ('<' if n < m else ('=' if n == m else '>'))]
    t.sig = ('tie-czt', n, m, om, al)
    return t


# ---------------------------------------------------------------------------------------------
# ZoomFFT on n axes with weights: Model/ZoomN.lean  <->  ZoomFastFourierTransform

def gen_zoom(rng):
    ndim = int(rng.choice([1, 2, 2, 3]))
    cap = {1: 12, 2: 6, 3: 3}[ndim]
    n = [int(rng.integers(1, cap + 1)) for _ in range(ndim)]
    m = [int(rng.integers(1, cap + 1)) for _ in range(ndim)]
    big = bool(rng.integers(0, 4) == 0)
    case = {'family': 'tie-zoom', 'n': n, 'm': m,
            'x0': [dy(rng, -2, 2) for _ in range(ndim)], 'dx': [dy_nz(rng, 0.125, 1.5) for _ in range(ndim)],
            'u0': [dy(rng, -3, 3) for _ in range(ndim)], 'du': [dy_nz(rng, 0.125, 6.0 if big else 1.5) for _ in range(ndim)],
            'in_w': None, 'out_w': None}
    if ndim >= 2 and rng.integers(0, 3) == 0:
        # square / cubic grids (equal dims and spacing on all axes), origins different per axis on both sides
        case['square'] = True
        n = case['n'] = [max(2, n[0])] * ndim
        m = case['m'] = [max(2, m[0])] * ndim
        case['dx'] = [case['dx'][0]] * ndim
        case['du'] = [case['du'][0]] * ndim
        case['x0'] = [case['x0'][0] + d * dy_nz(rng, 0.125, 2, 3) for d in range(ndim)]
        case['u0'] = [case['u0'][0] + d * dy_nz(rng, 0.25, 8, 2) for d in range(ndim)]
    if rng.integers(0, 3) == 0:
        case['in_w'] = [dy(rng, 0.25, 2.0) for _ in range(int(np.prod(n)))]
    if rng.integers(0, 3) == 0:
        case['out_w'] = [dy(rng, 0.25, 2.0) for _ in range(int(np.prod(m)))]
    case['j'] = int(rng.integers(0, int(np.prod(n))))
    case['k'] = int(rng.integers(0, int(np.prod(m))))
    return case


def _reg_grid(delta, dims, zero, w):
    import hcipy
    return hcipy.CartesianGrid(hcipy.RegularCoords(np.array(delta, dtype='float64'), np.array(dims), np.array(zero, dtype='float64')),
                               weights=None if w is None else np.array(w, dtype='float64'))


def tie_zoom(case):
    import hcipy
    t = Tie()
    n, m = case['n'], case['m']
    ndim = len(n)
    gi = _reg_grid(case['dx'], n, case['x0'], case['in_w'])
    go = _reg_grid(case['du'], m, case['u0'], case['out_w'])
    ft = hcipy.ZoomFastFourierTransform(gi, go)
    j, k = case['j'], case['k']
    a = np.zeros(gi.size, dtype='complex128'); a[j] = 1
    b = np.zeros(go.size, dtype='complex128'); b[k] = 1
    fwd = np.asarray(ft.forward(hcipy.Field(a, gi)))
    bwd = np.asarray(ft.backward(hcipy.Field(b, go)))
    xi = [np.asarray(c, dtype=LD) for c in gi.coords]
    xo = [np.asarray(c, dtype=LD) for c in go.coords]
    wi = np.broadcast_to(np.asarray(gi.weights, dtype=LD), (gi.size,))
    wo = np.broadcast_to(np.asarray(go.weights, dtype=LD), (go.size,)) / TWO_PI_LD ** ndim
    ref_f = CLD(wi[j]) * np.exp(-CLD(1j) * sum(xo[d] * xi[d][j] for d in range(ndim)))
    ref_b = CLD(wo[k]) * np.exp(CLD(1j) * sum(xo[d][k] * xi[d] for d in range(ndim)))
    ef, eb = maxerr(fwd, ref_f), maxerr(bwd, ref_b)
    if not ef <= 1e-9 * max(float(np.abs(ref_f).max()), 1e-300):
        t.bad.append(('tie-zoom-forward', 'ZoomFastFourierTransform.forward of the unit impulse at %d differs from the defining sum by %.3g' % (j, ef)))
    if not eb <= 1e-9 * max(float(np.abs(ref_b).max()), 1e-300):
        t.bad.append(('tie-zoom-backward', 'ZoomFastFourierTransform.backward of the unit impulse at %d differs from the defining sum by %.3g' % (k, eb)))
    nfft = [int(c.nfft) for c in ft.czts]
    nfft_inv = [int(c.nfft) for c in ft.inv_czts]
    rv = lambda l: l[::-1]                                   # dims order -> shape order
    shape_in, shape_out = rv(n), rv(m)
    axes = '%s %s %s %s %s %s %s %s' % (nat_list(rv(n)), nat_list(rv(m)), nat_list(rv(nfft)), nat_list(rv(nfft_inv)),
                                     rat_list(rv(case['x0'])), rat_list(rv(case['dx'])), rat_list(rv(case['u0'])), rat_list(rv(case['du'])))
    w_in, w_out = ft.input_weights, ft.output_weights
    jj, kk = unravel(j, shape_in), unravel(k, shape_out)
    t.lines = ['C01 zoomn fwd %s %s %s' % (axes, _w_arg(w_in, gi.size), nat_list(jj)), 'C01 zoomsum fwd %s %s %s' % (axes, _w_arg(w_in, gi.size), nat_list(jj)),
               'C01 zoomn bwd %s %s %s' % (axes, _w_arg(w_out, go.size), nat_list(kk)), 'C01 zoomsum bwd %s %s %s' % (axes, _w_arg(w_out, go.size), nat_list(kk))]

    for d in range(ndim):
        for direction in ('fwd', 'bwd'):
            t.lines.append('C01 zoomchirp %s %s %s %s %s' % (direction, rat(case['x0'][d]), rat(case['dx'][d]), rat(case['u0'][d]), rat(case['du'][d])))
    czt_params = [[(complex(c.w), complex(c.a), int(c.n), int(c.m)) for c in cs] for cs in (ft.czts, ft.inv_czts)]

    def check(rs):
        for d in range(ndim):
            for di, direction in enumerate(('fwd', 'bwd')):
                r = rs[4 + 2 * d + di]
                if not r.startswith('ok '):
                    return 'model: ' + r
                mw, ma = (complex(eval_psum(x)) for x in r[3:].split(' '))
                cw, ca, cn, cm = czt_params[di][d]
                want_nm = (n[d], m[d]) if di == 0 else (m[d], n[d])
                if abs(mw - cw) > 1e-12 or abs(ma - ca) > 1e-12 or (cn, cm) != want_nm:
                    return '%s chirp-z transform of axis %d: implementation w=%r a=%r n=%d m=%d, model (zoomChirp%s) w=%r a=%r n=%d m=%d' % (
                        'forward' if di == 0 else 'inverse', d, cw, ca, cn, cm, '' if di == 0 else 'Inv', mw, ma, want_nm[0], want_nm[1])
        vals = [eval_psums(r) for r in rs[:4]]
        for mv, rvv, name in ((vals[0], fwd, 'forward'), (vals[2], bwd, 'backward')):
            e = maxerr(mv, rvv)
            if not e <= 1e-9 * max(float(np.abs(mv).max()), 1e-300):
                return 'ZoomFastFourierTransform.%s differs from the modelled weights + CZT axis loop (zoom%sN) by %.3g' % (name, name.capitalize(), e)
        for a_, b_, name in ((vals[0], vals[1], 'forward'), (vals[2], vals[3], 'backward')):
            e = maxerr(a_, b_)
            if not e <= 1e-12 * max(float(np.abs(a_).max()), 1e-300):
                return 'modelled zoom loop differs from the modelled n-D defining sum (%s) by %.3g' % (name, e)
        return None
    t.check = check
    wrapped = any(abs(case['du'][d] * case['dx'][d]) >= 3.0 for d in range(ndim))
    t.counts = (['tie-zoom:square grids, per-axis origins'] if case.get('square') else []) + ['tie-zoom:%dD' % ndim, 'tie-zoom-weights-in:' + ('array' if case['in_w'] else 'scalar'),
                'tie-zoom-weights-out:' + ('array' if case['out_w'] else 'scalar'), 'tie-zoom-branch:' + ('wrapped (|Δδ|>=3)' if wrapped else 'principal')]
    t.sig = ('tie-zoom', tuple(n), tuple(m), bool(case['in_w']), bool(case['out_w']))
    return t


# ---------------------------------------------------------------------------------------------
# ZoomFFT axis loop: Model/Axes.lean zoomLoop  <->  the moveaxis / czt calls of forward/backward on tensor fields

class _NpProxy:
    def __init__(self, real, log):
        self.__dict__['_real'] = real
        self.__dict__['_log'] = log

    def __getattr__(self, name):
        return getattr(self._real, name)

    def moveaxis(self, a, s, d):
        r = self._real.moveaxis(a, s, d)
        self._log.append(('move', tuple(a.shape), int(s), int(d), tuple(r.shape)))
        return r


class _CztRec:
    def __init__(self, czt, log):
        self.czt = czt
        self.log = log

    def __getattr__(self, name):
        return getattr(self.czt, name)

    def __call__(self, x):
        r = self.czt(x)
        self.log.append(('czt', tuple(x.shape), tuple(r.shape)))
        return r


# pairwise distinct sizes so that a shape identifies the layout: tensor axes, input dims, output dims
_T_SIZES = [11, 13]
_N_SIZES = [2, 3, 4, 5]
_M_SIZES = [6, 7, 8, 9]


def gen_zoomaxes(rng):
    return {'family': 'tie-zoomaxes', 'r': int(rng.integers(0, 3)), 'ndim': int(rng.integers(1, 5)), 'dir': str(rng.choice(['fwd', 'bwd'])),
            'seed': int(rng.integers(0, 2 ** 31))}


def tie_zoomaxes(case):
    import hcipy
    import hcipy.fourier.zoom_fast_fourier_transform as zmod
    t = Tie()
    r, ndim, direction = case['r'], case['ndim'], case['dir']
    n, m = _N_SIZES[:ndim], _M_SIZES[:ndim]
    gi = _reg_grid([0.5] * ndim, n, [-0.5] * ndim, None)
    go = _reg_grid([0.25] * ndim, m, [-0.75] * ndim, None)
    ft = hcipy.ZoomFastFourierTransform(gi, go)
    ft._compute_shifts_and_weights(np.dtype('complex128'))
    log = []
    ft.czts = [_CztRec(c, log) for c in ft.czts]
    ft.inv_czts = [_CztRec(c, log) for c in ft.inv_czts]
    src, dst = (gi, go) if direction == 'fwd' else (go, gi)
    rng = np.random.default_rng(case['seed'])
    tshape = _T_SIZES[:r]
    f = hcipy.Field(rng.normal(size=tuple(tshape) + (src.size,)) + 1j * rng.normal(size=tuple(tshape) + (src.size,)), src)
    real_np = zmod.np
    zmod.np = _NpProxy(real_np, log)
    try:
        res = ft.forward(f) if direction == 'fwd' else ft.backward(f)
    finally:
        zmod.np = real_np
    label = {}
    for i, s in enumerate(tshape):
        label[s] = 't%d' % i
    for d in range(ndim):
        label[n[d]] = 'g%d' % d
        label[m[d]] = 'g%d' % d
    calls = [e for e in log if e[0] == 'czt']
    moves = [e for e in log if e[0] == 'move']
    hits = [label[e[1][-1]] for e in calls]
    init = [label[s] for s in (moves[0][1] if moves else tuple(tshape) + tuple((n if direction == 'fwd' else m)[::-1]))]
    final = [label[s] for s in (moves[-1][4] if moves else ())]
    want_hits = ['g%d' % d for d in range(ndim)]
    if hits != want_hits or final != init:
        t.bad.append(('tie-zoom-axes', 'ZoomFastFourierTransform.%s on a field of tensor rank %d over a %d-D grid: the chirp-z transforms act on axes %s (expected %s), layout %s -> %s' % (
            'forward' if direction == 'fwd' else 'backward', r, ndim, hits, want_hits, init, final)))
    # value oracle: the first tensor component equals the transform of that component alone
    comp = f[(0,) * r] if r else f
    alone = ft.forward(hcipy.Field(np.asarray(comp), src)) if direction == 'fwd' else ft.backward(hcipy.Field(np.asarray(comp), src))
    got = np.asarray(res)[(0,) * r] if r else np.asarray(res)
    e = maxerr(got, np.asarray(alone))
    if not e <= 1e-9 * max(float(np.abs(np.asarray(alone)).max()), 1e-300):
        t.bad.append(('tie-zoom-axes', 'ZoomFastFourierTransform on a tensor field (rank %d, %d-D): component [0…] differs from the transform of that component alone by %.3g' % (r, ndim, e)))
    t.lines = ['C01 zoomaxes %d %d' % (r, ndim)]

    def check(rs):
        if not rs[0].startswith('ok '):
            return 'model: ' + rs[0]
        mh, mf, mi = rs[0][3:].split(' ')
        fmt = lambda l: '[' + ','.join(l) + ']'
        if fmt(hits) != mh:
            return 'axes the chirp-z transforms act on: implementation %s, model zoomLoop %s' % (fmt(hits), mh)
        if fmt(final) != mf:
            return 'final layout: implementation %s, model zoomLoop %s' % (fmt(final), mf)
        if fmt(init) != mi:
            return 'field.shaped layout: implementation %s, model initLayout %s' % (fmt(init), mi)
        return None
    t.check = check
    t.counts = ['tie-zoomaxes:rank%d,%dD' % (r, ndim), 'tie-zoomaxes:' + direction]
    t.sig = ('tie-zoomaxes', r, ndim, direction)
    return t


# ---------------------------------------------------------------------------------------------
# the persistent internal array: Model/FftState.lean loadArray / coreState  <->  FastFourierTransform.internal_array

def gen_state(rng):
    N = int(rng.integers(1, 10))
    style = int(rng.integers(0, 4))
    q = 1.0 if style == 0 else float(Fraction(int(rng.integers(N, 3 * N + 1)), N))
    M = int(np.round(q * N))
    q = M / N if float(M / N) * N == M else q
    Mo = int(rng.integers(1, M + 1)) if rng.integers(0, 2) else M
    fov = 1.0 if Mo == M else (Mo + 0.5) / M
    return {'family': 'tie-state', 'N': N, 'q': q, 'fov': fov, 'delta': dy_nz(rng, 0.125, 2.0), 'zero': dy(rng, -2, 2), 'emu': bool(rng.integers(0, 2)),
            'dir': str(rng.choice(['fwd', 'fwd', 'bwd'])), 'seed': int(rng.integers(0, 2 ** 31))}


def tie_state(case):
    import hcipy
    t = Tie()
    N, emu, direction = case['N'], case['emu'], case['dir']
    g = _reg_grid([case['delta']], [N], [case['zero']], None)

    def make():
        return hcipy.FastFourierTransform(g, case['q'], case['fov'], 0, emulate_fftshifts=emu)
    ft = make()
    M, Mo = int(ft.internal_shape[0]), int(ft.shape_out[0])
    rng = np.random.default_rng(case['seed'])
    buf_re = [dy(rng, -4, 4, 4) for _ in range(M)]
    buf_im = [dy(rng, -4, 4, 4) for _ in range(M)]
    nsrc, ndst = (N, Mo) if direction == 'fwd' else (Mo, N)
    j = int(rng.integers(0, nsrc))
    fvals = [dy(rng, -4, 4, 4) for _ in range(nsrc)]
    src = g if direction == 'fwd' else ft.output_grid
    call = (lambda o, a: o.forward(hcipy.Field(np.array(a, dtype='complex128'), src))) if direction == 'fwd' else (lambda o, a: o.backward(hcipy.Field(np.array(a, dtype='complex128'), src)))
    # 1. arbitrary field, garbage in the internal array: the array after the load statements, and history independence
    ft.internal_array[:] = np.array(buf_re) + 1j * np.array(buf_im)
    res_g = np.asarray(call(ft, fvals))
    arr = np.array(ft.internal_array).reshape(-1)
    res_f = np.asarray(call(make(), fvals))
    e = maxerr(res_g, res_f)
    if not e <= 1e-12 * max(float(np.abs(res_f).max()), 1e-300):
        t.bad.append(('tie-fft-history', 'FastFourierTransform.%s (N=%d, internal %d, out %d, emulate_fftshifts=%r) depends on the previous contents of internal_array: differs from a fresh object by %.3g' % (
            'forward' if direction == 'fwd' else 'backward', N, M, Mo, emu, e)))
    # what the code loads: the field times/divided by the multiplier, computed with the same float operations
    loaded = np.array(fvals, dtype='complex128')
    if direction == 'fwd':
        if ft.shift_output is not None:
            loaded = loaded * np.asarray(ft.shift_output).reshape(-1)
    else:
        loaded = loaded / np.asarray(ft.shift_input).reshape(-1)
    sh = 0 if emu else 1
    t.lines = ['C01 load %d %d %d %s %s' % (sh, nsrc, M, rat_list(buf_re), rat_list([float(v) for v in loaded.real])),
               'C01 load %d %d %d %s %s' % (sh, nsrc, M, rat_list(buf_im), rat_list([float(v) for v in loaded.imag]))]
    # 2. unit impulse, garbage (real) in the internal array: the core read through the persistent array
    imp = [0.0] * nsrc
    imp[j] = 1.0
    res_i = None
    if direction == 'fwd':
        ft.internal_array[:] = np.array(buf_re)
        res_i = np.asarray(call(ft, imp)) / np.asarray(ft.shift_input).reshape(-1)
        if ft.shift_output is not None:
            res_i = res_i / np.asarray(ft.shift_output).reshape(-1)[j]
        t.lines.append('C01 corestate %d %d %d %d %s %d' % (sh, N, M, Mo, rat_list(buf_re), j))

    def check(rs):
        for r, part, name in ((rs[0], arr.real, 'real'), (rs[1], arr.imag, 'imaginary')):
            if not r.startswith('ok '):
                return 'model: ' + r
            mv = [Fraction(x) for x in r[4:-1].split(',')] if len(r) > 5 else []
            cv = [Fraction(*float(v).as_integer_ratio()) for v in part]
            if mv != cv:
                return 'internal_array after the load statements of %s (%s parts) is %s, model loadArray%s gives %s' % (
                    direction, name, [float(v) for v in cv], ' + ifftshift' if sh else '', [float(v) for v in mv])
        if res_i is not None:
            mv = eval_psums(rs[2])
            e = maxerr(mv, res_i)
            if not e <= 1e-9 * max(float(np.abs(mv).max()), 1e-300):
                return 'forward through a dirty internal array differs from the modelled coreState by %.3g' % e
        return None
    t.check = check
    t.counts = ['tie-state:' + direction, 'tie-state:' + ('emulated' if emu else 'shifted'), 'tie-state:' + ('window' if nsrc < M else 'overwrite-all')]
    t.sig = ('tie-state', N, M, Mo, emu, direction)
    return t


# ---------------------------------------------------------------------------------------------
# the literal 2-D/3-D array programs and the iterated n-axis pipeline: Model/FftIndex2/2b/N  <->  FastFourierTransform

def gen_lit(rng):
    ndim = int(rng.choice([2, 2, 3, 1]))
    cap = {1: 8, 2: 5, 3: 3}[ndim]
    N = [int(rng.integers(1, cap + 1)) for _ in range(ndim)]
    q, fov = [], []
    for d in range(ndim):
        M = int(rng.integers(N[d], (2 if ndim == 3 else 3) * N[d] + 1)) if rng.integers(0, 3) else N[d]
        q.append(M / N[d])
        Mo = int(rng.integers(1, M + 1)) if rng.integers(0, 2) else M
        fov.append(1.0 if Mo == M else (Mo + 0.5) / M)
    return {'family': 'tie-lit', 'N': N, 'q': q, 'fov': fov, 'delta': [dy_nz(rng, 0.125, 2.0) for _ in range(ndim)], 'zero': [dy(rng, -2, 2) for _ in range(ndim)],
            'shift': [dy(rng, -1, 1) if rng.integers(0, 2) else 0.0 for _ in range(ndim)], 'seed': int(rng.integers(0, 2 ** 31))}


def tie_lit(case):
    import hcipy
    from harness.props import c01
    t = Tie()
    ndim = len(case['N'])
    g = _reg_grid(case['delta'], case['N'], case['zero'], None)
    rng = np.random.default_rng(case['seed'])
    fts = {}
    for cfg in ('std', 'emu'):
        fts[cfg] = hcipy.FastFourierTransform(g, np.array(case['q']), np.array(case['fov']), np.array(case['shift']), emulate_fftshifts=(cfg == 'emu'))
    ft = fts['std']
    Ns = [int(v) for v in ft.shape_in[::-1]]
    Ms = [int(v) for v in ft.internal_shape[::-1]]
    Mos = [int(v) for v in ft.shape_out[::-1]]
    if Ns != case['N']:
        raise MachineryError('shape_in %s for N %s' % (Ns, case['N']))
    dTs = c01.reported_dT(ft, case['delta'])
    if dTs is None:
        t.bad.append(('fft-grid-inconsistent', 'reported output spacing is not 2π/(M·δ) for any integer M'))
        return t
    og = ft.output_grid
    xi = [np.asarray(c, dtype=LD) for c in g.coords]
    xo = [np.asarray(c, dtype=LD) for c in og.coords]
    w = LD(1)
    for dl in case['delta']:
        w = w * LD(dl)
    wo = LD(1)
    for d in range(ndim):
        wo = wo * LD(og.delta[d]) / TWO_PI_LD
    j = int(rng.integers(0, g.size))
    k = int(rng.integers(0, og.size))
    ref_f = CLD(w) * np.exp(-CLD(1j) * sum(xo[d] * xi[d][j] for d in range(ndim)))
    ref_b = CLD(wo) * np.exp(CLD(1j) * sum(xo[d][k] * xi[d] for d in range(ndim)))
    res = {}
    for cfg in ('std', 'emu'):
        a = np.zeros(g.size, dtype='complex128'); a[j] = 1
        b = np.zeros(og.size, dtype='complex128'); b[k] = 1
        res[('fwd', cfg)] = np.asarray(fts[cfg].forward(hcipy.Field(a, g)))
        res[('bwd', cfg)] = np.asarray(fts[cfg].backward(hcipy.Field(b, og)))
        for direction, ref in (('fwd', ref_f), ('bwd', ref_b)):
            e = maxerr(res[(direction, cfg)], ref)
            if not e <= 1e-9 * max(float(np.abs(ref).max()), 1e-300):
                t.bad.append(('tie-fft-literal', 'FastFourierTransform(%s).%s of a unit impulse on a %d-D grid differs from the defining sum by %.3g' % (
                    'emulate_fftshifts' if cfg == 'emu' else 'fftshifts', 'forward' if direction == 'fwd' else 'backward', ndim, e)))
    rv = lambda l: l[::-1]
    ws = [Fraction(1)] * ndim
    ws[0] = Fraction(1)
    for dl in case['delta']:
        ws[0] *= Fraction(dl)
    cfgargs = '%s %s %s %s %s %s %s %s' % (nat_list(rv(Ns)), nat_list(rv(Ms)), nat_list(rv(Mos)), rat_list(rv(case['delta'])), rat_list(rv(case['zero'])),
                                        rat_list(rv(dTs)), rat_list(rv(case['shift'])), rat_list(rv(ws)))
    jj, kk = unravel(j, rv(Ns)), unravel(k, rv(Mos))
    order = []
    for direction, idx in (('fwd', jj), ('bwd', kk)):
        for cfg in ('std', 'emu'):
            for mode in ('lit', 'iter', 'sum'):
                t.lines.append('C01 impn %s %s %s %s %s' % (mode, direction, cfg, cfgargs, nat_list(idx)))
                order.append((mode, direction, cfg))

    def check(rs):
        vals = {}
        for key, r in zip(order, rs):
            if not r.startswith('ok '):
                return 'model %s: %s' % (key, r)
            vals[key] = eval_psums(r)
        for direction in ('fwd', 'bwd'):
            for cfg in ('std', 'emu'):
                lit, it = vals[('lit', direction, cfg)], vals[('iter', direction, cfg)]
                real = res[(direction, cfg)]
                sc = max(float(np.abs(lit).max()), 1e-300)
                e = maxerr(lit, real)
                if not e <= 1e-9 * sc:
                    return 'FastFourierTransform.%s (%s) differs from the modelled literal %d-D array program by %.3g' % (direction, cfg, ndim, e)
                e = maxerr(it, lit)
                if not e <= 1e-12 * sc:
                    return 'modelled literal %d-D array program differs from the modelled iterated pipeline (%s, %s) by %.3g' % (ndim, direction, cfg, e)
                sm = vals[('sum', direction, cfg)]
                e = maxerr(sm, real)
                if not e <= 1e-9 * sc:
                    return 'FastFourierTransform.%s (%s) differs from the model\'s %d-D defining sum (sumForwardN/sumBackwardN) by %.3g' % (direction, cfg, ndim, e)
                e = maxerr(sm, it)
                if not e <= 1e-12 * sc:
                    return 'the model\'s %d-D defining sum differs from the modelled iterated pipeline (%s, %s) by %.3g' % (ndim, direction, cfg, e)
        return None
    t.check = check
    t.counts = ['tie-lit:%dD' % ndim] + ['tie-lit-axis:' + ('padded' if Ms[d] > Ns[d] else 'unpadded') + ('+cropped' if Mos[d] < Ms[d] else '') for d in range(ndim)]
    t.sig = ('tie-lit', tuple(Ns), tuple(Ms), tuple(Mos), tuple(s != 0 for s in case['shift']))
    return t


# ---------------------------------------------------------------------------------------------
# FastFourierTransform on a grid with per-point weights: fastForwardNW (Model/FftWeights.lean)  <->  forward with relative_weights

def gen_fftw(rng):
    case = gen_lit(rng)
    case['family'] = 'tie-fftw'
    size = int(np.prod(case['N']))
    kind = str(rng.choice(['random', 'random', 'one-zero', 'edge-heavy']))
    rel = [dy_nz(rng, 0.125, 2.0, 3) for _ in range(size)]
    if kind == 'one-zero':
        rel[int(rng.integers(0, size))] = 0.0
    elif kind == 'edge-heavy':
        rel[0] = 8.0
        rel[-1] = 8.0
    case['rel'] = rel          # relative weights in the grid's flat order (x fastest)
    case['wkind'] = kind
    return case


def tie_fftw(case):
    import hcipy
    from harness.props import c01
    t = Tie()
    ndim = len(case['N'])
    cell = 1.0
    for dl in case['delta']:
        cell *= abs(dl)
    rel = np.array(case['rel'], dtype='float64')
    g = _reg_grid(case['delta'], case['N'], case['zero'], rel * cell)
    rng = np.random.default_rng(case['seed'])
    fts = {}
    for cfg in ('std', 'emu'):
        fts[cfg] = hcipy.FastFourierTransform(g, np.array(case['q']), np.array(case['fov']), np.array(case['shift']), emulate_fftshifts=(cfg == 'emu'))
    ft = fts['std']
    Ns = [int(v) for v in ft.shape_in[::-1]]
    Ms = [int(v) for v in ft.internal_shape[::-1]]
    Mos = [int(v) for v in ft.shape_out[::-1]]
    dTs = c01.reported_dT(ft, case['delta'])
    if dTs is None:
        t.bad.append(('fft-grid-inconsistent', 'reported output spacing is not 2π/(M·δ) for any integer M'))
        return t
    og = ft.output_grid
    xi = [np.asarray(c, dtype=LD) for c in g.coords]
    xo = [np.asarray(c, dtype=LD) for c in og.coords]
    wi = np.asarray(g.weights, dtype=LD) * np.ones(g.size, dtype=LD)
    # oracle: a dyadic random field and a unit impulse against the defining sum with the grid's own per-point weights
    fld = (rng.integers(-8, 9, size=g.size) + 1j * rng.integers(-8, 9, size=g.size)) / 8.0
    j = int(rng.integers(0, g.size))
    imp = np.zeros(g.size, dtype='complex128'); imp[j] = 1
    phase = np.exp(-CLD(1j) * sum(np.multiply.outer(xo[d], xi[d]) for d in range(ndim)))        # (out, in)
    res = {}
    for cfg in ('std', 'emu'):
        for name, a in (('field', fld), ('impulse', imp)):
            got = np.asarray(fts[cfg].forward(hcipy.Field(a.astype('complex128'), g)))
            ref = phase @ (np.asarray(a, dtype=CLD) * wi)
            e = maxerr(got, ref)
            if not e <= 1e-9 * max(float(np.abs(ref).max()), float(np.abs(wi).max()) * 1e-3, 1e-300):
                t.bad.append(('tie-fft-per-point-weights', 'FastFourierTransform(%s).forward of a %s on a %d-D grid with per-point weights differs from Σ f·w·exp(-iux) by %.3g' % (
                    'emulate_fftshifts' if cfg == 'emu' else 'fftshifts', name, ndim, e)))
            if name == 'impulse':
                res[cfg] = got
    rv = lambda l: l[::-1]
    ws = [Fraction(1)] * ndim
    for dl in case['delta']:
        ws[0] *= abs(Fraction(dl))
    cfgargs = '%s %s %s %s %s %s %s %s' % (nat_list(rv(Ns)), nat_list(rv(Ms)), nat_list(rv(Mos)), rat_list(rv(case['delta'])), rat_list(rv(case['zero'])),
                                        rat_list(rv(dTs)), rat_list(rv(case['shift'])), rat_list(rv(ws)))
    jj = unravel(j, rv(Ns))
    for cfg in ('std', 'emu'):
        t.lines.append('C01 impnw %s %s %s %s' % (cfg, cfgargs, rat_list(case['rel']), nat_list(jj)))

    def check(rs):
        for cfg, r in zip(('std', 'emu'), rs):
            if not r.startswith('ok '):
                return 'model impnw %s: %s' % (cfg, r)
            m = eval_psums(r)
            e = maxerr(m, res[cfg])
            if not e <= 1e-9 * max(float(np.abs(m).max()), float(np.abs(wi).max()) * 1e-3, 1e-300):
                return 'FastFourierTransform.forward (%s) on a %d-D grid with per-point weights differs from the model fastForwardNW by %.3g' % (cfg, ndim, e)
        return None
    t.check = check
    t.counts = ['tie-fftw:%dD' % ndim, 'tie-fftw:' + case['wkind']] + ['tie-fftw-axis:' + ('padded' if Ms[d] > Ns[d] else 'unpadded') for d in range(ndim)]
    t.sig = ('tie-fftw', tuple(Ns), tuple(Ms), tuple(Mos), case['wkind'])
    return t

# ---------------------------------------------------------------------------------------------
# NaiveFourierTransform, both code paths: Model/Nft.lean  <->  NaiveFourierTransform(precompute_matrices=True/False) on unstructured points

def gen_nft(rng):
    ndim = int(rng.integers(1, 4))
    n, m = int(rng.integers(1, 7)), int(rng.integers(1, 7))
    return {'family': 'tie-nft', 'x': [[dy(rng, -2, 2) for _ in range(n)] for _ in range(ndim)], 'u': [[dy(rng, -3, 3) for _ in range(m)] for _ in range(ndim)],
            'w_in': [dy_nz(rng, 0.125, 2.0, 3) for _ in range(n)], 'w_out': [dy_nz(rng, 0.125, 2.0, 3) for _ in range(m)], 'j': int(rng.integers(0, n)), 'k': int(rng.integers(0, m))}


def tie_nft(case):
    import hcipy
    t = Tie()
    ndim = len(case['x'])
    n, m = len(case['x'][0]), len(case['u'][0])
    gi = hcipy.CartesianGrid(hcipy.UnstructuredCoords([np.array(c, dtype='float64') for c in case['x']]), weights=np.array(case['w_in'], dtype='float64'))
    go = hcipy.CartesianGrid(hcipy.UnstructuredCoords([np.array(c, dtype='float64') for c in case['u']]), weights=np.array(case['w_out'], dtype='float64'))
    xs = [np.array(c, dtype=LD) for c in case['x']]
    us = [np.array(c, dtype=LD) for c in case['u']]
    dot = sum(np.multiply.outer(us[d], xs[d]) for d in range(ndim))      # (m, n)
    j, k = case['j'], case['k']
    ref_f = np.exp(-CLD(1j) * dot[:, j]) * LD(case['w_in'][j])
    ref_b = np.exp(CLD(1j) * dot[k, :]) * LD(case['w_out'][k]) / (TWO_PI_LD ** ndim)
    res = {}
    for path, pre in (('mat', True), ('fly', False)):
        ft = hcipy.NaiveFourierTransform(gi, go, precompute_matrices=pre)
        a = np.zeros(n, dtype='complex128'); a[j] = 1
        b = np.zeros(m, dtype='complex128'); b[k] = 1
        res[('fwd', path)] = np.asarray(ft.forward(hcipy.Field(a, gi)))
        res[('bwd', path)] = np.asarray(ft.backward(hcipy.Field(b, go)))
        for direction, ref in (('fwd', ref_f), ('bwd', ref_b)):
            e = maxerr(res[(direction, path)], ref)
            if not e <= 1e-9 * max(float(np.abs(ref).max()), 1e-300):
                t.bad.append(('tie-nft-' + ('forward' if direction == 'fwd' else 'backward'), 'NaiveFourierTransform(precompute_matrices=%s).%s of a unit impulse on %d unstructured points in %d-D '
                              'differs from the defining sum by %.3g' % (pre, 'forward' if direction == 'fwd' else 'backward', n if direction == 'fwd' else m, ndim, e)))
    lists = lambda ll: ';'.join(rat_list(l) for l in ll)
    # output weights of the backward sum: weights / (2π)^ndim is not rational — the model gets the weights, the comparison divides
    order = []
    for direction, w, idx in (('fwd', case['w_in'], j), ('bwd', case['w_out'], k)):
        for path in ('mat', 'fly'):
            t.lines.append('C01 nft %s %s %s %s %s %d' % (direction, path, lists(case['x']), lists(case['u']), rat_list(w), idx))
            order.append((direction, path))

    def check(rs):
        for key, r in zip(order, rs):
            if not r.startswith('ok '):
                return 'model nft %s: %s' % (key, r)
            mval = eval_psums(r)
            if key[0] == 'bwd':
                mval = mval / (TWO_PI_LD ** ndim)
            e = maxerr(mval, res[key])
            if not e <= 1e-9 * max(float(np.abs(mval).max()), 1e-300):
                return 'NaiveFourierTransform.%s (%s path, %d-D) differs from the model by %.3g' % (key[0], key[1], ndim, e)
        return None
    t.check = check
    t.counts = ['tie-nft:%dD' % ndim, 'tie-nft:n=%d' % n]
    t.sig = ('tie-nft', ndim, n, m)
    return t

# ---------------------------------------------------------------------------------------------
# multiplex_for_tensor_fields: Model/Multiplex.lean (multiplexTensor ∘ nft…)  <->  NaiveFourierTransform / MatrixFourierTransform on tensor fields of any shape

def gen_mux(rng):
    ndim = int(rng.integers(1, 3))
    n, m = int(rng.integers(1, 6)), int(rng.integers(1, 6))
    order = int(rng.integers(1, 4))
    while True:
        ts = [int(rng.integers(1, 4)) for _ in range(order)]
        if int(np.prod(ts)) <= 12:
            break
    T = int(np.prod(ts))
    return {'family': 'tie-mux', 'x': [[dy(rng, -2, 2) for _ in range(n)] for _ in range(ndim)], 'u': [[dy(rng, -3, 3) for _ in range(m)] for _ in range(ndim)],
            'w_in': [dy_nz(rng, 0.125, 2.0, 3) for _ in range(n)], 'w_out': [dy_nz(rng, 0.125, 2.0, 3) for _ in range(m)], 'tensor': ts,
            't': int(rng.integers(0, T)), 'j': int(rng.integers(0, n)), 'k': int(rng.integers(0, m)), 'seed': int(rng.integers(0, 2 ** 31))}


def tie_mux(case):
    import hcipy
    t = Tie()
    ndim = len(case['x'])
    n, m = len(case['x'][0]), len(case['u'][0])
    ts = [int(v) for v in case['tensor']]
    T = int(np.prod(ts))
    gi = hcipy.CartesianGrid(hcipy.UnstructuredCoords([np.array(c, dtype='float64') for c in case['x']]), weights=np.array(case['w_in'], dtype='float64'))
    go = hcipy.CartesianGrid(hcipy.UnstructuredCoords([np.array(c, dtype='float64') for c in case['u']]), weights=np.array(case['w_out'], dtype='float64'))
    xs = [np.array(c, dtype=LD) for c in case['x']]
    us = [np.array(c, dtype=LD) for c in case['u']]
    dot = sum(np.multiply.outer(us[d], xs[d]) for d in range(ndim))      # (m, n)
    Af = np.exp(-CLD(1j) * dot) * np.array(case['w_in'], dtype=LD)[None, :]                                 # (m, n): the forward sum
    Ab = (np.exp(CLD(1j) * dot) * np.array(case['w_out'], dtype=LD)[:, None]).T / (TWO_PI_LD ** ndim)      # (n, m): the backward sum
    rng = np.random.default_rng(case['seed'])
    tt, j, k = case['t'], case['j'], case['k']
    impl = [('nft-mat', lambda: hcipy.NaiveFourierTransform(gi, go, precompute_matrices=True)), ('nft-fly', lambda: hcipy.NaiveFourierTransform(gi, go, precompute_matrices=False))]
    if ndim == 1:
        gis = hcipy.CartesianGrid(hcipy.SeparatedCoords([np.array(case['x'][0], dtype='float64')]), weights=np.array(case['w_in'], dtype='float64'))
        gos = hcipy.CartesianGrid(hcipy.SeparatedCoords([np.array(case['u'][0], dtype='float64')]), weights=np.array(case['w_out'], dtype='float64'))
        impl.append(('mft', lambda: hcipy.MatrixFourierTransform(gis, gos)))
    res = {}
    for name, mk in impl:
        ft = mk()
        gin, gout = ft.input_grid, ft.output_grid
        # (a) a random tensor field: every component of the result is the defining sum of the same component of the input, in the C-order layout
        X = (rng.integers(-8, 9, size=(T, n)) + 1j * rng.integers(-8, 9, size=(T, n))) / 4.0
        Y = (rng.integers(-8, 9, size=(T, m)) + 1j * rng.integers(-8, 9, size=(T, m))) / 4.0
        for direction, src, A, gsrc, nout in (('forward', X, Af, gin, m), ('backward', Y, Ab, gout, n)):
            fld = hcipy.Field(src.reshape(tuple(ts) + (-1,)).copy(), gsrc)
            got = np.asarray(getattr(ft, direction)(fld))
            if got.shape != tuple(ts) + (nout,):
                t.bad.append(('tie-mux-shape', '%s.%s of a field of tensor shape %s returned shape %s, expected %s' % (name, direction, ts, got.shape, tuple(ts) + (nout,))))
                return t
            ref = (A @ src.astype(CLD).T).T
            e = maxerr(got.reshape(T, nout), ref)
            if not e <= 1e-9 * max(float(np.abs(ref).max()), 1e-300):
                t.bad.append(('tie-mux-' + direction, '%s.%s of a field of tensor shape %s differs from the defining sum taken component by component by %.3g' % (name, direction, ts, e)))
        # (b) impulse in one component, for the model
        if name.startswith('nft'):
            a = np.zeros((T, n), dtype='complex128'); a[tt, j] = 1
            b = np.zeros((T, m), dtype='complex128'); b[tt, k] = 1
            res[('fwd', name[4:])] = np.asarray(ft.forward(hcipy.Field(a.reshape(tuple(ts) + (-1,)), gin))).reshape(-1)
            res[('bwd', name[4:])] = np.asarray(ft.backward(hcipy.Field(b.reshape(tuple(ts) + (-1,)), gout))).reshape(-1)
    lists = lambda ll: ';'.join(rat_list(l) for l in ll)
    order = []
    for direction, w, idx in (('fwd', case['w_in'], j), ('bwd', case['w_out'], k)):
        for path in ('mat', 'fly'):
            t.lines.append('C01 mux %s %s %s %s %s [%s] %d %d' % (direction, path, lists(case['x']), lists(case['u']), rat_list(w), ','.join(str(v) for v in ts), tt, idx))
            order.append((direction, path))

    def check(rs):
        for key, r in zip(order, rs):
            if not r.startswith('ok '):
                return 'model mux %s: %s' % (key, r)
            mval = eval_psums(r)
            if key[0] == 'bwd':
                mval = mval / (TWO_PI_LD ** ndim)
            if mval.shape != res[key].shape:
                return 'NaiveFourierTransform.%s of a field of tensor shape %s has %d raveled samples, the model %d' % (key[0], ts, res[key].size, mval.size)
            e = maxerr(mval, res[key])
            if not e <= 1e-9 * max(float(np.abs(mval).max()), 1e-300):
                return 'NaiveFourierTransform.%s (%s path, tensor shape %s, impulse in component %d) differs from the model multiplexTensor by %.3g' % (key[0], key[1], ts, tt, e)
        return None
    t.check = check
    t.counts = ['tie-mux:order=%d' % len(ts), 'tie-mux:components=%d' % T, 'tie-mux:%dD' % ndim] + (['tie-mux:mft'] if ndim == 1 else [])
    t.sig = ('tie-mux', tuple(ts), ndim, n, m)
    return t

# ---------------------------------------------------------------------------------------------
# MatrixFourierTransform switches: Model/MftState.lean (mftHistory)  <->  the attributes of one real object after every call of a history

def gen_mftstate(rng):
    ndim = int(rng.integers(1, 3))
    steps = []
    for _ in range(int(rng.integers(2, 7))):
        r = rng.random()
        steps.append({'dir': 'f' if rng.random() < 0.5 else 'b', 'dtype': 'complex64' if rng.random() < 0.45 else 'complex128',
                      'tensor': [] if r < 0.5 else ([2] if r < 0.75 else ([3] if r < 0.85 else [2, 2]))})
    return {'family': 'tie-mftstate', 'ndim': ndim, 'pre': bool(rng.integers(0, 2)), 'alloc': bool(rng.integers(0, 2)),
            'n': [int(rng.integers(1, 5)) for _ in range(ndim)], 'm': [int(rng.integers(1, 5)) for _ in range(ndim)],
            'uniform_w': bool(rng.integers(0, 2)), 'steps': steps, 'seed': int(rng.integers(0, 2 ** 31))}


def tie_mftstate(case):
    import hcipy
    t = Tie()
    ndim, pre, alloc = case['ndim'], bool(case['pre']), bool(case['alloc'])
    rng = np.random.default_rng(case['seed'])
    if case['uniform_w']:
        xs = [np.arange(n) * 0.5 - 0.25 for n in case['n']]
        us = [np.arange(m) * 0.75 - 0.5 for m in case['m']]
    else:
        xs = [np.sort(rng.integers(-16, 17, size=n) / 8.0) + np.arange(n) * 0.125 for n in case['n']]
        us = [np.sort(rng.integers(-16, 17, size=m) / 8.0) + np.arange(m) * 0.125 for m in case['m']]
    # explicit weights (a one-sample separated axis has no spacing to derive them from): all equal -> the scalar-weights branch, else the array branch
    nin, nout = int(np.prod(case['n'])), int(np.prod(case['m']))
    wi = np.full(nin, 0.5) if case['uniform_w'] else rng.integers(1, 9, size=nin) / 4.0
    wo = np.full(nout, 0.25) if case['uniform_w'] else rng.integers(1, 9, size=nout) / 4.0
    gi = hcipy.CartesianGrid(hcipy.SeparatedCoords(xs), weights=wi)
    go = hcipy.CartesianGrid(hcipy.SeparatedCoords(us), weights=wo)
    ft = hcipy.MatrixFourierTransform(gi, go, precompute_matrices=pre, allocate_intermediate=alloc)
    mats = ('M',) if ndim == 1 else ('M1', 'M2')
    log = []          # one record per component call

    def snap():
        Ms = [getattr(ft, a, None) for a in mats]
        ia = getattr(ft, 'intermediate_array', None)
        return {'mdt': getattr(ft, 'matrices_dtype', None), 'Ms': Ms, 'idt': getattr(ft, 'intermediate_dtype', None), 'ia': ia}

    orig_compute, orig_remove = ft._compute_matrices, ft._remove_matrices

    def spy_compute(dtype):
        before = snap()
        orig_compute(dtype)
        after = snap()
        log.append({'dtype': str(np.dtype(dtype)), 'rebuilt': any(a is not b for a, b in zip(after['Ms'], before['Ms'])), 'realloc': after['ia'] is not before['ia'],
                    'use': after})

    def spy_remove():
        orig_remove()
        if log and 'left' not in log[-1]:
            log[-1]['left'] = snap()
    ft._compute_matrices, ft._remove_matrices = spy_compute, spy_remove

    def name(dt):
        return 'none' if dt is None else {'complex64': 'c64', 'complex128': 'c128'}.get(str(np.dtype(dt)), str(dt))

    def show(sn):
        ms = {name(M.dtype) if M is not None else 'none' for M in sn['Ms']}
        return '%s,%s,%s,%s' % (name(sn['mdt']), ms.pop() if len(ms) == 1 else 'mixed', name(sn['idt']), name(sn['ia'].dtype) if sn['ia'] is not None else 'none')

    ds = []
    for si, st in enumerate(case['steps']):
        src = gi if st['dir'] == 'f' else go
        shp = tuple(st['tensor']) + (src.size,)
        a = ((rng.integers(-8, 9, size=shp) + 1j * rng.integers(-8, 9, size=shp)) / 4.0).astype(st['dtype'])
        n0 = len(log)
        try:
            got = np.asarray((ft.forward if st['dir'] == 'f' else ft.backward)(hcipy.Field(a.copy(), src)))
            fresh = hcipy.MatrixFourierTransform(gi, go, precompute_matrices=True, allocate_intermediate=True)
            ref = np.asarray((fresh.forward if st['dir'] == 'f' else fresh.backward)(hcipy.Field(a.copy(), src)))
        except Exception as e:  # noqa
            t.bad.append(('tie-mftstate-raises', 'MatrixFourierTransform(precompute_matrices=%s, allocate_intermediate=%s), call %d of the history raised %s: %s' % (pre, alloc, si + 1, type(e).__name__, e)))
            return t
        T = int(np.prod(st['tensor'])) if st['tensor'] else 1
        what = 'MatrixFourierTransform(%d-D, precompute_matrices=%s, allocate_intermediate=%s), call %d (%s, %s, tensor %s) of a history on one object' % (
            ndim, pre, alloc, si + 1, 'forward' if st['dir'] == 'f' else 'backward', st['dtype'], st['tensor'])
        if len(log) - n0 != T or any('left' not in r for r in log[n0:]):
            t.bad.append(('tie-mftstate-observe', '%s: observed %d matrix preparations for %d tensor components' % (what, len(log) - n0, T)))
            return t
        # oracle (independent of the model): the result is the one of a fresh object; at use the matrices and (2-D) the buffer have the precision of the call;
        # what the switches promise: nothing kept when off, nothing rebuilt for an unchanged precision when on
        tol = 2e-4 if st['dtype'] == 'complex64' else 1e-9
        e = maxerr(got, ref)
        if got.shape != ref.shape or not e <= tol * max(float(np.abs(ref).max()), 1e-300):
            t.bad.append(('tie-mftstate-result', '%s differs from the result of a fresh object by %.3g' % (what, e)))
        for ci, r in enumerate(log[n0:]):
            use, left = r['use'], r['left']
            if any(M is None or str(M.dtype) != st['dtype'] for M in use['Ms']) or (ndim == 2 and (use['ia'] is None or str(use['ia'].dtype) != st['dtype'])):
                t.bad.append(('tie-mftstate-at-use', '%s, component %d: at use the stored matrices / intermediate array are %s' % (what, ci, show(use))))
            if (not pre and any(M is not None for M in left['Ms'])) or (pre and any(M is None for M in left['Ms'])):
                t.bad.append(('tie-mftstate-switch', '%s, component %d: after the call the matrices are %s' % (what, ci, 'kept' if not pre else 'dropped')))
            if ndim == 2 and ((not alloc and left['ia'] is not None) or (alloc and left['ia'] is None)):
                t.bad.append(('tie-mftstate-switch', '%s, component %d: after the call the intermediate array is %s' % (what, ci, 'kept' if not alloc else 'dropped')))
            prev = log[n0 + ci - 1] if n0 + ci > 0 else None
            if pre and prev is not None and prev['dtype'] == r['dtype'] and r['rebuilt']:
                t.bad.append(('tie-mftstate-switch', '%s, component %d: the precomputed matrices were rebuilt although the precision did not change' % (what, ci)))
            ds.append(0 if st['dtype'] == 'complex64' else 1)
    t.lines.append('C01 mftstate %d %d %d [%s]' % (int(pre), int(alloc), ndim, ','.join(str(d) for d in ds)))
    def usable(r):
        u = r['use']
        return int(all(M is not None and str(M.dtype) == r['dtype'] for M in u['Ms']) and (ndim != 2 or (u['ia'] is not None and str(u['ia'].dtype) == r['dtype'])))
    observed = ['%d%d/%s/%s/%d' % (int(r['rebuilt']), int(r['realloc']), show(r['use']), show(r['left']), usable(r)) for r in log]

    def check(rs):
        r = rs[0]
        if not r.startswith('ok'):
            return 'model mftstate: %s' % r
        model = r.split()[1:]
        if model != observed:
            k = next((i for i, (a, b) in enumerate(zip(model, observed)) if a != b), min(len(model), len(observed)))
            return ('MatrixFourierTransform(%d-D, precompute_matrices=%s, allocate_intermediate=%s): component call %d of the history %s — rebuilt/realloc / state at use / state left: '
                    'implementation %s, model %s' % (ndim, pre, alloc, k + 1, ds, observed[k] if k < len(observed) else None, model[k] if k < len(model) else None))
        return None
    t.check = check
    t.counts = ['tie-mftstate:%dD' % ndim, 'tie-mftstate:pre=%d,alloc=%d' % (pre, alloc), 'tie-mftstate:precision-changes=%d' % sum(1 for a, b in zip(ds, ds[1:]) if a != b)]
    t.sig = ('tie-mftstate', ndim, pre, alloc, tuple(ds))
    return t

# ---------------------------------------------------------------------------------------------
# get_fft_parameters ∘ FastFourierTransform: getFftParameters + plan (AxisReproduced, FftValuePre)  <->  the grid the re-built FFT reports

def gen_roundtrip(rng):
    ndim = int(rng.choice([1, 2, 2, 3]))
    N = [int(rng.integers(1, 41)) for _ in range(ndim)]
    q, fov = [], []
    for d in range(ndim):
        M = int(rng.integers(N[d], 4 * N[d] + 1)) if rng.integers(0, 3) else N[d]
        q.append(M / N[d])
        Mo = int(rng.integers(1, M + 1)) if rng.integers(0, 2) else M
        fov.append(1.0 if Mo == M else (Mo + 0.5) / M)
    # the requested grid: the FFT grid itself, or that grid scaled by a dyadic factor (mostly no FFT grid any more: q < 1 or q·N not an
    # integer), and/or moved by a dyadic number of turns (stays an FFT grid; exercises the reconstructed shift)
    scale = float(rng.choice([1.0, 1.0, 1.0, 1.125, 0.75, 0.5, 2.0]))
    tshift = [dy(rng, -2, 2, 4) if rng.integers(0, 3) == 0 else 0.0 for _ in range(ndim)]
    return {'family': 'tie-roundtrip', 'N': N, 'q': q, 'fov': fov, 'delta': [dy_nz(rng, 0.125, 2.0) for _ in range(ndim)], 'zero': [dy(rng, -2, 2) for _ in range(ndim)],
            'shift': [dy(rng, -1, 1) if rng.integers(0, 2) else 0.0 for _ in range(ndim)], 'scale': scale, 'tshift': tshift}


def tie_roundtrip(case):
    import hcipy
    from harness.props import c01
    t = Tie()
    ndim = len(case['N'])
    g = _reg_grid(case['delta'], case['N'], case['zero'], None)
    ft = hcipy.FastFourierTransform(g, np.array(case['q']), np.array(case['fov']), np.array(case['shift']))
    dTs = c01.reported_dT(ft, case['delta'])
    if dTs is None:
        t.bad.append(('fft-grid-inconsistent', 'reported output spacing is not 2π/(M·δ) for any integer M'))
        return t
    og = ft.output_grid
    Mos = [int(v) for v in og.dims]
    sc = Fraction(case['scale'])
    # the requested output grid, exactly: Mo points, spacing 2π·dT, zero 2π·zeroT + s
    r_dT = [dTs[d] * sc for d in range(ndim)]
    r_zT = [(-dTs[d] * (Mos[d] // 2)) * sc + Fraction(case['tshift'][d]) for d in range(ndim)]
    r_s = [Fraction(case['shift'][d]) * sc for d in range(ndim)]
    x_delta = np.array([float(TWO_PI_LD * _frac_ld(r_dT[d])) for d in range(ndim)])
    x_zero = np.array([float(TWO_PI_LD * _frac_ld(r_zT[d]) + _frac_ld(r_s[d])) for d in range(ndim)])
    # what the code sees: the floats of the FFT's own output grid, scaled / moved as a user would (grid.scaled, grid.shifted) — at scale 1 this
    # is bit-for-bit the native FFT grid (a grid one ulp away from it sits on the float decision boundary q < 1 when q = 1)
    r_delta = np.asarray(og.delta, dtype='float64') * np.ones(ndim) * case['scale']
    r_zero = np.asarray(og.zero, dtype='float64') * np.ones(ndim) * case['scale'] + 2 * np.pi * np.array(case['tshift'], dtype='float64')
    if np.abs(x_delta - r_delta).max() > 1e-12 * np.abs(r_delta).max() or np.abs(x_zero - r_zero).max() > 1e-9 * (np.abs(r_delta) * np.array(Mos) + np.abs(r_zero)).max():
        raise MachineryError('tie-roundtrip: the exact encoding of the requested grid is not the grid handed to the code')
    req = hcipy.CartesianGrid(hcipy.RegularCoords(r_delta, np.array(Mos), r_zero))
    # exact q per axis: a request with q = 1 exactly on a scaled grid is decided by the rounding of one float division
    q_exact = [1 / (Fraction(case['delta'][d]) * case['N'][d] * r_dT[d]) for d in range(ndim)]
    try:
        q2, fov2, shift2 = hcipy.fourier.get_fft_parameters(req, g)
        err = None
    except ValueError as e:
        err = str(e)
    got = None
    if err is None:
        ft2 = hcipy.FastFourierTransform(g, q2, fov2, shift2)
        o2 = ft2.output_grid
        got = ([int(v) for v in o2.dims], np.asarray(o2.delta, dtype='float64') * np.ones(ndim), np.asarray(o2.zero, dtype='float64') * np.ones(ndim))
        tol = 1e-9 * np.maximum(np.abs(r_delta) * np.array(Mos), np.abs(r_zero))
        if got[0] != Mos or np.any(np.abs(got[1] - r_delta) > 1e-9 * np.abs(r_delta)) or np.any(np.abs(got[2] - r_zero) > tol):
            t.bad.append(('tie-fftparams-roundtrip', 'FastFourierTransform(input_grid, *get_fft_parameters(grid, input_grid)).output_grid is not the grid: dims %s delta %s zero %s '
                          'for requested dims %s delta %s zero %s' % (got[0], got[1].tolist(), got[2].tolist(), Mos, r_delta.tolist(), r_zero.tolist())))
    for d in range(ndim):
        t.lines.append('C01 reproduce %d %s %d %s %s %s %s' % (case['N'][d], rat(case['delta'][d]), Mos[d], rat(r_dT[d]), rat(r_zT[d]), rat(r_s[d]), rat(case['zero'][d])))

    def check(rs):
        rejected = [d for d, r in enumerate(rs) if r == 'err value']
        for r in rs:
            if r != 'err value' and not r.startswith('ok '):
                return 'model: %s' % r
        if err is not None:
            if not rejected and case['scale'] != 1.0 and 'would be < 1' in err and any(qe == 1 for qe in q_exact):
                return 'boundary'
            return None if rejected else 'get_fft_parameters raised ValueError (%s), the model accepts every axis: %s' % (err, rs)
        if rejected:
            return 'get_fft_parameters accepted the grid (q=%s fov=%s shift=%s), the model rejects axis %s' % (q2, fov2, shift2, rejected)
        for d, r in enumerate(rs):
            good, mMo, mdT, mzT, ms = r.split()[1:]
            if good != '1':
                return 'axis %d: the model says the reconstructed parameters do not reproduce the axis / violate the constructor preconditions: %s' % (d, r)
            mdelta = float(TWO_PI_LD * _frac_ld(Fraction(mdT)))
            mzero = float(TWO_PI_LD * _frac_ld(Fraction(mzT)) + _frac_ld(Fraction(ms)))
            if int(mMo) != got[0][d] or abs(mdelta - got[1][d]) > 1e-9 * abs(mdelta) or abs(mzero - got[2][d]) > 1e-9 * max(abs(mdelta) * int(mMo), abs(mzero)):
                return 'axis %d: the FFT re-built from get_fft_parameters reports dims %d delta %r zero %r, the model\'s plan %s points delta %r zero %r' % (
                    d, got[0][d], float(got[1][d]), float(got[2][d]), mMo, mdelta, mzero)
        return None
    t.check = check
    t.counts = ['tie-roundtrip:' + ('rejected' if err is not None else 'reproduced'), 'tie-roundtrip-scale:%g' % case['scale'],
                'tie-roundtrip:%dD' % ndim] + (['tie-roundtrip:turn-shifted'] if any(case['tshift']) else [])
    t.sig = ('tie-roundtrip', tuple(case['N']), tuple(Mos), case['scale'], err is None, tuple(bool(v) for v in case['tshift']))
    return t

# ---------------------------------------------------------------------------------------------
# make_fourier_transform with the repaired detection: makeFT detectFix  <->  the class and the output grid of the object

def gen_select(rng):
    ndim = int(rng.integers(1, 4))
    in_kind = str(rng.choice(['regular', 'regular', 'separated', 'unstructured']))
    in_cart = bool(rng.integers(0, 4) != 0) or ndim != 2
    N = [int(rng.integers(2, 5)) for _ in range(ndim)]
    case = {'family': 'tie-select', 'in_kind': in_kind, 'in_cart': in_cart, 'N': N, 'delta': [dy_nz(rng, 0.25, 1.0) for _ in range(ndim)],
            'zero': [dy(rng, 0.25, 1.0) for _ in range(ndim)], 'q': float(rng.choice([1.0, 2.0])), 'fov': float(rng.choice([1.0, 0.5]))}
    if rng.integers(0, 5) == 0:
        case['out'] = None
        return case
    style = str(rng.choice(['fftnumbers', 'fftnumbers', 'regular', 'separated', 'unstructured']))
    ondim = ndim if rng.integers(0, 3) else int(rng.integers(1, 4))
    ocart = bool(rng.integers(0, 3) != 0) or ondim != 2
    case['out'] = {'style': style, 'ndim': ondim, 'cart': ocart, 'N': [int(rng.integers(2, 5)) for _ in range(ondim)],
                   'delta': [dy_nz(rng, 0.25, 1.0) for _ in range(ondim)], 'zero': [dy(rng, 0.25, 1.0) for _ in range(ondim)]}
    return case


def _mk_grid(kind, cart, delta, dims, zero):
    import hcipy
    G = hcipy.CartesianGrid if cart else hcipy.PolarGrid
    rc = hcipy.RegularCoords(np.array(delta, dtype='float64'), np.array(dims), np.array(zero, dtype='float64'))
    if kind == 'regular':
        return G(rc)
    seps = [zero[d] + delta[d] * np.arange(dims[d]) for d in range(len(dims))]
    if kind == 'separated':
        # regularly spaced separated coordinates are still "separated, not regular" for hcipy
        return G(hcipy.SeparatedCoords([np.array(s) for s in seps]))
    tmp = hcipy.CartesianGrid(hcipy.SeparatedCoords([np.array(s) for s in seps]))
    return G(hcipy.UnstructuredCoords([np.array(c) for c in tmp.coords]), weights=np.ones(tmp.size))


def _desc(g):
    kind = 'regular' if g.is_regular else ('separated' if g.is_separated else 'unstructured')
    return kind, 1 if g.is_('cartesian') else 0, int(g.ndim)


def tie_select(case):
    import hcipy
    t = Tie()
    ndim = len(case['N'])
    gi = _mk_grid(case['in_kind'], case['in_cart'], case['delta'], case['N'], case['zero'])
    o = case['out']
    num_fft = None            # None = not evaluated by the code (an earlier check decides)
    if o is None:
        go = None
    elif o['style'] == 'fftnumbers':
        base = _mk_grid('regular', True, case['delta'], case['N'], case['zero'])
        og = hcipy.make_fft_grid(base, case['q'], case['fov'])
        od, on, oz = list(og.delta), list(og.dims), list(og.zero)
        while len(od) < o['ndim']:
            od.append(od[-1]); on.append(on[-1]); oz.append(oz[-1])
        od, on, oz = od[:o['ndim']], on[:o['ndim']], oz[:o['ndim']]
        go = _mk_grid('regular', o['cart'], od, on, oz)
        num_fft = 1 if o['ndim'] == ndim else None
    else:
        go = _mk_grid(o['style'], o['cart'], o['delta'], o['N'], o['zero'])
        num_fft = 0 if (o['style'] == 'regular' and o['ndim'] == ndim) else None
    try:
        ft = hcipy.make_fourier_transform(gi, go, q=case['q'], fov=case['fov']) if go is None else hcipy.make_fourier_transform(gi, go)
        impl = (type(ft).__name__, _desc(ft.output_grid))
    except ValueError:
        ft, impl = None, 'raises'
    except Exception as e:  # noqa
        ft, impl = None, 'raises'
        t.bad.append(('tie-select-grid', 'make_fourier_transform(%s, %s) raised %s: %s' % (_desc(gi), None if go is None else _desc(go), type(e).__name__, e)))
    # oracle: the object transforms onto the grid that was requested
    if ft is not None and go is not None:
        og2 = ft.output_grid
        same = og2 is go or (og2.ndim == go.ndim and og2.size == go.size and type(og2) is type(go)
                             and np.allclose(np.array(og2.coords), np.array(go.coords), rtol=1e-12, atol=1e-12))
        if not same:
            t.bad.append(('tie-select-grid', 'make_fourier_transform(%s, %s) returned a %s onto %s instead of the requested grid' % (
                _desc(gi), _desc(go), type(ft).__name__, _desc(og2))))
    ik = '%s %d %d' % (case['in_kind'], 1 if case['in_cart'] else 0, ndim)
    variants = []
    for cheaper in (1, 0):
        if go is None:
            variants.append('C01 selectx %s none %d' % (ik, cheaper))
        else:
            dk = _desc(go)
            for nf in ([num_fft] if num_fft is not None else [1, 0]):
                variants.append('C01 selectx %s %s %d %d %d %d' % (ik, dk[0], dk[1], dk[2], nf, cheaper))
    t.lines = variants
    planner = (go is None or num_fft == 1) and ndim <= 2 and case['in_kind'] == 'regular' and case['in_cart'] and (go is None or (o['cart'] and o['ndim'] == ndim))
    method_of = {'FastFourierTransform': 'fft', 'MatrixFourierTransform': 'mft', 'NaiveFourierTransform': 'naive'}

    def check(rs):
        answers = set()
        for r in rs:
            if r == 'err value':
                answers.add('raises')
            elif r.startswith('ok '):
                mth, via, kind, cart, nd = r[3:].split(' ')
                answers.add((mth, (kind, int(cart), int(nd))))
            else:
                return 'model: ' + r
        if not planner and len(answers) != 1:
            return 'the model answer depends on the planner / on the numeric part of get_fft_parameters where the code does not consult them: %s' % sorted(map(str, answers))
        mine = 'raises' if impl == 'raises' else (method_of.get(impl[0], impl[0]), impl[1])
        if mine not in answers:
            return 'make_fourier_transform(%s, %s): implementation %s, model (makeFT detectFix) allows %s' % (
                _desc(gi), None if go is None else _desc(go), mine, sorted(map(str, answers)))
        return None
    t.check = check
    t.counts = ['tie-select:in=%s,%s' % (case['in_kind'], 'cart' if case['in_cart'] else 'polar'),
                'tie-select:out=' + ('none' if o is None else '%s,%s,%s' % (o['style'], 'cart' if o['cart'] else 'polar', 'same-ndim' if o['ndim'] == ndim else 'other-ndim')),
                'tie-select:->' + (impl if impl == 'raises' else impl[0])]
    t.sig = ('tie-select', case['in_kind'], case['in_cart'], ndim, None if o is None else (o['style'], o['cart'], o['ndim']))
    return t


# ---------------------------------------------------------------------------------------------


# ---------------------------------------------------------------------------------------------
# round 6: the decisions of FastFourierTransform.__init__ that compare floats with a fixed tolerance are scale dependent.
# Family `tie-scale`: (a) grid pairs whose coordinates are of order 2^k, k in [-40, 40], with an output shift given as a
# fraction of the output pixel (the property is scale free: the same weighted Fourier sum in any unit); (b) one very long axis
# (> 1e5 samples) zero-padded or cropped by one or two samples.  Every implementation against the defining sum.

def gen_scale(rng):
    if rng.random() < 0.12:
        N = int(rng.integers(100001, 260000))
        pad = int(rng.integers(0, 3))
        crop = int(rng.integers(0, 3)) if pad else int(rng.integers(1, 3))
        return {'family': 'tie-scale', 'style': 'long-axis', 'N': [N], 'M': [N + pad], 'Mo': [N + pad - crop], 'k': 0, 'mant': [1.0], 'zero_px': [-(N // 2) + 0.0],
                'frac': [0.0 if rng.random() < 0.5 else 0.25], 'emu': bool(rng.integers(0, 2)), 'seed': int(rng.integers(0, 2 ** 31))}
    ndim = 1 if rng.random() < 0.6 else 2
    N = [int(rng.integers(1, 10)) for _ in range(ndim)]
    M = [n if rng.random() < 0.3 else int(rng.integers(n, 3 * n + 1)) for n in N]
    Mo = [m if rng.random() < 0.5 else int(rng.integers(1, m + 1)) for m in M]
    k = int(rng.integers(-40, 41))

    def frac():
        r = rng.random()
        if r < 0.15:
            return 0.0
        if r < 0.55:
            return float((-1) ** int(rng.integers(0, 2)) * 2.0 ** (-int(rng.integers(0, 31))))       # down to 1e-9 of an output pixel
        return dy(rng, -2, 2, 4)
    return {'family': 'tie-scale', 'style': 'scale', 'N': N, 'M': M, 'Mo': Mo, 'k': k, 'mant': [dy_nz(rng, 0.5, 2.0, 3) for _ in N],
            'zero_px': [dy(rng, -float(n), 1.0, 2) for n in N], 'frac': [frac() for _ in N], 'emu': bool(rng.integers(0, 2)), 'seed': int(rng.integers(0, 2 ** 31))}


def tie_scale(case):
    import hcipy
    from harness.props import c01
    t = Tie()
    ndim = len(case['N'])
    N, M, Mo = np.array(case['N']), np.array(case['M']), np.array(case['Mo'])
    delta = np.array([m * 2.0 ** (-case['k']) for m in case['mant']])
    zero = np.array(case['zero_px']) * delta
    g = _reg_grid(delta, N, zero, None)
    q = M / N
    fov = np.where(Mo == M, 1.0, (Mo + 0.5) / M)
    du = 2 * np.pi / (M * delta)
    shift = np.array(case['frac']) * du
    long_axis = case['style'] == 'long-axis'
    t.counts = ['tie-scale:' + case['style'], 'tie-scale:coordinate-scale-2^%+03d..' % (10 * (case['k'] // 10)),
                'tie-scale:shift-' + ('zero' if not np.any(shift) else ('below-1e-8-absolute' if np.all(np.abs(shift) <= 1e-8) else 'above-1e-8-absolute'))]
    what = 'N=%s internal %s out %s, input spacing %s, output shift %s (%s output pixels)' % (case['N'], case['M'], case['Mo'], delta.tolist(), shift.tolist(), case['frac'])
    impls = []
    try:
        f0 = hcipy.FastFourierTransform(g, q, fov, shift, emulate_fftshifts=case['emu'])
        impls.append(('fft-' + ('emu' if case['emu'] else 'std'), f0))
        if list(f0.internal_shape[::-1]) != list(M) or list(f0.shape_out[::-1]) != list(Mo):
            t.counts.append('tie-scale:sizes-differ-from-request')
        og = f0.output_grid
        if not long_axis:
            impls.append(('fft-' + ('std' if case['emu'] else 'emu'), hcipy.FastFourierTransform(g, q, fov, shift, emulate_fftshifts=not case['emu'])))
            impls.append(('mft', hcipy.MatrixFourierTransform(g, og)))
            impls.append(('nft', hcipy.NaiveFourierTransform(g, og, precompute_matrices=bool(case['seed'] % 2))))
            impls.append(('zoom', hcipy.ZoomFastFourierTransform(g, og)))
            impls.append(('auto', hcipy.make_fourier_transform(g, q=q, fov=fov, shift=shift)))
    except Exception as e:  # noqa
        t.bad.append(('tie-scale-raises', 'constructing a transform for %s raised %s: %s' % (what, type(e).__name__, e)))
        return t
    rng = np.random.default_rng(case['seed'])
    x = rng.normal(size=g.size) + 1j * rng.normal(size=g.size)
    y = rng.normal(size=og.size) + 1j * rng.normal(size=og.size)
    si, fi, wi = c01.grid_desc(g)
    so, fo, wo = c01.grid_desc(og)
    wo2 = wo / (TWO_PI_LD ** ndim)
    if long_axis:
        # the defining sum at a handful of points only
        ko = np.unique(np.concatenate([[0, og.size - 1, og.size // 2], rng.integers(0, og.size, 5)]))
        ki = np.unique(np.concatenate([[0, g.size - 1, g.size // 2], rng.integers(0, g.size, 5)]))
        ref_f = np.array([np.sum(x.astype(CLD) * wi * np.exp(CLD(-1j) * (fo[0][k] * fi[0]))) for k in ko]).reshape(1, -1)
        ref_b = np.array([np.sum(y.astype(CLD) * wo2 * np.exp(CLD(1j) * (fo[0] * fi[0][j]))) for j in ki]).reshape(1, -1)
    else:
        ko, ki = slice(None), slice(None)
        ref_f = c01.ref_sum(si, fi, wi, so, fo, x.reshape(1, -1), -1, ndim)
        ref_b = c01.ref_sum(so, fo, wo, si, fi, y.reshape(1, -1), +1, ndim) / (TWO_PI_LD ** ndim)
    sc_f = max(float(np.abs(ref_f).max()), 1e-3 * float(np.sum(np.abs(x)) * np.abs(wi)), 1e-300)
    sc_b = max(float(np.abs(ref_b).max()), 1e-3 * float(np.sum(np.abs(y)) * np.abs(wo2)), 1e-300)
    tol = 1e-9 if not long_axis else 1e-8
    for name, ft in impls:
        if name == 'auto' and not c01.grids_close(ft.output_grid, og):
            t.bad.append(('tie-scale-selection-grid', 'make_fourier_transform(q, fov, shift) for %s returns an object with another output grid' % what))
            continue
        try:
            F = np.asarray(ft.forward(hcipy.Field(x.copy(), g)))
            B = np.asarray(ft.backward(hcipy.Field(y.copy(), og)))
        except Exception as e:  # noqa
            t.bad.append(('tie-scale-raises', '%s for %s raised %s: %s' % (name, what, type(e).__name__, e)))
            continue
        if F.size != og.size or B.size != g.size:
            t.bad.append(('tie-scale-shape', '%s for %s returned %d / %d samples for grids of %d / %d points' % (name, what, F.size, B.size, og.size, g.size)))
            continue
        e = maxerr(F[ko], ref_f)
        t.counts.append('tie-scale:compared-' + name)
        if not e <= tol * sc_f:
            t.bad.append(('tie-scale-forward', '%s.forward for %s differs from the defining sum over its own grids by %.3g (scale %.3g)' % (name, what, e, sc_f)))
        e = maxerr(B[ki], ref_b)
        if not e <= tol * sc_b:
            t.bad.append(('tie-scale-backward', '%s.backward for %s differs from the defining sum over its own grids by %.3g (scale %.3g)' % (name, what, e, sc_b)))
    # correspondence: the three decisions of __init__ against Model/FftDecide.lean (the repaired, exact decisions)
    obs = [ft for name, ft in impls if name == 'fft-std']
    if obs:
        ft = obs[0]
        Mi, Ni, Moi = [int(v) for v in ft.internal_shape], [int(v) for v in ft.shape_in], [int(v) for v in ft.shape_out]
        seen = (ft.shift_output is not None, ft.cutout_input is not None, ft.cutout_output is not None)
        t.lines = ['C01 decide shift %s' % rat_list([float(v) for v in shift]), 'C01 decide cutout %s %s' % (nat_list(Mi), nat_list(Ni)),
                   'C01 decide cutout %s %s' % (nat_list(Mi), nat_list(Moi))]

        def check(rs):
            for r, got, name in zip(rs, seen, ('the output-shift multiplier is applied', 'a zero-padding cut-out is used', 'a cropping cut-out is used')):
                p = r.split()
                if p[0] != 'ok':
                    return 'model: ' + r
                if (p[1] == '1') != got:
                    return '%s: implementation %r, model %s (np.allclose would give %s) for %s' % (name, got, p[1], p[2], what)
                if p[1] != p[2]:
                    t_old.append(name)
            return None
        t_old = []
        t.check = check
    t.sig = ('tie-scale', case['style'], tuple(case['N']), tuple(case['M']), tuple(case['Mo']), case['k'], tuple(case['frac']))
    return t


GEN = {'tie-mft': (gen_mft, tie_mft), 'tie-czt': (gen_czt, tie_czt), 'tie-zoom': (gen_zoom, tie_zoom), 'tie-zoomaxes': (gen_zoomaxes, tie_zoomaxes),
       'tie-state': (gen_state, tie_state), 'tie-lit': (gen_lit, tie_lit), 'tie-select': (gen_select, tie_select),
       'tie-roundtrip': (gen_roundtrip, tie_roundtrip), 'tie-fftw': (gen_fftw, tie_fftw), 'tie-nft': (gen_nft, tie_nft), 'tie-mux': (gen_mux, tie_mux), 'tie-mftstate': (gen_mftstate, tie_mftstate), 'tie-scale': (gen_scale, tie_scale)}

DIRECTED = [
    {'family': 'tie-mftstate', 'ndim': 2, 'pre': True, 'alloc': True, 'n': [3, 2], 'm': [2, 3], 'uniform_w': True, 'seed': 1,
     'steps': [{'dir': 'f', 'dtype': 'complex128', 'tensor': []}, {'dir': 'b', 'dtype': 'complex64', 'tensor': [2]}, {'dir': 'f', 'dtype': 'complex64', 'tensor': []},
               {'dir': 'b', 'dtype': 'complex128', 'tensor': [2, 2]}]},
    {'family': 'tie-mftstate', 'ndim': 2, 'pre': True, 'alloc': False, 'n': [2, 2], 'm': [3, 1], 'uniform_w': False, 'seed': 2,
     'steps': [{'dir': 'b', 'dtype': 'complex64', 'tensor': []}, {'dir': 'f', 'dtype': 'complex128', 'tensor': [3]}, {'dir': 'f', 'dtype': 'complex64', 'tensor': []}]},
    {'family': 'tie-mftstate', 'ndim': 1, 'pre': False, 'alloc': True, 'n': [4], 'm': [3], 'uniform_w': False, 'seed': 3,
     'steps': [{'dir': 'f', 'dtype': 'complex64', 'tensor': [2]}, {'dir': 'b', 'dtype': 'complex128', 'tensor': []}]},
    {'family': 'tie-mux', 'x': [[-0.5, 0.25, 1.0]], 'u': [[-1.0, 0.5]], 'w_in': [0.5, 0.25, 1.0], 'w_out': [1.0, 0.5], 'tensor': [2, 1, 3], 't': 5, 'j': 1, 'k': 0, 'seed': 1},
    {'family': 'tie-mux', 'x': [[-0.5, 0.25], [0.0, 1.5]], 'u': [[-1.0, 0.5, 2.0], [0.25, 0.0, -0.75]], 'w_in': [0.5, 0.25], 'w_out': [1.0, 0.5, 0.125], 'tensor': [3], 't': 2, 'j': 0, 'k': 2, 'seed': 2},
    {'family': 'tie-zoomaxes', 'r': 1, 'ndim': 2, 'dir': 'fwd', 'seed': 1},        # D5: tensor field on a 2-D grid
    {'family': 'tie-zoomaxes', 'r': 0, 'ndim': 3, 'dir': 'fwd', 'seed': 2},        # D5: 3-D grid
    {'family': 'tie-zoomaxes', 'r': 2, 'ndim': 4, 'dir': 'bwd', 'seed': 3},
    {'family': 'tie-zoom', 'n': [4, 4], 'm': [3, 3], 'x0': [-0.75, -0.75], 'dx': [0.5, 0.5], 'u0': [6.5, -1.0], 'du': [1.0, 1.0], 'in_w': None, 'out_w': None,
     'j': 6, 'k': 5, 'square': True},      # square window centred off-axis along x only (the (7.5, 0) class)
    {'family': 'tie-zoom', 'n': [4, 4], 'm': [4, 4], 'x0': [-0.75, -0.45], 'dx': [0.5, 0.5], 'u0': [-1.5, -1.5], 'du': [1.0, 1.0], 'in_w': None, 'out_w': None,
     'j': 9, 'k': 2, 'square': True},      # input grid shifted along y only (make_pupil_grid(4).shifted([0, 0.3]))
    {'family': 'tie-zoom', 'n': [3, 3, 3], 'm': [2, 2, 2], 'x0': [-0.5, 0.25, -0.5], 'dx': [0.5, 0.5, 0.5], 'u0': [0.0, 0.0, 2.5], 'du': [0.75, 0.75, 0.75],
     'in_w': None, 'out_w': None, 'j': 14, 'k': 5, 'square': True},
    {'family': 'tie-czt', 'n': 5, 'm': 7, 'omega': 3.5, 'alpha': -4.25, 'j': 3},   # |ω| > π: numpy's principal branch of w**(k²/2) is not ω
    {'family': 'tie-czt', 'n': 1, 'm': 1, 'omega': 0.5, 'alpha': 0.25, 'j': 0},
    {'family': 'tie-state', 'N': 3, 'q': 2.0, 'fov': 1.0, 'delta': 0.5, 'zero': -0.5, 'emu': False, 'dir': 'fwd', 'seed': 4},
    {'family': 'tie-state', 'N': 4, 'q': 1.0, 'fov': 0.625, 'delta': 0.5, 'zero': -1.0, 'emu': True, 'dir': 'bwd', 'seed': 5},
    {'family': 'tie-select', 'in_kind': 'regular', 'in_cart': True, 'N': [4, 3], 'delta': [0.5, 0.25], 'zero': [0.5, 0.25], 'q': 2.0, 'fov': 0.5,
     'out': {'style': 'fftnumbers', 'ndim': 2, 'cart': False, 'N': [2, 2], 'delta': [0.5, 0.5], 'zero': [0.5, 0.5]}},     # D63 polar
    {'family': 'tie-select', 'in_kind': 'regular', 'in_cart': True, 'N': [4, 3], 'delta': [0.5, 0.25], 'zero': [0.5, 0.25], 'q': 1.0, 'fov': 1.0,
     'out': {'style': 'fftnumbers', 'ndim': 1, 'cart': True, 'N': [2], 'delta': [0.5], 'zero': [0.5]}},                   # D63 ndim
]


def run_case(case):
    return GEN[case['family']][1](case)


def run_ties(ctx, counts):
    """counts: {family: number of generated cases}"""
    cases = [dict(c) for c in DIRECTED]
    for fam, n in counts.items():
        for _ in range(n):
            cases.append(GEN[fam][0](ctx.rng))
    lines, checks = [], []
    for case in cases:
        try:
            t = run_case(case)
        except MachineryError:
            raise
        except Exception as e:  # noqa
            ctx.violation(case['family'] + '-raises', '%s case raised %s: %s' % (case['family'], type(e).__name__, e), case)
            continue
        for key, what in t.bad:
            ctx.violation(key, what, case)
        for c in t.counts:
            ctx.count(c)
        ctx.count('tie-cases:' + case['family'])
        ctx.case(None, t.sig)
        if t.check is not None:
            checks.append((len(lines), len(t.lines), t.check, case))
            lines += t.lines
    out = ctx.model(lines)
    for start, cnt, chk, case in checks:
        detail = chk(out[start:start + cnt])
        ctx.traces_validated += 1
        if detail == 'boundary':
            ctx.boundary_skipped += 1
            ctx.count('tie-boundary:' + case['family'])
        elif detail is not None:
            ctx.disagree('C01 ' + case['family'], {'case': case, 'detail': detail})


def replay_case(ctx, case):
    t = run_case(case)
    ok = True
    for key, what in t.bad:
        print('  fails:', key, '-', what)
        ok = False
    if t.check is not None:
        detail = t.check(ctx.model(t.lines))
        if detail is not None and detail != 'boundary':
            print('  model/implementation:', detail)
            ok = False
    return ok
