"""C01/C02 round 6 — family `tie-multi`: interleaved call sequences across SEVERAL LIVE transform objects.

The object-re-use histories of the main generator drive one object at a time; the property, however, quantifies over
every history in which an object is used — including histories in which OTHER objects (of the same class with the same
zero-padded shape, with another `q`/`fov`/`shift`/`emulate_fftshifts`, or of another class) are used in between.

A case is a small population of 2-4 objects that are all alive for the whole case (FastFourierTransform in every
`emulate_fftshifts` setting, MatrixFourierTransform, NaiveFourierTransform, ZoomFastFourierTransform, FourierFilter),
most of them built so that their zero-padded internal shapes coincide (`N=M, q=1` next to `N=M/2, q=2` next to an odd
`N` with a non-integer `q`), and a history of 4-10 calls `(object, forward|backward|roundtrip, field)`.

Oracle (nothing but numpy between two calls — no other transform is built or called while the history runs, because that
is itself an event of the history):
 after EVERY call the result is compared with the defining weighted Fourier sum over the object's own grids (C01), a
 forward result on a full pair satisfies Parseval / on a cropped pair does not gain energy, the round trip returns the
 input, and the latest forward and backward of the same object are adjoint (C02); after the history every call is
 repeated on a brand-new object (`multi-fresh`).

Correspondence: `C01 multi` runs the history on the model's population of objects with PER-OBJECT internal arrays
(`Model/FftMulti.lean`, theorem `multi_object_history_independent`) on unit impulses; the FFT cores of the real calls
are compared with it.
"""
import numpy as np

from harness.props import c01
from harness.props.c01_ties import Tie, eval_psums, maxerr, dy, dy_nz, _reg_grid, nat_list, LD, CLD

CLASSES = ['fft', 'fft', 'fft', 'fft', 'fft', 'mft', 'nft', 'zoom', 'filter', 'filter']


def _gen_obj(rng, Ms, cls=None):
    cls = str(rng.choice(CLASSES)) if cls is None else cls
    Ns, q = [], []
    for M in Ms:
        style = int(rng.integers(0, 4))
        N = M if style == 0 else (M // 2 if style == 1 and M % 2 == 0 else int(rng.integers(1, M + 1)))
        Ns.append(N)
        q.append(M / N)
    if rng.random() < 0.5:
        Mo = list(Ms)
    else:
        Mo = [int(rng.integers(1, M + 1)) for M in Ms]
    fov = [1.0 if mo == M else (mo + 0.5) / M for mo, M in zip(Mo, Ms)]
    shift = [0.0 for _ in Ms] if rng.random() < 0.5 else [dy(rng, -2, 2, 4) for _ in Ms]
    emu = [True, True, False, None][int(rng.integers(0, 4))]
    return {'cls': cls, 'N': Ns, 'q': q, 'fov': fov, 'shift': shift, 'emu': emu, 'delta': [dy_nz(rng, 0.125, 2.0, 3) for _ in Ms],
            'zero': [dy(rng, -2, 2, 3) for _ in Ms], 'seed': int(rng.integers(0, 2 ** 31)),
            'pre': bool(rng.random() < 0.7), 'alloc': bool(rng.random() < 0.5)}       # MFT/NFT switches: state kept between calls


def gen_multi(rng):
    ndim = 1 if rng.random() < 0.6 else 2
    pool = [2, 3, 4, 6, 8, 9, 12, 16] if ndim == 1 else [2, 3, 4, 6, 8]

    def draw():
        return [int(rng.choice(pool)) for _ in range(ndim)]
    Ms = draw()
    nobj = int(rng.integers(2, 5))
    share = rng.random() < 0.75
    # class mix: a population of one class (every class, so that two live MFTs / filters / ZoomFFTs meet), or a mixed one around an FFT
    one_class = str(rng.choice(['fft', 'mft', 'nft', 'zoom', 'filter'])) if rng.random() < 0.4 else None
    objs = []
    for i in range(nobj):
        o = _gen_obj(rng, Ms if (share or i == 0 or rng.random() < 0.5) else draw(), one_class if one_class else ('fft' if i == 0 else None))
        if i > 0 and rng.random() < 0.35:
            # the same array shapes as object 0 on another grid (other spacing, origin, shift, switches): N, q, fov copied
            for k in ('N', 'q', 'fov'):
                o[k] = list(objs[0][k])
            if all(v == 0 for v in o['shift']) and rng.random() < 0.5:
                o['shift'] = [dy(rng, -2, 2, 4) for _ in Ms]
        objs.append(o)
    if rng.random() < 0.3:
        # the same descriptor twice: two live objects that differ in nothing but identity (and the emulate flag)
        o = dict(objs[0])
        o['emu'] = [True, True, False, None][int(rng.integers(0, 4))]
        objs[1] = o
    calls = []
    for _ in range(int(rng.integers(4, 11))):
        oi = int(rng.integers(0, nobj))
        r = rng.random()
        d = 'f' if r < 0.5 else ('b' if r < 0.9 else 'r')
        kind = str(rng.choice(['random', 'random', 'impulse', 'edge']))
        tensor = [2] if (objs[oi]['cls'] in ('fft', 'mft', 'nft') and rng.random() < 0.15) else []
        calls.append({'obj': oi, 'dir': d, 'kind': kind, 'tensor': tensor, 'seed': int(rng.integers(0, 2 ** 31))})
    return {'family': 'tie-multi', 'objs': objs, 'calls': calls, 'dtype': 'complex64' if rng.random() < 0.12 else 'complex128'}


def _obj(N, q, fov=1.0, shift=0.0, emu=True, cls='fft', delta=1.0, zero=None, seed=1):
    N = list(N)
    return {'cls': cls, 'N': N, 'q': [float(q)] * len(N) if np.isscalar(q) else list(q), 'fov': [float(fov)] * len(N), 'shift': [float(shift)] * len(N), 'emu': emu,
            'delta': [delta] * len(N), 'zero': [(-delta * (n // 2)) if zero is None else zero for n in N], 'seed': seed}


def _calls(spec):
    return [{'obj': o, 'dir': d, 'kind': k, 'tensor': [], 'seed': 100 + i} for i, (o, d, k) in enumerate(spec)]


# generic interleavings of two objects (forward / other object's call / forward again, and the mirrored backward ones)
_ABA = [(0, 'f', 'random'), (1, 'b', 'random'), (0, 'f', 'random'), (0, 'b', 'random'), (1, 'f', 'random'), (0, 'b', 'edge'), (0, 'f', 'edge'), (1, 'f', 'random'),
        (0, 'f', 'impulse'), (0, 'r', 'random')]
DIRECTED = [
    {'family': 'tie-multi', 'dtype': 'complex128', 'objs': [_obj([8, 8], 2), _obj([8, 8], 2)], 'calls': _calls(_ABA)},
    {'family': 'tie-multi', 'dtype': 'complex128', 'objs': [_obj([8, 8], 2), _obj([16, 16], 1, delta=0.5)], 'calls': _calls(_ABA)},
    {'family': 'tie-multi', 'dtype': 'complex128', 'objs': [_obj([11], 3, shift=0.25, delta=1.5), _obj([11], 3, delta=1.5)], 'calls': _calls(_ABA)},
    {'family': 'tie-multi', 'dtype': 'complex128', 'objs': [_obj([8, 8], 2, fov=0.78125), _obj([8, 8], 2, fov=0.78125), _obj([8, 8], 2, cls='filter')], 'calls': _calls(
        _ABA + [(2, 'f', 'random'), (0, 'f', 'random'), (2, 'b', 'random'), (1, 'f', 'edge'), (0, 'f', 'edge')])},
    {'family': 'tie-multi', 'dtype': 'complex128', 'objs': [_obj([6], 2, emu=False), _obj([6], 2, emu=True), _obj([6], 2, cls='mft'), _obj([6], 2, cls='zoom')], 'calls': _calls(
        [(0, 'f', 'random'), (1, 'b', 'random'), (0, 'f', 'random'), (2, 'f', 'random'), (1, 'f', 'random'), (3, 'b', 'random'), (1, 'f', 'edge'), (3, 'f', 'random'), (2, 'b', 'random')])},
]


class _Live:
    """one live object of the population: the transform, its grids and how to call it"""

    def __init__(self, d, dtype):
        import hcipy
        self.d = d
        self.cls = d['cls']
        self.in_grid = _reg_grid(d['delta'], d['N'], d['zero'], None)
        q, fov, shift = np.array(d['q']), np.array(d['fov']), np.array(d['shift'])
        self.internal_shape = None
        self.D = None
        if self.cls == 'fft':
            self.ft = hcipy.FastFourierTransform(self.in_grid, q, fov, shift, emulate_fftshifts=d['emu'])
            self.out_grid = self.ft.output_grid
            self.internal_shape = tuple(int(m) for m in self.ft.internal_shape)
        elif self.cls == 'filter':
            probe_grid = hcipy.make_fft_grid(self.in_grid, q)
            r = np.random.default_rng(d['seed'])
            tf = (r.normal(size=probe_grid.size) + 1j * r.normal(size=probe_grid.size)).astype(dtype)
            self.ft = hcipy.FourierFilter(self.in_grid, hcipy.Field(tf.copy(), probe_grid), q)
            self.out_grid = self.in_grid
            self.internal_shape = tuple(int(m) for m in probe_grid.shape)
            self.D = np.fft.ifftshift(tf.astype('complex128').reshape(self.internal_shape))
        else:
            self.out_grid = hcipy.make_fft_grid(self.in_grid, q, fov, shift)
            if self.cls == 'mft':
                self.ft = hcipy.MatrixFourierTransform(self.in_grid, self.out_grid, precompute_matrices=bool(d.get('pre', d['seed'] % 2)), allocate_intermediate=bool(d.get('alloc', (d['seed'] // 2) % 2)))
            elif self.cls == 'nft':
                self.ft = hcipy.NaiveFourierTransform(self.in_grid, self.out_grid, precompute_matrices=bool(d.get('pre', d['seed'] % 2)))
            else:
                self.ft = hcipy.ZoomFastFourierTransform(self.in_grid, self.out_grid)
        self.full = self.cls != 'filter' and self.out_grid.size == int(np.prod([int(np.round(qq * n)) for qq, n in zip(d['q'], d['N'])]))
        self.ndim = len(d['N'])
        self.desc_in = c01.grid_desc(self.in_grid)
        self.desc_out = c01.grid_desc(self.out_grid)

    def name(self):
        d = self.d
        return '%s(N=%s, q=%s, fov=%s, shift=%s%s)' % (self.cls, d['N'], [round(v, 4) for v in d['q']], [round(v, 4) for v in d['fov']], d['shift'],
                                                      ', emulate_fftshifts=%r' % d['emu'] if self.cls == 'fft' else '')

    def call(self, direction, a):
        import hcipy
        if direction == 'f':
            return np.asarray(self.ft.forward(hcipy.Field(a.copy(), self.in_grid)))
        return np.asarray(self.ft.backward(hcipy.Field(a.copy(), self.out_grid)))

    def reference(self, direction, a):
        """the defining sum (transforms) / crop(ifftn(D fftn(pad x))) (filter), independent of hcipy's transforms"""
        T = int(np.prod(a.shape[:-1])) if a.ndim > 1 else 1
        v = a.reshape(T, -1)
        if self.cls == 'filter':
            from harness.props import c02
            Ns = tuple(int(n) for n in self.in_grid.shape)
            X = v.astype('complex128').reshape((T,) + Ns)
            return np.stack([c02._filter_reference('scalar', self.D, X[t], direction == 'b', Ns, self.internal_shape).reshape(-1) for t in range(T)]), None
        si, fi, wi = self.desc_in
        so, fo, wo = self.desc_out
        if direction == 'f':
            ref = c01.ref_sum(si, fi, wi, so, fo, v, -1, self.ndim)
            return ref, c01.ref_scale(ref, v, wi)
        ref = c01.ref_sum(so, fo, wo, si, fi, v, +1, self.ndim) / (c01.TWO_PI_LD ** self.ndim)
        return ref, c01.ref_scale(ref, v, wo / (c01.TWO_PI_LD ** self.ndim))


def _field(call, grid, shape_dims, dtype):
    shape = tuple(call['tensor']) + (grid.size,)
    r = np.random.default_rng(call['seed'])
    if call['kind'] == 'impulse':
        a = np.zeros(shape, dtype='complex128')
        a[..., int(r.integers(0, grid.size))] = 1.0
    else:
        a = r.normal(size=shape) + 1j * r.normal(size=shape)
        if call['kind'] == 'edge':
            m = np.zeros(grid.size)
            m[[0, -1]] = 1.0
            a = a * m
    return a.astype(dtype)


def _inner(a, b, w):
    return complex(np.sum(np.conj(a.astype(CLD)) * b.astype(CLD) * w))


def tie_multi(case):
    t = Tie()
    dtype = case['dtype']
    tol = c01.tol_for(dtype)
    try:
        live = [_Live(d, dtype) for d in case['objs']]
    except Exception as e:  # noqa
        t.bad.append(('multi-raises', 'constructing the population raised %s: %s' % (type(e).__name__, e)))
        return t
    shapes = [o.internal_shape for o in live if o.internal_shape is not None]
    shared = len(shapes) - len(set(shapes))
    t.counts = ['multi:objects-%d' % len(live), 'multi:classes-' + '+'.join(sorted(set(o.cls for o in live))),
                'multi:internal-shape-' + ('shared' if shared else 'all-different')]
    if len(set((tuple(o.d['q']), o.internal_shape) for o in live if o.cls == 'fft')) > len(set(o.internal_shape for o in live if o.cls == 'fft')):
        t.counts.append('multi:same-shape-different-q')
    for c in sorted(set(o.cls for o in live)):
        same = [o for o in live if o.cls == c]
        if len(same) > 1:
            t.counts.append('multi:two-live-' + c)
            if len(set((tuple(o.in_grid.shape), tuple(o.out_grid.shape)) for o in same)) < len(same) and len(set((tuple(o.d['delta']), tuple(o.d['zero']), tuple(o.d['shift'])) for o in same)) > 1:
                t.counts.append('multi:two-live-%s-same-shapes-other-grid' % c)
                if c in ('mft', 'nft') and sum(1 for o in same if o.d.get('pre')) > 1:
                    t.counts.append('multi:two-live-%s-same-shapes-other-grid-both-precomputed' % c)
    if len(set(o.d['emu'] for o in live if o.cls == 'fft')) > 1:
        t.counts.append('multi:emulate-flags-mixed')
    last = [{} for _ in live]
    record = []
    hist = []
    prev_f = {}
    for ci, call in enumerate(case['calls']):
        o = live[call['obj']]
        d = call['dir']
        if d == 'r' and not o.full:
            d = 'f'
        src = o.in_grid if d in ('f', 'r') else o.out_grid
        a = _field(call, src, None, dtype)
        where = 'call %d: %s of object %d %s after [%s]' % (ci + 1, {'f': 'forward', 'b': 'backward', 'r': 'backward(forward(.))'}[d], call['obj'], o.name(), ', '.join(hist))
        try:
            if d == 'r':
                res = o.call('b', o.call('f', a))
            else:
                res = o.call(d, a)
        except Exception as e:  # noqa
            t.bad.append(('multi-raises', '%s raised %s: %s' % (where, type(e).__name__, e)))
            break
        # the interleaving pattern of this call: same object forward twice with ANOTHER object's call in between
        if d == 'f':
            if call['obj'] in prev_f and any(h != call['obj'] for h in prev_f[call['obj']]):
                t.counts.append('multi:forward-other-object-forward')
                if any(live[h].internal_shape == o.internal_shape for h in prev_f[call['obj']] if h != call['obj']):
                    t.counts.append('multi:forward-same-shape-object-forward')
            prev_f[call['obj']] = []
        for k in prev_f:
            if not (d == 'f' and k == call['obj']):
                prev_f[k].append(call['obj'])
        hist.append('%d.%s' % (call['obj'], d))
        T = int(np.prod(call['tensor'])) if call['tensor'] else 1
        av = a.reshape(T, -1)
        if res.size != (av.size if d == 'r' or o.cls == 'filter' else T * (o.out_grid.size if d == 'f' else o.in_grid.size)):
            t.bad.append(('multi-shape', '%s returned %d samples' % (where, res.size)))
            break
        rv = res.reshape(T, -1)
        record.append((call, d, a, rv))
        t.counts.append('multi:clause-' + {'f': 'forward', 'b': 'backward', 'r': 'roundtrip'}[d])
        if d == 'r':
            err = maxerr(rv, av)
            if not err <= tol * max(float(np.abs(av).max()), 1e-300):
                t.bad.append(('multi-roundtrip', '%s differs from the input by %.3g' % (where, err)))
            continue
        # C01: the defining sum
        ref, scale = o.reference(d, a)
        if scale is None:
            scale = max(float(np.abs(ref).max()), 1e-300)
        err = maxerr(rv, ref)
        if not err <= tol * scale:
            t.bad.append(('multi-' + ('forward' if d == 'f' else 'backward'), '%s differs from %s by %.3g (scale %.3g)' % (
                where, 'the defining weighted Fourier sum' if o.cls != 'filter' else 'crop(ifftn(D fftn(pad x)))', err, scale)))
        # C02: energy clauses on a forward result
        if d == 'f' and o.cls != 'filter':
            w_in = o.in_grid.weights
            w_out = o.out_grid.weights / float((2 * np.pi) ** o.ndim)
            e_in = float(np.sum(np.abs(av.astype(CLD)) ** 2 * w_in))
            e_out = float(np.sum(np.abs(rv.astype(CLD)) ** 2 * w_out))
            if o.full:
                t.counts.append('multi:clause-parseval')
                if not abs(e_out - e_in) <= tol * max(e_in, 1e-300):
                    t.bad.append(('multi-parseval', '%s: output energy %r, input energy %r on a full FFT grid pair' % (where, e_out, e_in)))
            else:
                t.counts.append('multi:clause-cropped-energy')
                if not e_out <= e_in + tol * max(e_in, 1e-300):
                    t.bad.append(('multi-cropped-energy', '%s: output energy %r exceeds input energy %r on a cropped FFT grid' % (where, e_out, e_in)))
        # C02: the latest forward and the latest backward of this object are adjoint
        last[call['obj']][d] = (av, rv, ci + 1)
        lf, lb = last[call['obj']].get('f'), last[call['obj']].get('b')
        if lf is not None and lb is not None and lf[0].shape[0] == lb[0].shape[0]:
            if o.cls == 'filter':
                w_in, w_out = 1.0, 1.0
            else:
                w_in, w_out = o.in_grid.weights, o.out_grid.weights / float((2 * np.pi) ** o.ndim)
            x, Fx, cf = lf
            y, By, cb = lb
            lhs = _inner(y, Fx, w_out)
            rhs = _inner(By, x, w_in)
            sc = max(float(np.sum(np.abs(y) * np.abs(Fx) * w_out)), float(np.sum(np.abs(By) * np.abs(x) * w_in)), 1e-300)
            t.counts.append('multi:clause-adjoint')
            if not abs(lhs - rhs) <= tol * sc:
                t.bad.append(('multi-adjoint', '%s: <y, F x>_out = %r (forward of call %d) but <B y, x>_in = %r (backward of call %d), scale %.3g' % (where, lhs, cf, rhs, cb, sc)))
    # after the history: every call on a brand-new object (built, used once, dropped)
    for call, d, a, rv in record:
        try:
            fresh = _Live(case['objs'][call['obj']], dtype)
            res = fresh.call('b', fresh.call('f', a)) if d == 'r' else fresh.call(d, a)
            del fresh
        except Exception as e:  # noqa
            t.bad.append(('multi-raises', 'a fresh copy of object %d raised %s: %s' % (call['obj'], type(e).__name__, e)))
            break
        err = maxerr(res, rv)
        t.counts.append('multi:clause-fresh')
        if not err <= (1e-12 if dtype == 'complex128' else 1e-5) * max(float(np.abs(res).max()), 1e-300):
            t.bad.append(('multi-fresh', '%s of object %d %s inside the history [%s] differs from the same call on a fresh object by %.3g' % (
                {'f': 'forward', 'b': 'backward', 'r': 'roundtrip'}[d], call['obj'], live[call['obj']].name(), ', '.join(hist), err)))
    try:
        _model_pass(case, t)
    except Exception as e:  # noqa  (a fault while observing the implementation is a broken correspondence)
        t.lines = ['C01 multi [0,1,1,1] [] 0']
        t.check = lambda rs, e=e: 'observing the FFT cores of the population raised %s: %s' % (type(e).__name__, e)
    t.sig = ('tie-multi', tuple((o.cls, tuple(o.d['N']), o.internal_shape, o.d['emu']) for o in live), tuple(hist))
    return t


def _model_pass(case, t):
    """correspondence: the FastFourierTransform objects of a 1-D population, their internal arrays poisoned with a garbage
    value, driven through the same interleaving on unit impulses; the FFT core of every call (multipliers divided out)
    against `runOwn` of the model (per-object arrays)."""
    idx = [i for i, d in enumerate(case['objs']) if d['cls'] == 'fft' and len(d['N']) == 1]
    if not idx:
        return
    live = {i: _Live(case['objs'][i], 'complex128') for i in idx}
    g = 0.75
    cfg = []
    for i in idx:
        ft = live[i].ft
        ft.internal_array[:] = g
        cfg += [0 if ft.emulate_fftshifts else 1, int(ft.shape_in[0]), int(ft.internal_shape[0]), int(ft.shape_out[0])]
    calls, cores = [], []
    for call in case['calls']:
        if call['obj'] not in live:
            continue
        o = live[call['obj']]
        ft = o.ft
        N, M, Mo = int(ft.shape_in[0]), int(ft.internal_shape[0]), int(ft.shape_out[0])
        back = call['dir'] == 'b'
        nsrc = Mo if back else N
        j = int(call['seed'] % nsrc)
        imp = np.zeros(nsrc, dtype='complex128')
        imp[j] = 1.0
        res = o.call('b' if back else 'f', imp).astype(CLD)
        si = np.asarray(ft.shift_input).reshape(-1)
        so = np.ones(N, dtype='complex128') if ft.shift_output is None else np.ones(N) * np.asarray(ft.shift_output).reshape(-1)
        cores.append(res * so * si[j] * M if back else res / si / so[j])
        calls += [idx.index(call['obj']), 1 if back else 0, j]
    if not cores:
        return
    t.lines = ['C01 multi %s %s 3/4' % (nat_list(cfg), nat_list(calls)), 'C01 multipool %s %s 3/4' % (nat_list(cfg), nat_list(calls))]
    t.counts.append('multi:model-populations')

    def check(rs):
        r = rs[0]
        if not r.startswith('ok '):
            return 'model: ' + r
        parts = r[3:].split('|')
        if len(parts) != len(cores):
            return 'model answered %d calls for a history of %d' % (len(parts), len(cores))
        for ci, (p, c) in enumerate(zip(parts, cores)):
            mv = eval_psums('ok ' + p)
            e = maxerr(mv, c)
            if not e <= 1e-9 * max(float(np.abs(mv).max()), 1e-300):
                return 'FFT core of call %d of the population history %s (objects %s, arrays poisoned) differs from the per-object-array model runOwn by %.3g' % (
                    ci + 1, calls, cfg, e)
        # the defect-class model (arrays pooled by padded size + skip-clearing flags) on the same history: does this history tell the two apart?
        if len(rs) > 1 and rs[1].startswith('ok ') and rs[1] != r:
            return 'ok-discriminates'
        return None
    t.check = check
