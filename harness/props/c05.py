"""C05 — optical elements are history-independent: caching is transparent.

Real-code driver + oracle + correspondence with the Lean model of the instance cache
(lean/HcipyVerif/Model/Cache.lean).

* Oracle (independent of the model): after every propagation through the *shared* element the
  result is compared with what a freshly constructed element (same current parameters) returns for
  that wavefront alone; after every public setter (found by introspection) the next propagation
  must equal a fresh element built with the new value.
* Correspondence: after every step the real `_instance_data_cache` (keys mapped to small ids,
  values mapped to creation-order identities) and `_num_in_cache` are compared with the model
  state, as are the instance handed out (identity, key, parameter version).
* Fourier objects owned by the instances (FFT / MFT / naive / zoom / filter): random call
  histories with alternating precisions and tensor shapes on one shared object against fresh
  objects; the MFT's `matrices_dtype` memo state is compared with the model's memo cell.
"""
import json
import numpy as np

from harness.common import MachineryError

NEAR_EPS = [0.0, 1e-12, 1e-10, 1e-8, 3e-8, 1e-7, 1e-6, 1e-4, 1e-3]      # relative differences of nearly equal grids
WLS = [1.0, 1.000001, 0.5, 2.25, 0.75]          # relative distance >= 1e-6
SENTINEL = '__unset__'
# elements that also work on unstructured (rotated), reversed and separated grids
ANY_GRID = ('Apodizer', 'PhaseApodizer', 'SurfaceApodizer', 'Magnifier', 'JonesMatrixOpticalElement', 'PhaseRetarder',
            'LinearRetarder', 'LinearPolarizer', 'TiltElement')


def model_pair(a, b):
    """`Cache.pair` of the model (Model/Cache.lean): the id `gridKey` gives the grid (coordinate id, weights id)."""
    return b * b + a if a < b else a * a + a + b


def wl_key(wl):
    return int(np.round(np.log(wl) / np.log(1 + 1e-9)))


# ---------------------------------------------------------------------------------------------
# registry of agnostic elements

class Spec:
    def __init__(self, name, build, values, fwd, bwd, grid_dep=True, post=(), pol=(0,), dtypes=('complex128',),
                 skip=None, lens=False, both=True, proto=False, exclusive_post=False, wl_dep=True, any_grid=False):
        self.name = name
        self.build = build            # dict name -> value  ->  element
        self.values = values          # name -> list of candidate values (index 0 = constructed with)
        self.fwd = fwd                # grids for forward requests
        self.bwd = bwd                # grids for backward requests
        self.grid_dep = grid_dep      # declared dependencies (used when the private flags cannot be read)
        self.wl_dep = wl_dep
        self.any_grid = any_grid      # works on unstructured / reversed / separated grids too
        self.post = set(post)         # setter names that are not constructor arguments
        self.pol = pol                # allowed polarisation states of the test wavefronts
        self.dtypes = dtypes
        self.skip = skip or {}        # setter name -> reason it is not exercised
        self.lens = lens
        self.both = both
        self.proto = proto            # constructor is random: fresh elements are copies of one never-used prototype
        self._proto = None
        self.exclusive_post = exclusive_post   # a post setter is overwritten by the constructor-argument setters
        self.attr_only = set()        # plain public attributes the registered build does not pass to the constructor
        self.nreg = {n: len(v) for n, v in values.items()}     # values beyond nreg[n] are kind-lifted variants
        self.ok = None                # name -> indices a fresh element accepts (probed once per run)

    def make(self, params, over=None):
        """`over`: name -> object handed over instead of the registered value (a caller-owned mutable object)."""
        over = over or {}
        vals = {n: (over[n] if n in over else self.values[n][i]) for n, i in params.items()
                if n not in self.post and n not in self.attr_only}
        if self.proto:
            # (copy.deepcopy of an agnostic element fails: __getattr__ answers '__deepcopy__')
            if self._proto is None:
                self._proto = self.build(vals)
            el = type(self._proto).__new__(type(self._proto))
            el.__dict__ = dict(self._proto.__dict__)
            el.clear_cache()
        else:
            el = self.build(vals)
        for n in self.post:
            if n in over:
                setattr(el, n, over[n])
            elif params.get(n, 0) != 0:
                setattr(el, n, self.values[n][params[n]])
        for n in self.attr_only:
            # a public attribute that is not a constructor argument of the registered build: assigned before first use
            if params.get(n, 0) != 0:
                setattr(el, n, self.values[n][params[n]])
        return el


def public_setters(el):
    names = []
    for klass in type(el).__mro__:
        for n, a in vars(klass).items():
            if isinstance(a, property) and not n.startswith('_') and n not in names:
                if getattr(type(el), n).fset is not None:
                    names.append(n)
    return names


def plain_parameters(el):
    """Constructor arguments kept as plain public attributes (no property): changing one is `el.name = v` followed by the
    documented `clear_cache()` ("should be called if agnostic data ... was changed by the user")."""
    import inspect
    try:
        ps = [q for q in inspect.signature(type(el).__init__).parameters if q != 'self']
    except (TypeError, ValueError):
        return []
    return [q for q in ps if q in vars(el) and not q.startswith('_') and not isinstance(getattr(type(el), q, None), property)]


def value_kind(v):
    """The kind of a parameter value as `evaluate_parameter` and the elements' own `callable()` / `isinstance` tests see it."""
    import inspect
    if isinstance(v, str):
        return 'unset'
    if v is None:
        return 'none'
    if callable(v):
        try:
            return 'callable(%s)' % ','.join(inspect.signature(v).parameters)
        except (TypeError, ValueError):
            return 'callable(?)'
    if isinstance(v, (list, tuple)) or (isinstance(v, np.ndarray) and v.ndim > 0):
        return 'array'
    return 'scalar'


def lift_values(spec):
    """For every parameter with a scalar value: the same parameter as a callable of the wavelength, of the grid and of both
    (kinds the registry lacks are appended after the registered values; a probe decides per run which ones the element accepts)."""
    import hcipy as hp
    for n, vals in spec.values.items():
        if n in spec.skip:
            continue
        kinds = set(value_kind(v) for v in vals)
        base = [v for v in vals if value_kind(v) == 'scalar' and not isinstance(v, (bool, np.bool_))]
        if not base:
            continue
        c = base[0]
        for f, k in zip(_lifts(hp, c), ('callable(wavelength)', 'callable(grid)', 'callable(grid,wavelength)')):
            if k not in kinds:
                vals.append(f)


def _lifts(hp, c):
    def w_lift(wavelength):
        return c * np.float64(0.75 + 0.25 * wavelength)

    def g_lift(grid):
        return hp.Field(c * (1 + 0.125 * grid.x), grid)

    def gw_lift(grid, wavelength):
        return hp.Field(c * (1 + 0.125 * grid.x / wavelength), grid)
    return w_lift, g_lift, gw_lift


def materialise(spec, n, idx, grid):
    """Value `idx` of parameter `n` as a caller-owned *mutable* object (0-d array for a scalar, a copy of an array, the Field a
    callable of the grid gives on `grid`), or None.  Returns (object, needs_grid)."""
    v = spec.values[n][idx]
    k = value_kind(v)
    if k == 'scalar' and not isinstance(v, (bool, np.bool_)):
        return np.array(v), False
    if k == 'array':
        return np.array(v, copy=True), False
    if k == 'callable(grid)':
        r = v(grid)
        return (r.copy(), True) if isinstance(r, np.ndarray) and r.ndim > 0 else (None, False)
    return None, False


def edit_in_place(obj, new):
    """The caller overwrites his object; False if the new content does not fit (other shape / would lose a complex part)."""
    new = np.asarray(new)
    if obj.shape != new.shape or not np.can_cast(new.dtype, obj.dtype, casting='safe'):
        return False
    obj[...] = new
    return True


def live_copy(obj):
    return obj.copy()


_SPECS = None


def specs():
    global _SPECS
    if _SPECS is not None:
        return _SPECS
    import hcipy as hp
    Field = hp.Field
    P = [hp.make_pupil_grid(8, 1.0), hp.make_pupil_grid(8, 1.5), hp.make_pupil_grid(6, 1.0),
         hp.make_pupil_grid(8, 1.0).shifted([0.25, -0.125]), hp.make_pupil_grid(10, 2.0),
         hp.make_pupil_grid(12, 1.0), hp.make_pupil_grid(4, 0.5)]
    PN = P + [hp.make_pupil_grid([6, 10], [1.0, 1.5])]
    F = [hp.make_focal_grid(2, 2), hp.make_focal_grid(2, 3), hp.make_focal_grid(3, 2),
         hp.make_focal_grid(2, 2).shifted([0.125, 0.0]), hp.make_focal_grid(4, 1.5)]

    def g_amp(grid):
        return Field(np.exp(-(grid.x**2 + grid.y**2)) * np.exp(0.5j * grid.x), grid)

    def g_amp2(grid):
        return Field(1.0 / (1.0 + grid.x**2) + 0.25j * grid.y, grid)

    def gw_amp(grid, wavelength):
        return Field(np.exp(1j * grid.x / wavelength) * (1 + 0.25 * grid.y), grid)

    def w_scalar(wavelength):
        # (a NumPy scalar: Apodizer.backward calls .conj(), which plain Python numbers lack)
        return np.float64(0.5 + 0.25 * wavelength)

    def g_phase(grid):
        return Field(2.0 * grid.x + grid.y**2, grid)

    def gw_phase(grid, wavelength):
        return Field(grid.y / wavelength, grid)

    def g_sag(grid):
        return Field(0.125 * (grid.x**2 + 0.5 * grid.y), grid)

    def g_sag2(grid):
        return Field(0.25 * grid.x * grid.y, grid)

    def w_index(wavelength):
        return 1.5 + 0.125 * wavelength

    def w_index2(wavelength):
        return 1.25 + 0.5 / wavelength

    def w_mag(wavelength):
        return 1.0 + 0.25 * wavelength

    def g_angle(grid):
        return Field(0.5 * grid.x - 0.25 * grid.y, grid)

    def w_ret(wavelength):
        return 1.5 / wavelength

    def g_jones(grid):
        one = np.ones(grid.size)
        return Field(np.array([[one, 0.5j * grid.x], [0.25 * grid.y, one * (1 - 0.5j)]]), grid)

    def profile(grid):
        return np.cos(2 * np.pi * grid.x) + 0.5 * np.sin(2 * np.pi * grid.y)

    J0 = np.array([[1.0, 0.5j], [0.25, 1 - 0.5j]])
    cplx = ('complex128', 'complex64')
    S = []
    S.append(Spec('FraunhoferPropagator',
                  lambda v: hp.FraunhoferPropagator(P[0], F[0], v['focal_length']),
                  {'focal_length': [1.0, 2.0, 0.5, w_scalar]}, PN + F, PN + F, pol=(0, 1, 2), dtypes=cplx, lens=True))
    S.append(Spec('FresnelPropagator',
                  lambda v: hp.FresnelPropagator(P[0], v['distance'], v['num_oversampling'], v['zero_padding'], v['refractive_index']),
                  {'distance': [0.5, 0.03125, 2.0], 'num_oversampling': [2, 1, 3], 'zero_padding': [2, 1, 3],
                   'refractive_index': [1, 1.5, w_index]}, P, P, pol=(0, 1, 2), dtypes=cplx))
    S.append(Spec('AngularSpectrumPropagator',
                  lambda v: hp.AngularSpectrumPropagator(P[0], v['distance'], v['num_oversampling'], v['refractive_index']),
                  {'distance': [0.5, 0.03125, 2.0], 'num_oversampling': [2, 1, 3], 'refractive_index': [1, 1.5, w_index]},
                  P, P, pol=(0, 1, 2), dtypes=cplx))
    S.append(Spec('Apodizer', lambda v: hp.Apodizer(v['apodization']),
                  {'apodization': [g_amp, g_amp2, gw_amp, w_scalar, np.complex128(0.5 + 0.25j)]}, PN, PN, pol=(0, 1, 2), dtypes=cplx))
    S.append(Spec('PhaseApodizer', lambda v: hp.PhaseApodizer(v['phase']),
                  {'phase': [g_phase, gw_phase, 0.75, w_scalar]}, PN, PN,
                  skip={'apodization': 'derived read-only view of phase; Apodizer.apodization setter is shadowed state'}))
    S.append(Spec('SurfaceApodizer', lambda v: hp.SurfaceApodizer(v['surface_sag'], v['refractive_index']),
                  {'surface_sag': [g_sag, g_sag2, 0.25], 'refractive_index': [1.5, w_index, w_index2]}, PN, PN,
                  skip={'apodization': 'derived'}))
    S.append(Spec('ThinLens', lambda v: hp.ThinLens(v['focal_length'], v['refractive_index'], 1.0),
                  {'focal_length': [2.0, 4.0, -1.5], 'refractive_index': [w_index, w_index2], 'surface_sag': [SENTINEL, g_sag]},
                  P, P, post=('surface_sag',), exclusive_post=True, skip={'apodization': 'derived'}))
    S.append(Spec('TiltElement', lambda v: hp.TiltElement(v['angle'], v['orientation'], v['refractive_index']),
                  {'angle': [0.25, 0.5], 'orientation': [0, 0.75], 'refractive_index': [2.0, w_index],
                   'surface_sag': [SENTINEL, g_sag]}, P, P, post=('surface_sag',), exclusive_post=True, skip={'apodization': 'derived'}))
    S.append(Spec('ThinPrism', lambda v: hp.ThinPrism(v['angle'], v['refractive_index'], v['orientation']),
                  {'angle': [0.25, 0.5], 'orientation': [0, 0.75], 'refractive_index': [w_index, w_index2],
                   'surface_sag': [SENTINEL, g_sag]}, P, P, post=('surface_sag',), exclusive_post=True, skip={'apodization': 'derived'}))
    S.append(Spec('Prism', lambda v: hp.Prism(0.25, v['prism_angle'], v['refractive_index'], v['orientation']),
                  {'prism_angle': [0.5, 0.375], 'orientation': [0, 0.75], 'refractive_index': [w_index, w_index2],
                   'surface_sag': [SENTINEL, g_sag]}, P, P, post=('surface_sag',), exclusive_post=True, skip={'apodization': 'derived'}))
    S.append(Spec('PhaseGrating', lambda v: hp.PhaseGrating(v['period'], v['amplitude'], profile, v['orientation']),
                  {'period': [0.5, 0.25], 'amplitude': [0.75, 1.5], 'orientation': [0, 0.5], 'phase': [SENTINEL, g_phase]},
                  P, P, post=('phase',), exclusive_post=True, skip={'apodization': 'derived'}))
    S.append(Spec('SurfaceAberration', lambda v: hp.SurfaceAberration(P[0], 0.25, 1.0),
                  {'refractive_index': [SENTINEL, 1.5, w_index], 'surface_sag': [SENTINEL, g_sag]}, P[:1] + [P[3]], P[:1] + [P[3]],
                  post=('surface_sag', 'refractive_index'), skip={'apodization': 'derived'}, proto=True))
    S.append(Spec('Magnifier', lambda v: hp.Magnifier(v['magnification']),
                  {'magnification': [2.0, 0.5, w_mag, np.array([2.0, 0.5])]}, PN, PN, grid_dep=False,
                  pol=(0, 1, 2), dtypes=cplx))
    S.append(Spec('JonesMatrixOpticalElement', lambda v: hp.JonesMatrixOpticalElement(v['jones_matrix']),
                  {'jones_matrix': [g_jones, '__J0__', '__w_jones__', '__gw_jones__']}, PN, PN, pol=(0, 1, 2), dtypes=cplx))
    S.append(Spec('JonesMatrixOpticalElement-const', lambda v: hp.JonesMatrixOpticalElement(v['jones_matrix']),
                  {'jones_matrix': [J0]}, PN, PN, pol=(0, 1, 2)))
    ret_skip = {'jones_matrix': 'setter is a deliberate no-op (derived quantity)'}
    S.append(Spec('PhaseRetarder', lambda v: hp.PhaseRetarder(v['phase_retardation'], v['fast_axis_orientation'], v['circularity']),
                  {'phase_retardation': [1.0, w_ret, 2.5], 'fast_axis_orientation': [g_angle, 0.5], 'circularity': [0.25, 0.75, g_angle]},
                  PN, PN, pol=(0, 1, 2), skip=ret_skip))
    S.append(Spec('LinearRetarder', lambda v: hp.LinearRetarder(v['phase_retardation'], v['fast_axis_orientation']),
                  {'phase_retardation': [1.0, w_ret], 'fast_axis_orientation': [0.5, g_angle], 'circularity': [SENTINEL, 0.75]},
                  PN, PN, pol=(0, 1, 2), post=('circularity',), skip=ret_skip))
    S.append(Spec('CircularRetarder', lambda v: hp.CircularRetarder(v['phase_retardation']),
                  {'phase_retardation': [1.0, w_ret], 'fast_axis_orientation': [SENTINEL, 0.5], 'circularity': [SENTINEL, 0.75]},
                  P, P, pol=(0, 1, 2), post=('circularity', 'fast_axis_orientation'), skip=ret_skip))
    S.append(Spec('QuarterWavePlate', lambda v: hp.QuarterWavePlate(v['fast_axis_orientation']),
                  {'fast_axis_orientation': [0.5, g_angle], 'phase_retardation': [SENTINEL, 1.0], 'circularity': [SENTINEL, 0.75]},
                  P, P, pol=(0, 1, 2), post=('circularity', 'phase_retardation'), skip=ret_skip))
    S.append(Spec('HalfWavePlate', lambda v: hp.HalfWavePlate(v['fast_axis_orientation']),
                  {'fast_axis_orientation': [g_angle, 0.5], 'phase_retardation': [SENTINEL, 1.0], 'circularity': [SENTINEL, 0.75]},
                  P, P, pol=(0, 1, 2), post=('circularity', 'phase_retardation'), skip=ret_skip))
    S.append(Spec('GeometricPhaseElement', lambda v: hp.GeometricPhaseElement(0.75, None, v['retardance_offset']),
                  {'retardance_offset': [0.25], 'fast_axis_orientation': [SENTINEL, g_angle], 'phase_retardation': [SENTINEL, 1.0],
                   'circularity': [SENTINEL, 0.75]}, P, P, pol=(0, 1, 2),
                  post=('circularity', 'phase_retardation', 'fast_axis_orientation'), skip=ret_skip))
    S.append(Spec('VectorApodizingPhasePlate', lambda v: hp.VectorApodizingPhasePlate(0.75, v['leakage'], 0),
                  {'leakage': [0.25], 'fast_axis_orientation': [SENTINEL, g_angle], 'phase_retardation': [SENTINEL, 1.0],
                   'circularity': [SENTINEL, 0.75]}, P, P, pol=(0, 1, 2),
                  post=('circularity', 'phase_retardation', 'fast_axis_orientation'), skip=ret_skip))
    S.append(Spec('LinearPolarizer', lambda v: hp.LinearPolarizer(v['polarization_angle']),
                  {'polarization_angle': [0.5, w_ret, 1.25]}, PN, PN, pol=(0, 1, 2), skip=ret_skip))
    S.append(Spec('StepIndexFiber', lambda v: hp.StepIndexFiber(v['core_radius'], v['NA'], v['fiber_length'], v['position']),
                  {'core_radius': [0.5, 0.75], 'NA': [0.5, 0.75], 'position': [[0.0, 0.0], [0.125, -0.0625]],
                   'fiber_length': [1.0, 2.0, 0.5]},
                  P, P, grid_dep=None, skip={'numerical_aperture': 'alias of NA (same property object)'}))
    S.append(Spec('VectorVortexCoronagraph',
                  lambda v: hp.VectorVortexCoronagraph(v['charge'], None, v['phase_retardation'], q=8, scaling_factor=4, window_size=8),
                  {'phase_retardation': [np.pi, '__w_ret2__', 2.0], 'charge': [2, 4]},
                  [P[0], P[1], P[3], P[4]], [P[0], P[1], P[3], P[4]], pol=(0, 1, 2), dtypes=cplx))
    # parameters that have no public setter, given as callables of the wavelength / of grid and wavelength at construction
    def w_ret2(wavelength):
        return np.pi * 0.75 / wavelength

    def gw_jones(grid, wavelength):
        one = np.ones(grid.size)
        return Field(np.array([[one, 0.5j * grid.x / wavelength], [0.25 * grid.y * wavelength, one * (1 - 0.5j)]]), grid)

    def w_jones(wavelength):
        return np.array([[1.0, 0.5j / wavelength], [0.25 * wavelength, 1 - 0.5j]])
    S.append(Spec('VectorVortexCoronagraph-chromatic',
                  lambda v: hp.VectorVortexCoronagraph(2, None, v['phase_retardation'], q=8, scaling_factor=4, window_size=8),
                  {'phase_retardation': [w_ret2]}, [P[0], P[1], P[3], P[4]], [P[0], P[1], P[3], P[4]], pol=(0, 1, 2), dtypes=cplx))
    S.append(Spec('JonesMatrixOpticalElement-chromatic', lambda v: hp.JonesMatrixOpticalElement(v['jones_matrix']),
                  {'jones_matrix': [gw_jones]}, PN, PN, pol=(0, 1, 2), dtypes=cplx))
    S.append(Spec('JonesMatrixOpticalElement-chromatic-const', lambda v: hp.JonesMatrixOpticalElement(v['jones_matrix']),
                  {'jones_matrix': [w_jones]}, PN, PN, pol=(0, 1, 2)))
    late = {'__J0__': J0, '__w_jones__': w_jones, '__gw_jones__': gw_jones, '__w_ret2__': w_ret2}
    for sp in S:
        for n in sp.values:
            sp.values[n] = [late.get(v, v) if isinstance(v, str) else v for v in sp.values[n]]
        lift_values(sp)
        if sp.name.split('-')[0] in ANY_GRID:
            sp.any_grid = True
        if [id(g) for g in sp.fwd] != [id(g) for g in sp.bwd]:
            raise MachineryError('forward and backward pools of %s differ' % sp.name)
    _SPECS = S
    return S


def spec_by_name(name):
    for s in specs():
        if s.name == name:
            return s
    raise MachineryError('unknown element spec %r' % name)


def uncovered_classes():
    import hcipy as hp
    subs = set()

    def rec(c):
        for s in c.__subclasses__():
            if s.__module__.startswith('hcipy.'):
                subs.add(s.__name__)
            rec(s)
    rec(hp.AgnosticOpticalElement)
    have = set(s.name.split('-')[0] for s in specs())
    return sorted(subs - have)


# ---------------------------------------------------------------------------------------------
# running one history on the real code

def read_flags(el):
    """(grid_dependent, wavelength_dependent) as the element stores them.  (`AgnosticOpticalElement.__getattr__` answers any
    unknown name with a function, so a renamed private field does not raise: the value must be a boolean.)"""
    g, w = el._grid_dependent, el._wavelength_dependent
    if not isinstance(g, (bool, np.bool_)) or not isinstance(w, (bool, np.bool_)):
        raise ValueError('_grid_dependent/_wavelength_dependent are not booleans: %r, %r' % (type(g).__name__, type(w).__name__))
    return bool(g), bool(w)


def make_wavefront(grid, wl, dtype, pol, seed):
    import hcipy as hp
    r = np.random.default_rng(seed)
    shape = {0: (grid.size,), 1: (2, grid.size), 2: (2, 2, grid.size)}[int(pol)]
    arr = (r.integers(-8, 9, size=shape) / 8.0 + 1j * r.integers(-8, 9, size=shape) / 8.0).astype(dtype)
    if int(pol) == 2:
        return hp.Wavefront(hp.Field(arr, grid), wl, input_stokes_vector=(1, 0.5, -0.25, 0.125))
    return hp.Wavefront(hp.Field(arr, grid), wl)


def tol_for(dtype):
    return 2e-4 if dtype == 'complex64' else 1e-9


def compare_wavefronts(a, b, tol):
    """None if equal, else a short description."""
    if type(a) is not type(b):
        return 'result types differ: %s vs %s' % (type(a).__name__, type(b).__name__)
    if not hasattr(a, 'electric_field'):
        return compare_values(a, b, tol)
    ea, eb = np.asarray(a.electric_field), np.asarray(b.electric_field)
    if ea.shape != eb.shape:
        return 'shapes differ: %s vs %s' % (ea.shape, eb.shape)
    if hash(a.electric_field.grid) != hash(b.electric_field.grid):
        return 'output grids differ'
    dw = weights_differ(a.electric_field.grid, b.electric_field.grid)
    if dw:
        return dw
    if a.wavelength != b.wavelength:
        return 'wavelengths differ'
    scale = max(1.0, float(np.max(np.abs(eb))) if eb.size else 1.0)
    if not np.all(np.isfinite(ea) == np.isfinite(eb)):
        return 'finite patterns differ'
    err = float(np.max(np.abs(np.nan_to_num(ea) - np.nan_to_num(eb)))) if eb.size else 0.0
    if err > tol * scale:
        return 'electric field differs: max abs error %.3g (scale %.3g)' % (err, scale)
    return None


def compare_values(a, b, tol):
    if a is None or b is None:
        return None if a is b else 'None vs value'
    import hcipy as hp
    if isinstance(a, hp.Grid) or isinstance(b, hp.Grid):
        if not (isinstance(a, hp.Grid) and isinstance(b, hp.Grid) and hash(a) == hash(b)):
            return 'grids differ'
        return weights_differ(a, b)
    try:
        xa, xb = np.asarray(a), np.asarray(b)
    except Exception:
        return None
    if xa.dtype == object or xb.dtype == object:
        return None
    if xa.shape != xb.shape:
        return 'shapes differ: %s vs %s' % (xa.shape, xb.shape)
    if xa.size == 0:
        return None
    scale = max(1.0, float(np.max(np.abs(xb))))
    err = float(np.max(np.abs(xa - xb)))
    if err > tol * scale:
        return 'values differ by %.3g' % err
    return None


def compare_instances(a, b, grid_dep):
    import hcipy as hp
    for n in sorted(set(a.__dict__) | set(b.__dict__)):
        if not grid_dep and n in ('input_grid', 'output_grid'):
            continue
        if n not in a.__dict__ or n not in b.__dict__:
            return 'instance attribute %s present on one side only' % n
        va, vb = a.__dict__[n], b.__dict__[n]
        if isinstance(va, (list, tuple)) and isinstance(vb, (list, tuple)):
            if len(va) != len(vb):
                return 'instance attribute %s: lengths differ' % n
            pairs = zip(va, vb)
        else:
            pairs = [(va, vb)]
        for x, y in pairs:
            if isinstance(x, (int, float, complex, np.ndarray, np.generic, hp.Grid)) or x is None:
                d = compare_values(x, y, 1e-9)
                if d:
                    return 'instance attribute %s: %s' % (n, d)
    return None


def owned_fourier(obj, depth=0, seen=None):
    """The Fourier objects an instance owns: reachable through attributes, lists, dicts and the cached instances of
    nested agnostic elements (VectorVortexCoronagraph owns propagators that own Fourier transforms)."""
    import hcipy as hp
    if seen is None:
        seen = set()
    out = []
    if obj is None or depth > 6 or id(obj) in seen or isinstance(obj, (np.ndarray, np.generic, hp.Grid, str, bytes, int, float, complex)):
        return out
    seen.add(id(obj))
    if isinstance(obj, (list, tuple)):
        for x in obj:
            out += owned_fourier(x, depth + 1, seen)
        return out
    if isinstance(obj, dict):
        for x in obj.values():
            out += owned_fourier(x, depth + 1, seen)
        return out
    mod = getattr(type(obj), '__module__', '') or ''
    if not mod.startswith('hcipy.'):
        return out
    if mod.startswith('hcipy.fourier'):
        out.append(obj)
    for x in list(getattr(obj, '__dict__', {}).values()):
        out += owned_fourier(x, depth + 1, seen)
    return out


def near_grid(g, kind, eps):
    """A grid that differs from the regular grid `g` by a relative `eps` in its spacing ('delta'), its
    origin ('zero') or one single coordinate ('coord', separated coordinates); eps = 0: an equal copy."""
    import hcipy as hp
    ext = float(np.max(np.abs(np.asarray(g.delta) * np.asarray(g.dims))))
    if kind == 'delta':
        return g.scaled(1.0 + eps)
    if kind == 'zero':
        return g.shifted(np.array([eps * ext, 0.0]))
    if kind == 'coord':
        sc = [np.array(c, dtype=float).copy() for c in g.separated_coords]
        sc[0][1] += eps * ext
        return hp.CartesianGrid(hp.SeparatedCoords(sc))
    if kind == 'weights':
        # equal coordinates (the grids compare and hash equal), other weights: `eps` names the variant
        b = g.copy()
        b.weights = weights_variant(g, int(eps))
        return b
    raise MachineryError('unknown near-grid kind %r' % (kind,))


WEIGHT_VARIANTS = [1, 2, 3, 4, 5]


def weights_variant(g, variant):
    """Explicit weights for a grid with the coordinates of `g`: 1 = ones per point ("count pixels"), 2 = a scalar twice
    the automatic cell area, 3 = a smooth per-point variation of the cell area, 4 = the automatic weights written out as
    an explicit array (another representation of the same weights), 5 = half the cell area per point."""
    auto = np.asarray(g.copy().weights, dtype=float)
    if variant == 1:
        return np.ones(g.size)
    if variant == 2:
        return np.float64(np.mean(auto) * 2.0)      # (a plain Python float makes MatrixFourierTransform raise: .astype)
    if variant == 3:
        ext = float(np.max(np.abs(g.x))) or 1.0
        return (auto * np.ones(g.size)) * (1.0 + 0.5 * np.asarray(g.x) / ext)
    if variant == 4:
        return auto * np.ones(g.size)
    if variant == 5:
        return 0.5 * auto * np.ones(g.size)
    raise MachineryError('unknown weights variant %r' % (variant,))


def weights_digest(grid):
    """What distinguishes two grids with equal coordinates: their weights (shape and values)."""
    w = np.ascontiguousarray(grid.weights, dtype=float) + 0.0
    return (w.shape, w.tobytes())


def weights_differ(a, b):
    """None if the weights of two grids of equal size describe the same cell areas, else a description."""
    wa = np.asarray(a.weights, dtype=float) * np.ones(a.size)
    wb = np.asarray(b.weights, dtype=float) * np.ones(b.size)
    if wa.shape != wb.shape:
        return 'weights of the output grids have different shapes'
    scale = max(float(np.max(np.abs(wb))), 1e-300)
    err = float(np.max(np.abs(wa - wb)))
    if err > 1e-9 * scale:
        return 'weights of the output grids differ: max abs error %.3g (scale %.3g)' % (err, scale)
    return None


class Hist:
    """Executes a case on the real code; collects oracle failures and the model conversation."""

    def __init__(self, spec, case):
        self.spec = spec
        self.case = case
        self.params = {n: 0 for n in spec.values}
        # private copies of the grids: histories may mutate them in place
        self.pool = [g.copy() for g in spec.fwd]
        for base, kind, eps in case.get('near', []):
            self.pool.append(near_grid(spec.fwd[int(base)], kind, float(eps)))
        self.state_issues = []   # internal state that could not be read / interpreted (broken correspondence)
        self.bad = []            # (key, what, step)
        self.elem = None
        self.handed = []
        self.grid_dep = bool(spec.grid_dep) if spec.grid_dep is not None else True
        self.wl_dep = bool(spec.wl_dep)
        self.maxN = int(case['maxN']) if case.get('maxN') else 11
        self.live = {}           # parameter name -> the caller-owned mutable object the shared element was given
        for n, idx in case.get('init', []):
            # the shared element is *constructed* with another registered value (what __init__ decides once must not outlive a setter)
            self.params[n] = int(idx)
        for n, idx in case.get('live0', []):
            # the element is *constructed* with a caller-owned mutable object
            obj, _ = materialise(spec, n, int(idx), self.pool[0])
            if obj is None or n in spec.post:
                raise MachineryError('live0: value %s of %s.%s cannot be handed over as a mutable object' % (idx, spec.name, n))
            self.live[n] = obj
            self.params[n] = int(idx)
        try:
            self.elem = spec.make(self.params, self.live)
        except Exception as e:
            self.bad.append(('raises %s %s' % (type(e).__name__, spec.name.split('-')[0]),
                             'constructing the element raised %r' % (e,), 0))
        if self.elem is not None:
            # private flags, read from outside; fall back to the declared ones
            try:
                self.grid_dep, self.wl_dep = read_flags(self.elem)
            except Exception as e:
                self.state_issue('cannot read _grid_dependent/_wavelength_dependent: %r' % (e,))
            try:
                if case.get('maxN'):
                    self.elem._max_in_cache = int(case['maxN'])
                self.maxN = int(self.elem._max_in_cache)
            except Exception as e:
                self.state_issue('cannot read/set _max_in_cache: %r' % (e,))
            try:
                orig = self.elem.get_instance_data

                def rec(i, o, w):
                    r = orig(i, o, w)
                    self.handed.append(r)
                    return r
                self.elem.get_instance_data = rec
            except Exception as e:
                self.state_issue('cannot wrap get_instance_data: %r' % (e,))
        self.gid = {}            # (coordinate id, weights id) -> model grid id
        self.cid = {}            # hash(grid) -> coordinate id
        self.wgt = {}            # weights digest -> weights id
        self.kid = {}            # key part the code uses for a grid -> (coordinate id, weights id)
        self.key_unreadable = False
        self.wid = {wl_key(w): k for k, w in enumerate(WLS)}
        if len(self.wid) != len(WLS):
            raise MachineryError('wavelength keys collide')
        self.insts = []          # instance objects in order of first appearance
        self.stamp = []          # number of setters seen when the instance first appeared
        self.nsets = 0
        self.lines = ['C05 new %d %d %d' % (self.grid_dep, self.wl_dep, self.maxN)]
        self.expect = [None]     # per line: None or dict of real observations
        # histories of the setter classes go through the model's parameter-value layer (`pstep`): what each instance handed out
        # was built from (object identity, content, kind of the value at the version the real instance first appeared)
        self.pmode = case.get('style') in ('setter-kind', 'setter-same-object', 'attribute-kind', 'each-attribute', 'each-setter')
        self.pobj = {}           # id of a value object -> small number
        self.pvals = []          # one value per parameter version
        if self.pmode:
            n0 = case['ops'] and next((op[1] for op in case['ops'] if op[0] in ('set', 'setm', 'setsame', 'attr')), None)
            self.pname = n0
            v0 = self.live[n0] if n0 in self.live else (spec.values[n0][self.params[n0]] if n0 else None)
            self.pvals.append(self.pval(v0, self.params.get(n0, 0)))
            self.lines.append('C05 pnew %d %d %d' % self.pvals[0])
            self.expect.append(None)
        self.counts = {}
        self.pending_setter = None
        self.pending_how = 'set'
        self.cell_prev = {}      # instance index -> the transfer-function object its FourierFilter held after its last use
        self.fourier_seen = {}   # id of an owned Fourier object -> [type name, precisions it was used with, the object]

    def pval(self, obj, idx):
        kinds = {'callable(grid)': 1, 'callable(wavelength)': 2, 'callable(grid,wavelength)': 3}
        name = self.pname
        kind = kinds.get(value_kind(self.spec.values[name][idx]) if name else 'scalar', 0)
        return (self.pobj.setdefault(id(obj), len(self.pobj)), int(idx), kind)

    def count(self, k):
        self.counts[k] = self.counts.get(k, 0) + 1

    def state_issue(self, msg):
        self.state_issues.append(msg)

    def grid_ids(self, grid):
        """(coordinate id, weights id) of a grid: what `==`/`hash` see and what they ignore."""
        hc = hash(grid)
        if hc not in self.cid:
            self.cid[hc] = len(self.cid) + 1
        hw = weights_digest(grid)
        if hw not in self.wgt:
            self.wgt[hw] = len(self.wgt) + 1
        ids = (self.cid[hc], self.wgt[hw])
        if ids not in self.gid:
            self.gid[ids] = model_pair(*ids)
            if len([1 for x in self.gid if x[0] == ids[0]]) > 1:
                self.count('grid-equal-coordinates-other-weights')
            self.learn_key_part(grid, ids)
        return ids

    def learn_key_part(self, grid, ids):
        """Which key part the code under test uses for this grid (observed through `_get_cache_keys`; falls back to
        `hash(grid)` when that cannot be read).  Two different grids under one key part: the key does not cover what
        distinguishes them -- recorded, the oracle decides whether results are wrong."""
        if not self.grid_dep:
            return
        kp = None
        try:
            ks = self.elem._get_cache_keys(grid, None, WLS[0] if self.wl_dep else None)
            k = ks[0]
            if not isinstance(k, tuple) or len(k) != 3 or k[0] is None or k[1] is not None:
                raise ValueError('unexpected forward key %r' % (k,))
            kp = k[0]
            hash(kp)
        except Exception as e:
            if not self.key_unreadable:
                self.state_issue('cannot read the key part of a grid through _get_cache_keys: %r' % (e,))
            self.key_unreadable = True
            kp = hash(grid)
        if kp in self.kid and self.kid[kp] != ids:
            a = self.kid[kp]
            what = 'weights' if a[0] == ids[0] else 'coordinates'
            self.state_issue('the cache key does not distinguish grid %d.%d from grid %d.%d (they differ in their %s)'
                             % (a + ids + (what,)))
            self.count('key-collision:' + what)
            return
        self.kid[kp] = ids

    def G(self, grid):
        """The id under which the model's cache sees the grid (`gridKey`), as printed in keys and cache contents."""
        if grid is None:
            return '-'
        return str(self.gid[self.grid_ids(grid)])

    def Gq(self, grid):
        """A grid as argument of a model request: `<coordinate id>.<weights id>`."""
        if grid is None:
            return '-'
        return '%d.%d' % self.grid_ids(grid)

    def gname(self, h):
        try:
            return '-' if h is None else (str(self.gid[self.kid[h]]) if h in self.kid else '?')
        except TypeError:
            return '?'

    def wname(self, k):
        try:
            return '-' if k is None else str(self.wid.get(k, '?'))
        except TypeError:
            return '?'

    def inst_id(self, v):
        for k, x in enumerate(self.insts):
            if x is v:
                return k
        self.insts.append(v)
        self.stamp.append(self.nsets)
        return len(self.insts) - 1

    def real_state(self):
        """The private cache as the model prints it; {} (plus a recorded state issue) when it cannot be
        read or has a shape the model does not know."""
        el = self.elem
        out = {}
        try:
            out['num'] = str(int(el._num_in_cache))
        except Exception as e:
            self.state_issue('cannot read _num_in_cache: %r' % (e,))
        try:
            ent = []
            for k, v in el._instance_data_cache.items():
                if not isinstance(k, tuple) or len(k) != 3:
                    raise ValueError('cache key %r is not an (input, output, wavelength) triple' % (k,))
                ent.append('%s,%s,%s:%d' % (self.gname(k[0]), self.gname(k[1]), self.wname(k[2]), self.inst_id(v)))
            out['cache'] = ';'.join(ent)
        except Exception as e:
            self.state_issue('cannot interpret _instance_data_cache: %r' % (e,))
        return out

    def request_line(self, gi, go, wl, fresh):
        try:
            return self._request_line(gi, go, wl, fresh)
        except Exception as e:
            self.state_issue('cannot resolve the grids of a request on a fresh element: %r' % (e,))
            return None

    def _request_line(self, gi, go, wl, fresh):
        a = str(self.wid[wl_key(wl)])
        ri, ro = '-', '-'
        ii = gi
        if gi is None and go is not None:
            ii = fresh.get_input_grid(go, wl)
            ri = self.Gq(ii)
        if go is None and ii is not None:
            ro = self.Gq(fresh.get_output_grid(ii, wl))
        return 'C05 req %s %s %s %s %s' % (self.Gq(gi), self.Gq(go), a, ri, ro)

    def observe(self, line, status, nhanded0, dt=None):
        obs = {'status': status}
        if line is None:
            return
        if status == 'ok' and len(self.handed) > nhanded0:
            v = self.handed[nhanded0]
            obs['id'] = str(self.inst_id(v))
            obs['ver'] = str(self.stamp[self.inst_id(v)])
            try:
                wk = self.wname(wl_key(v.wavelength)) if self.wl_dep else '-'
                if self.grid_dep:
                    obs['key'] = '%s,%s,%s' % (self.G(v.input_grid), self.G(v.output_grid), wk)
                else:
                    obs['key'] = '-,-,%s' % wk
            except Exception as e:
                self.state_issue('cannot interpret the instance handed out: %r' % (e,))
        if status == 'ok':
            obs.update(self.real_state())
        if status == 'ok' and dt is not None and len(self.handed) > nhanded0 and 'key' in obs:
            # instances that own a memo cell (the FourierFilter of a Fresnel / angular-spectrum instance): the propagation is
            # sent as `reqc` (Cache.stepC with Cache.memoContent); the dtype the cell of the instance handed out holds now
            # and whether this propagation rebuilt it are compared with the model's heap
            ff = getattr(self.handed[nhanded0], 'fourier_filter', None)
            if ff is not None:
                try:
                    tf = ff._transfer_function
                    idx = self.inst_id(self.handed[nhanded0])
                    obs['slot'] = '-' if tf is None else str(dt_code(tf.dtype))
                    obs['rebuilt'] = '0' if (idx in self.cell_prev and self.cell_prev[idx] is tf) else '1'
                    self.cell_prev[idx] = tf
                    obs['res'] = '%s/%s/%d' % (obs['key'], obs['ver'], dt_code(dt))
                    line = 'C05 reqc' + line[len('C05 req'):] + ' %d' % dt_code(dt)
                    self.count('reqc:rebuilt=' + obs['rebuilt'])
                except Exception as e:
                    self.state_issue('cannot read the memo cell of the instance handed out: %r' % (e,))
        if self.pmode and line.startswith('C05 req '):
            line = 'C05 preq' + line[len('C05 req'):]
            if 'ver' in obs:
                ver = int(obs['ver'])
                obs['built'] = '%d.%d.%d' % self.pvals[ver] if ver < len(self.pvals) else 'unknown-version-%d' % ver
            obs.pop('id', None)
            obs.pop('ver', None)
            self.count('preq')
        self.lines.append(line)
        self.expect.append(obs)

    def raises(self, exc, where, step):
        self.bad.append(('raises %s %s' % (type(exc).__name__, self.spec.name.split('-')[0]),
                         '%s raised %r' % (where, exc), step))

    def fail(self, clause, what, step):
        name = self.spec.name.split('-')[0]
        if self.pending_setter is not None and clause in ('result-differs', 'exception-mismatch', 'instance-differs'):
            how = self.pending_how
            key = '%s %s.%s' % ({'set': 'setter-no-effect', 'same': 'setter-same-object-no-effect',
                                 'attr': 'reassigned-parameter-no-effect'}[how], name, self.pending_setter)
            what = 'after %s %s.%s%s the next propagation differs from a fresh element built with the new value: %s' % (
                {'set': 'setting', 'same': 'editing the stored object in place and handing the same object to the setter of',
                 'attr': 'assigning the public attribute'}[how], name, self.pending_setter,
                ' and clear_cache()' if how == 'attr' else '', what)
        elif clause in ('result-differs', 'exception-mismatch', 'instance-differs'):
            two = any(op[0] == 'both' for op in self.case['ops'][:step + 1])
            key = 'history-dependent%s %s' % ('-after-two-grid-request' if two else '', name)
            what = '%s: %s' % (clause, what)
        else:
            key = '%s %s' % (clause, name)
        self.bad.append((key, what, step))

    def run(self):
        import hcipy as hp  # noqa
        spec = self.spec
        if self.elem is None:
            return
        for step, op in enumerate(self.case['ops']):
            kind = op[0]
            self.count('op:' + kind)
            if kind == 'clear':
                try:
                    self.elem.clear_cache()
                except Exception as e:
                    self.raises(e, 'clear_cache()', step)
                    return
                self.lines.append('C05 clear')
                self.expect.append(dict(status='ok', **self.real_state()))
                continue
            if kind == 'mut':
                # the caller changes a grid object in place (directly or through a wavefront that lives on it)
                grid = self.pool[int(op[1])]
                how, arg, via = op[2], op[3], bool(op[4])
                target = make_wavefront(grid, WLS[0], 'complex128', 0, 1).electric_field.grid if via else grid
                if via and target is not grid:
                    self.count('mut:wavefront-holds-a-copy')
                try:
                    if how == 'scale':
                        target.scale(float(arg))
                    elif how == 'shift':
                        target.shift(np.array([float(arg[0]), float(arg[1])]))
                    elif how == 'rotate':
                        target.rotate(float(arg))
                    elif how == 'reverse':
                        target.reverse()
                    elif how == 'weights':
                        target.weights = weights_variant(target, int(arg))
                    else:
                        raise MachineryError('unknown in-place operation %r' % (how,))
                except MachineryError:
                    raise
                except Exception as e:
                    self.raises(e, 'in-place %s of grid #%s' % (how, op[1]), step)
                    return
                self.count('mut:' + how + ('-via-wavefront' if via else ''))
                continue
            if kind in ('set', 'setm', 'setsame', 'attr'):
                name, idx = op[1], int(op[2])
                self.params[name] = idx
                value = spec.values[name][idx]
                if kind == 'set' or kind == 'attr':
                    self.live.pop(name, None)
                elif kind == 'setm':
                    # a caller-owned mutable object with this value (new object)
                    value, _ = materialise(spec, name, idx, self.pool[0])
                    if value is None:
                        raise MachineryError('setm: value %s of %s.%s has no mutable form' % (idx, spec.name, name))
                    self.live[name] = value
                else:
                    # the caller edits the object he handed over earlier in place and assigns the *same object* again
                    if name not in self.live:
                        raise MachineryError('setsame %s.%s without an earlier setm / live0' % (spec.name, name))
                    new, _ = materialise(spec, name, idx, self.pool[0])
                    if new is None or not edit_in_place(self.live[name], new):
                        raise MachineryError('setsame: value %s of %s.%s does not fit the live object' % (idx, spec.name, name))
                    value = self.live[name]
                try:
                    setattr(self.elem, name, value)
                    if kind == 'attr':
                        self.elem.clear_cache()
                except Exception as e:
                    self.fail('setter-raises', 'setting %s raised %s: %s' % (name, type(e).__name__, e), step)
                    self.bad[-1] = ('setter-raises %s.%s' % (spec.name.split('-')[0], name),) + self.bad[-1][1:]
                    return
                self.nsets += 1
                self.pending_setter = name
                self.pending_how = {'set': 'set', 'setm': 'set', 'setsame': 'same', 'attr': 'attr'}[kind]
                self.count('%s:%s.%s' % ({'set': 'setter', 'setm': 'setter-mutable-object', 'setsame': 'setter-same-object',
                                         'attr': 'attribute+clear_cache'}[kind], spec.name, name))
                if kind != 'setsame':
                    self.count('value-kind:%s' % value_kind(spec.values[name][idx]))
                if self.pmode and name == self.pname:
                    self.pvals.append(self.pval(value, idx))
                    self.lines.append('C05 pset %d %d %d' % self.pvals[-1])
                else:
                    self.pmode = False
                    self.lines.append('C05 set')
                self.expect.append(dict(status='ok', **self.real_state()))
                continue
            try:
                # (caller-owned objects: the fresh element gets a copy of their current content)
                fresh = spec.make(self.params, {n: live_copy(o) for n, o in self.live.items()})
            except Exception as e:
                self.raises(e, 'constructing a fresh element with the current parameter values', step)
                return
            fresh2 = fresh
            n0 = len(self.handed)
            if kind in ('fwd', 'bwd'):
                g, w, dt, pol, seed = int(op[1]), int(op[2]), op[3], int(op[4]), int(op[5])
                grid = self.pool[g]
                wl = WLS[w]
                line = self.request_line(grid if kind == 'fwd' else None, grid if kind == 'bwd' else None, wl, fresh2)
                wf1 = make_wavefront(grid, wl, dt, pol, seed)
                wf2 = make_wavefront(grid, wl, dt, pol, seed)
                r1 = e1 = r2 = e2 = None
                try:
                    r1 = getattr(self.elem, 'forward' if kind == 'fwd' else 'backward')(wf1)
                except Exception as e:
                    e1 = e
                try:
                    r2 = getattr(fresh, 'forward' if kind == 'fwd' else 'backward')(wf2)
                except Exception as e:
                    e2 = e
                if e1 is not None or e2 is not None:
                    if type(e1) is not type(e2):
                        self.fail('exception-mismatch', 'shared element: %r, fresh element: %r' % (e1, e2), step)
                        return
                    # shared and fresh element raise alike: not history dependence, but the element fails
                    # on an input the property quantifies over
                    self.count('both-raise:' + type(e1).__name__)
                    self.raises(e1, '%s on grid #%d at wavelength %r (a fresh element raises too)' % (kind, g, wl), step)
                    return
                d = compare_wavefronts(r1, r2, tol_for(dt))
                if d:
                    self.fail('result-differs', '%s on grid #%d at wavelength %r: %s' % (kind, g, wl, d), step)
                self.pending_setter = None
                if len(self.handed) > n0:
                    # which Fourier objects does the instance handed out own, and which precisions has each seen
                    try:
                        for fo in owned_fourier(self.handed[n0]):
                            rec = self.fourier_seen.setdefault(id(fo), [type(fo).__name__, set(), fo])
                            rec[1].add(CPLX_TAG[dt])
                    except Exception as e:
                        self.state_issue('cannot walk the Fourier objects of the instance handed out: %r' % (e,))
                self.observe(line, 'ok', n0, dt=dt)
                if d:
                    return
            elif kind == 'both':
                gi, go, w = self.pool[int(op[1])], self.pool[int(op[2])], int(op[3])
                wl = WLS[w]
                line = self.request_line(gi, go, wl, fresh2)
                v1 = e1 = v2 = e2 = None
                try:
                    v1 = self.elem.get_instance_data(gi, go, wl)
                except Exception as e:
                    e1 = e
                try:
                    v2 = fresh.get_instance_data(gi, go, wl)
                except Exception as e:
                    e2 = e
                if e1 is not None or e2 is not None:
                    if type(e1) is not type(e2):
                        self.fail('exception-mismatch', 'shared element: %r, fresh element: %r' % (e1, e2), step)
                        return
                    self.count('both-raise:' + type(e1).__name__)
                    self.raises(e1, 'get_instance_data(grid #%s, grid #%s, %r) (a fresh element raises too)' % (op[1], op[2], wl), step)
                    return
                try:
                    d = compare_instances(v1, v2, self.grid_dep)
                except Exception as e:
                    self.state_issue('cannot compare InstanceData objects: %r' % (e,))
                    d = None
                if d:
                    self.fail('instance-differs', 'get_instance_data(grid #%s, grid #%s, %r): %s' % (op[1], op[2], wl, d), step)
                self.pending_setter = None
                self.observe(line, 'ok', n0)
                if d:
                    return
            elif kind == 'none':
                wl = WLS[int(op[1])]
                if not self.grid_dep:
                    continue
                st = 'ok'
                try:
                    self.elem.get_instance_data(None, None, wl)
                except ValueError:
                    st = 'value'
                except Exception as e:
                    st = type(e).__name__
                if st != 'value':
                    self.fail('incomplete-request-accepted', 'get_instance_data(None, None, wl) gave %s' % st, step)
                    return
                self.observe('C05 req - - %d - -' % self.wid[wl_key(wl)], 'value', n0)
            else:
                raise MachineryError('unknown op %r' % (op,))


def parse_model(resp):
    if resp.startswith('err '):
        return {'status': resp[4:]}
    if not resp.startswith('ok'):
        raise MachineryError('unexpected model response %r' % resp)
    d = {'status': 'ok'}
    for tok in resp.split(' ')[1:]:
        if '=' in tok:
            k, v = tok.split('=', 1)
            d[k] = v
        else:
            d['how'] = tok
    return d


# ---------------------------------------------------------------------------------------------
# generation

def probe_values(spec, names):
    """Which of the values of each changeable parameter (registered and kind-lifted) does a *fresh* element accept?  A value is
    accepted if an element constructed with it propagates forward and backward at two wavelengths without raising and gives
    finite numbers.  Registered values are accepted as they are (a failure there is for the histories to report)."""
    ok = {}
    mut = {}
    g0 = spec.fwd[0]
    for n in names:
        ok[n] = [i for i in range(spec.nreg[n]) if not (i == 0 and n in spec.post)]
        mut[n] = {}
        base = {q: 0 for q in spec.values}

        def works(idx, over=None):
            try:
                par = dict(base)
                par[n] = idx
                el = spec.make(par, over)
                for w in (WLS[0], WLS[2]):
                    for d in ('forward', 'backward'):
                        r = getattr(el, d)(make_wavefront(g0, w, 'complex128', 0, 3))
                        if not np.all(np.isfinite(r.electric_field)):
                            return False
                return True
            except Exception:
                return False
        for i in range(spec.nreg[n], len(spec.values[n])):
            if works(i):
                ok[n].append(i)
        for i in ok[n]:
            try:
                obj, needs_grid = materialise(spec, n, i, g0)
            except Exception:
                obj = None
            if obj is not None and works(i, {n: obj}):
                mut[n][i] = (obj.shape, obj.dtype, needs_grid)
    spec.ok = ok
    spec.mutable = mut


def same_object_pairs(spec, n, free_only=False):
    """(a, b): value b can be written in place into the mutable object that holds value a."""
    m = spec.mutable.get(n, {})
    return [(a, b) for a in m for b in m if a != b and m[a][0] == m[b][0] and np.can_cast(m[b][1], m[a][1], casting='safe')
            and not (free_only and (m[a][2] or m[b][2]))]


def setter_cases(ctx, spec, names, op):
    """Directed histories of the two setter classes, for every parameter in `names` (public setters: op 'set'; plain public
    attributes followed by clear_cache(): op 'attr')."""
    out = []
    f = lambda g, w, sd, dt='complex128': ['fwd', g, w, dt, 0, sd]      # noqa: E731
    b = lambda g, w, sd, dt='complex128': ['bwd', g, w, dt, 0, sd]      # noqa: E731
    for n in names:
        # (1) the setter changes the *kind* of the value: one representative per ordered pair of kinds; three wavelengths
        # (none of them special) and two grids before and after, both directions
        rep = {}
        for i in spec.ok[n]:
            rep.setdefault(value_kind(spec.values[n][i]), i)
        pairs = [(a, c) for a in rep.values() for c in rep.values() if a != c]
        first = [pr for pr in pairs if 0 in pr]
        rest = [pr for pr in pairs if 0 not in pr]
        if ctx.tier != 'thorough' and len(rest) > 2:
            rest = [rest[int(j)] for j in ctx.rng.choice(len(rest), size=2, replace=False)]
        for a, c in first + rest:
            by_init = a != 0 and n not in spec.post and n not in spec.attr_only
            pre = [[op, n, a]] if (a != 0 and not by_init) else []
            ops = pre + [f(0, 2, 41), f(0, 3, 42), b(0, 4, 43), f(1, 2, 44), [op, n, c],
                         f(0, 3, 45), f(0, 2, 46), b(0, 4, 47), f(1, 2, 48), b(1, 3, 49), f(0, 0, 50)]
            out.append({'spec': spec.name, 'maxN': [None, 2][(a + c) % 2], 'style': 'setter-kind' if op == 'set' else 'attribute-kind',
                        'init': [[n, a]] if by_init else [], 'ops': ops})
            ctx.count('kind-at-construction:%s' % value_kind(spec.values[n][a]))
            ctx.count('kind-change:%s->%s' % (value_kind(spec.values[n][a]), value_kind(spec.values[n][c])))
        if op != 'set':
            # plain attributes: also every value once right after use (the each-setter histories cover setters only)
            for c in spec.ok[n][1:]:
                out.append({'spec': spec.name, 'maxN': None, 'style': 'each-attribute',
                            'ops': [f(0, 0, 5), b(0, 0, 6), [op, n, c], f(0, 0, 5), b(0, 0, 6), [op, n, 0], f(0, 0, 5)]})
            continue
        # (2) the caller edits the object he gave to the element in place and hands the same object to the setter again
        prs = same_object_pairs(spec, n)
        if ctx.tier != 'thorough' and len(prs) > 3:
            prs = prs[:2] + [prs[int(ctx.rng.integers(2, len(prs)))]]
        for a, c in prs:
            tail = [f(0, 2, 51), b(0, 2, 52), f(0, 0, 53, spec.dtypes[-1]), ['setsame', n, c], f(0, 2, 51), b(0, 2, 52), f(0, 0, 53),
                    ['setsame', n, a], b(0, 2, 54), f(0, 2, 55)]
            out.append({'spec': spec.name, 'maxN': None, 'style': 'setter-same-object', 'ops': [['setm', n, a]] + tail})
            if n not in spec.post:
                # ... the element was constructed with that object
                out.append({'spec': spec.name, 'maxN': None, 'style': 'setter-same-object', 'live0': [[n, a]], 'ops': tail})
            ctx.count('same-object:%s' % ('field' if spec.mutable[n][a][2] else 'array%s' % (spec.mutable[n][a][0],)))
    return out


def gen_case(rng, spec, el_setters, big):
    nf = int(rng.integers(2, min(len(spec.fwd), 6) + 1))
    fsel = [int(x) for x in rng.choice(len(spec.fwd), size=nf, replace=False)]
    nb = int(rng.integers(1, min(len(spec.bwd), 4) + 1))
    bsel = [int(x) for x in rng.choice(len(spec.bwd), size=nb, replace=False)]
    # every element (the lens too: it is grid agnostic) sees the same grids as forward input and as
    # backward output; fwd and bwd pools are the same list, so equal indices are equal grids
    bsel = list(dict.fromkeys(fsel[:2] + bsel))
    nw = int(rng.integers(1, 4))
    wsel = [int(x) for x in rng.choice(len(WLS), size=nw, replace=False)]
    maxN = [None, 1, 2, 3, 4][int(rng.choice(5, p=[0.3, 0.15, 0.25, 0.2, 0.1]))]
    style = str(rng.choice(['mixed', 'overflow', 'alternate', 'setters', 'both', 'mutate', 'near']))
    n = int(rng.integers(8, 28 if not big else 60))
    ops = []
    post_used = False
    live = {}
    near = []
    if style in ('near', 'mutate'):
        # a family of grids nearly equal (or, eps = 0, equal) to one base grid, used through the same element
        base = fsel[0]
        kinds = ['delta', 'zero'] + (['coord'] if (spec.any_grid or spec.lens) else [])
        for _ in range(int(rng.integers(2, 6)) if style == 'near' else 1):
            eps = NEAR_EPS[int(rng.integers(0, len(NEAR_EPS)))] if style == 'near' else 0.0
            near.append([base, str(rng.choice(kinds)) if eps else 'delta', eps])
    # every style: grids that equal a grid of the working set in their coordinates (`==`, `hash`) and differ in what
    # equality ignores -- their weights
    if style == 'near' or rng.random() < 0.6:
        for _ in range(int(rng.integers(1, 3))):
            near.append([fsel[0], 'weights', int(rng.choice(WEIGHT_VARIANTS))])
    if near:
        base = fsel[0]
        extra = [len(spec.fwd) + k for k in range(len(near))]
        if style in ('near', 'mutate'):
            fsel = [base] + extra + fsel[1:2]
            bsel = [base] + extra + bsel[:1]
        else:
            fsel = [base] + extra + fsel[1:]
            bsel = [base] + extra + [b for b in bsel if b != base]
    for _ in range(n):
        r = rng.random()
        dt = str(rng.choice(spec.dtypes))
        pol = int(rng.choice(spec.pol))
        seed = int(rng.integers(0, 1 << 30))
        p_set = 0.25 if style == 'setters' else 0.07
        p_both = 0.3 if style == 'both' else 0.08
        p_mut = 0.2 if style == 'mutate' else (0.03 if style == 'mixed' else 0.0)
        if rng.random() < p_mut:
            hows = ['scale', 'shift', 'weights'] + (['rotate', 'reverse'] if spec.any_grid else [])
            how = str(rng.choice(hows))
            arg = {'scale': float(rng.choice([2.0, 0.5, 1.5, 0.75])), 'weights': int(rng.choice(WEIGHT_VARIANTS)),
                   'shift': [float(rng.integers(-4, 5)) / 8.0, float(rng.integers(-4, 5)) / 16.0],
                   'rotate': float(rng.integers(1, 8)) / 8.0, 'reverse': None}[how]
            # mostly a grid of the working set that is a pool grid (not a near variant)
            cand = [g for g in fsel[:3] if g < len(spec.fwd)] or [fsel[0]]
            ops.append(['mut', int(rng.choice(cand)), how, arg, int(rng.random() < 0.4)])
        elif el_setters and r < p_set:
            pool = [x for x in el_setters if x in spec.post] if (post_used and spec.exclusive_post) else el_setters
            name = str(rng.choice(pool))
            post_used = post_used or name in spec.post
            cand = [i for i in (spec.ok[name] if spec.ok else range(len(spec.values[name]))) if not (i == 0 and name in spec.post)]
            idx = int(rng.choice(cand))
            free = [pr for pr in same_object_pairs(spec, name, free_only=True)] if spec.ok else []
            if name in live and rng.random() < 0.6:
                # the caller edits the object he handed over in place and gives the same object to the setter again
                idx = int(rng.choice([pr[1] for pr in free if pr[0] == live[name]] + [live[name]]))
                ops.append(['setsame', name, idx])
            elif free and rng.random() < 0.3:
                idx = int(rng.choice(sorted(set(pr[0] for pr in free))))
                ops.append(['setm', name, idx])
                live[name] = idx          # (the object keeps the dtype of the value it was made from)
            else:
                ops.append(['set', name, idx])
                live.pop(name, None)
        elif spec.both and r < p_set + p_both:
            ops.append(['both', int(rng.choice(fsel)), int(rng.choice(bsel)), int(rng.choice(wsel))])
        elif r < p_set + p_both + 0.03:
            ops.append(['clear'])
        elif r < p_set + p_both + 0.05 and spec.grid_dep is not False:
            ops.append(['none', int(rng.choice(wsel))])
        else:
            back = rng.random() < (0.5 if style == 'alternate' else 0.3)
            pool = bsel if back else fsel
            if style == 'overflow':
                g = int(rng.choice(pool))
                w = int(rng.choice(wsel))
            else:
                # favour a small working set (two grids, one wavelength) so that hits are frequent
                k_work = len(near) + 2
                g = int(pool[int(rng.integers(0, min(k_work, len(pool))))]) if rng.random() < 0.7 else int(rng.choice(pool))
                w = int(wsel[0]) if rng.random() < (0.9 if style in ('near', 'mutate') else 0.7) else int(rng.choice(wsel))
            ops.append(['bwd' if back else 'fwd', g, w, dt, int(pol), seed])
    init = []
    if spec.ok and el_setters and rng.random() < 0.3:
        cand = [q for q in el_setters if q not in spec.post]
        if cand:
            q = str(rng.choice(cand))
            init = [[q, int(rng.choice(spec.ok[q]))]]
    return {'spec': spec.name, 'maxN': maxN, 'style': style, 'near': near, 'init': init, 'ops': ops}


def directed():
    D = []
    fw = lambda g, w=0, dt='complex128', pol=0, seed=7: ['fwd', g, w, dt, pol, seed]   # noqa: E731
    bw = lambda g, w=0, dt='complex128', pol=0, seed=9: ['bwd', g, w, dt, pol, seed]   # noqa: E731
    # D3: lens propagator on a second pupil grid of the same shape.  Lens pools: 0-7 pupil grids, 8-12 focal grids.
    F0, F1 = 8, 9
    D.append({'spec': 'FraunhoferPropagator', 'maxN': None, 'style': 'directed', 'ops': [fw(0), fw(1), fw(0), bw(F0), bw(F1), fw(3)]})
    D.append({'spec': 'FraunhoferPropagator', 'maxN': None, 'style': 'directed', 'ops': [['both', 1, F1, 0], fw(1), bw(F1), bw(F0), fw(0)]})
    D.append({'spec': 'FraunhoferPropagator', 'maxN': 2, 'style': 'directed',
              'ops': [fw(0), fw(1), bw(F0), fw(2), fw(0), bw(F0), fw(1, 1), fw(1, 0), ['set', 'focal_length', 1], fw(1), bw(F0)]})
    # the same grid as forward input and as backward output at one wavelength (input grid != output grid):
    # a forward and a backward request must never share a cache entry
    D.append({'spec': 'FraunhoferPropagator', 'maxN': None, 'style': 'directed', 'ops': [fw(F0), bw(F0), fw(0), bw(0), fw(F0), bw(F0)]})
    D.append({'spec': 'FraunhoferPropagator', 'maxN': None, 'style': 'directed', 'ops': [bw(F0), fw(F0), bw(1), fw(1), bw(F0)]})
    D.append({'spec': 'FraunhoferPropagator', 'maxN': 1, 'style': 'directed', 'ops': [bw(0), fw(0), fw(F1, 2), bw(F1, 2), bw(0)]})
    D.append({'spec': 'Magnifier', 'maxN': None, 'style': 'directed', 'ops': [fw(0), bw(0), bw(1), fw(1), ['set', 'magnification', 1], bw(0), fw(0)]})
    # the caller mutates a grid object in place between requests (directly / through a wavefront's grid)
    mut = lambda g, how, arg, via=0: ['mut', g, how, arg, via]      # noqa: E731
    D.append({'spec': 'FraunhoferPropagator', 'maxN': None, 'style': 'directed',
              'ops': [fw(0), mut(0, 'scale', 2.0), fw(0), bw(F0), mut(F0, 'shift', [0.25, 0.0]), bw(F0), fw(0), mut(0, 'scale', 0.5), fw(0)]})
    D.append({'spec': 'FraunhoferPropagator', 'maxN': None, 'style': 'directed',
              'ops': [fw(1), mut(1, 'shift', [0.125, -0.25], 1), fw(1), mut(1, 'scale', 1.5, 1), fw(1), bw(F1)]})
    D.append({'spec': 'FresnelPropagator', 'maxN': None, 'style': 'directed', 'ops': [fw(0), mut(0, 'scale', 0.5), fw(0), bw(0), mut(0, 'shift', [0.5, 0.25], 1), bw(0)]})
    D.append({'spec': 'Apodizer', 'maxN': None, 'style': 'directed',
              'ops': [fw(0), mut(0, 'rotate', 0.5), fw(0), mut(0, 'reverse', None), fw(0), bw(0), mut(0, 'scale', 2.0, 1), bw(0)]})
    # ... and then uses another grid object that has the value the mutated object had before
    for name in ('FraunhoferPropagator', 'FresnelPropagator', 'Apodizer', 'StepIndexFiber', 'VectorVortexCoronagraph'):
        N = len(spec_by_name(name).fwd)
        D.append({'spec': name, 'maxN': None, 'style': 'directed', 'near': [[0, 'delta', 0.0]],
                  'ops': [fw(0), mut(0, 'scale', 2.0), fw(N), fw(0), bw(N), mut(0, 'scale', 0.5), fw(0)]})
    # families of nearly equal grids through one element
    for name in ('FraunhoferPropagator', 'FresnelPropagator', 'Apodizer', 'Magnifier'):
        N = len(spec_by_name(name).fwd)
        fam = [[0, 'delta', 3e-8], [0, 'delta', 1e-12], [0, 'zero', 1e-7], [0, 'delta', 1e-3], [0, 'zero', 1e-10]]
        if name in ('FraunhoferPropagator', 'Apodizer', 'Magnifier'):
            fam.append([0, 'coord', 1e-6])
        D.append({'spec': name, 'maxN': None, 'style': 'directed', 'near': fam,
                  'ops': [fw(0)] + [fw(N + k) for k in range(len(fam))] + [bw(N), bw(0), fw(N + 1), fw(0)]})
    # grids with equal coordinates and other weights (ones per point, a per-point variation, the automatic weights as an
    # explicit array), then the weights of a grid object are changed in place -- through every element
    for sp in specs():
        N = len(sp.fwd)
        D.append({'spec': sp.name, 'maxN': None, 'style': 'directed-weights',
                  'near': [[0, 'weights', 1], [0, 'weights', 3], [0, 'weights', 4]],
                  'ops': [fw(0), fw(N), fw(N + 1), fw(N + 2), bw(N), bw(0), bw(N + 1), fw(0), mut(0, 'weights', 5), fw(0), fw(N),
                          mut(N, 'weights', 2, 1), bw(N), fw(N + 1)]})
    # one instance (one grid, one wavelength), precision flipped back and forth in both directions and for every kind of
    # wavefront: every Fourier object the instance owns (MFT matrices + intermediate array, FFT scratch array, filter
    # transfer function + internal array, the nested propagators of the vector vortex) sees both precisions
    for name, gs in (('FraunhoferPropagator', (0, 4)), ('FresnelPropagator', (0,)), ('AngularSpectrumPropagator', (1,)),
                     ('VectorVortexCoronagraph', (0,))):
        for g in gs:
            ops = []
            for pol in (0, 1, 2):
                for kdir in (fw, bw):
                    gg = g if (kdir is fw or name != 'FraunhoferPropagator') else F0
                    ops += [kdir(gg, 0, 'complex128', pol, 11 + pol), kdir(gg, 0, 'complex64', pol, 12 + pol),
                            kdir(gg, 0, 'complex128', pol, 13 + pol), kdir(gg, 0, 'complex64', pol, 14 + pol)]
            D.append({'spec': name, 'maxN': None, 'style': 'directed-precision', 'ops': ops})
    # default cache size overflow: 4 grids x 3 wavelengths = 12 > 11 instances
    ov = [fw(g, w) for w in range(3) for g in range(4)]
    D.append({'spec': 'Apodizer', 'maxN': None, 'style': 'directed', 'ops': ov + ov[:3] + [bw(0), bw(1, 2)]})
    D.append({'spec': 'FresnelPropagator', 'maxN': None, 'style': 'directed', 'ops': ov + [fw(0), bw(0), ['set', 'distance', 2], fw(0), bw(0)]})
    D.append({'spec': 'StepIndexFiber', 'maxN': None, 'style': 'directed', 'ops': [fw(0), fw(1), bw(0), fw(2)]})
    D.append({'spec': 'Magnifier', 'maxN': 1, 'style': 'directed', 'ops': [fw(0), fw(1, 1), bw(2, 0), ['set', 'magnification', 2], fw(0), fw(0, 2)]})
    D.append({'spec': 'PhaseGrating', 'maxN': None, 'style': 'directed', 'ops': [fw(0), ['set', 'amplitude', 1], fw(0)]})
    for name in ('Apodizer', 'LinearPolarizer', 'VectorVortexCoronagraph'):
        D.append({'spec': name, 'maxN': 1, 'style': 'directed', 'ops': [fw(0), bw(0), fw(1), bw(1), fw(0), ['none', 0], ['clear'], bw(0)]})
    return D


# ---------------------------------------------------------------------------------------------
# Fourier objects

def fourier_objects():
    import hcipy as hp
    P = hp.make_pupil_grid(8, 1.0)
    P2 = hp.make_pupil_grid([6, 9], [1.0, 1.5]).shifted([0.125, 0.0])
    F = hp.make_focal_grid(2, 2)
    F2 = hp.make_focal_grid(3, 1.5).shifted([0.25, -0.5])
    O = {}
    for em in (False, True):
        O['FFT q2 emulate=%d' % em] = lambda em=em: hp.FastFourierTransform(P, 2, 1, 0, em)
        O['FFT q1 emulate=%d' % em] = lambda em=em: hp.FastFourierTransform(P, 1, 1, 0, em)
        O['FFT q3 fov shift emulate=%d' % em] = lambda em=em: hp.FastFourierTransform(P2, 3, 0.5, [0.25, -0.125], em)
    for pre in (False, True):
        for al in (False, True):
            O['MFT precompute=%d intermediate=%d' % (pre, al)] = lambda pre=pre, al=al: hp.MatrixFourierTransform(P, F, pre, al)
            O['MFT nonsquare precompute=%d intermediate=%d' % (pre, al)] = lambda pre=pre, al=al: hp.MatrixFourierTransform(P2, F2, pre, al)
    O['Naive'] = lambda: hp.NaiveFourierTransform(P, F, True)
    O['Naive noprecompute'] = lambda: hp.NaiveFourierTransform(P2, F2, False)
    if hasattr(hp, 'ZoomFastFourierTransform'):
        O['ZoomFFT'] = lambda: hp.ZoomFastFourierTransform(P, F)
    O['make_fourier_transform'] = lambda: hp.make_fourier_transform(P, F2)

    def tf(grid):
        return hp.Field(np.exp(-0.5j * (grid.x**2 + grid.y**2)) / (1 + 0.125 * grid.x**2), grid)
    O['FourierFilter q2'] = lambda: hp.FourierFilter(P, tf, 2)
    O['FourierFilter q1'] = lambda: hp.FourierFilter(P2, tf, 1)
    # per-axis oversampling / field of view (slit-like Fourier planes: more samples than the input along one axis, fewer
    # along the other), both shift implementations
    for em in (False, True):
        O[gen_fft_name([8, 8], [2, 2], [0.25, 1], em)] = None
        O[gen_fft_name([8, 8], [1, 4], [0.5, 0.5], em)] = None
        O[gen_fft_name([6, 9], [3, 1], [1, 0.5], em)] = None
    return _FourierObjects(O)


def gen_fft_name(dims, q, fov, em):
    js = lambda v: json.dumps(list(v), separators=(',', ':'))
    return 'FFT gen dims=%s q=%s fov=%s emulate=%d' % (js(dims), js(q), js(fov), int(em))


class _FourierObjects(dict):
    """Constructors by name; a name produced by gen_fft_name carries its own parameters (so a replay file needs no table)."""

    def __getitem__(self, name):
        if name.startswith('FFT gen '):
            return lambda: self.build(name)
        return dict.__getitem__(self, name)

    @staticmethod
    def build(name):
        import hcipy as hp
        kv = dict(t.split('=', 1) for t in name.split(' ')[2:])
        dims, q, fov = json.loads(kv['dims']), json.loads(kv['q']), json.loads(kv['fov'])
        grid = hp.make_pupil_grid(dims, [1.0, 1.0 * dims[1] / dims[0]]).shifted([0.0, 0.125])
        return hp.FastFourierTransform(grid, q, fov, 0, bool(int(kv['emulate'])))


def random_fft_names(rng, n):
    qs, fovs = [1, 2, 3, 4, 1.5], [1, 0.5, 0.25, 0.75]
    out = []
    for _ in range(n):
        dims = [int(rng.integers(3, 9)), int(rng.integers(3, 9))]
        q = [qs[int(rng.integers(0, len(qs)))] for _ in range(2)]
        fov = [fovs[int(rng.integers(0, len(fovs)))] for _ in range(2)]
        for k in range(2):
            # a Fourier plane without a single sample along an axis (dims * q * fov < 1) is no Fourier object an element
            # can own (the constructor raises IndexError there: noted in the report, FFT construction is C01's subject)
            if dims[k] * q[k] * fov[k] < 1:
                fov[k] = 1
        out.append(gen_fft_name(dims, q, fov, bool(rng.integers(0, 2))))
    return out


FDT = ['complex128', 'complex64', 'float64', 'float32']
FTS = [(), (2,), (2, 2), (3,)]


def fourier_field(obj, backward, dtype, tshape, seed):
    import hcipy as hp
    is_filter = type(obj).__name__ == 'FourierFilter'
    grid = obj.input_grid if (is_filter or not backward) else obj.output_grid
    r = np.random.default_rng(seed)
    shape = tuple(tshape) + (grid.size,)
    arr = r.integers(-8, 9, size=shape) / 8.0
    if dtype.startswith('complex'):
        arr = arr + 1j * r.integers(-8, 9, size=shape) / 8.0
    return hp.Field(arr.astype(dtype), grid)


def run_fourier(name, ops, watch_out=None):
    """ops: [backward(0/1), dtype, tshape, seed].  Returns (failure or None, memo observations); the state-by-state
    conversation for FourierFilter / ZoomFastFourierTransform is left in `watch_out` (a list) when given."""
    O = fourier_objects()
    memo = []
    try:
        shared = O[name]()
    except Exception as e:
        return 'RAISES %s: constructing the object raised %r' % (type(e).__name__, e), memo
    watch = {'FourierFilter': FilterWatch, 'ZoomFastFourierTransform': ZoomWatch}.get(type(shared).__name__)
    watch = watch() if watch else None
    if watch is not None and watch_out is not None:
        watch_out.append(watch)
    for step, (back, dt, ts, seed) in enumerate(ops):
        try:
            fresh = O[name]()
            f1 = fourier_field(shared, back, dt, ts, seed)
            f2 = fourier_field(fresh, back, dt, ts, seed)
            keep = f1.copy()
        except Exception as e:
            return 'RAISES %s: step %d: preparing the call raised %r' % (type(e).__name__, step, e), memo
        r1 = e1 = r2 = e2 = None
        try:
            r1 = (shared.backward if back else shared.forward)(f1)
        except Exception as e:
            e1 = e
        try:
            r2 = (fresh.backward if back else fresh.forward)(f2)
        except Exception as e:
            e2 = e
        if e1 is None and isinstance(watch, FilterWatch):
            watch.after(shared, f1)
        elif e1 is None and isinstance(watch, ZoomWatch):
            watch.after(shared, back, dt)
        if e1 is not None or e2 is not None:
            if type(e1) is not type(e2):
                return ('step %d: shared object %r, fresh object %r' % (step, e1, e2)), memo
            return 'RAISES %s: step %d (%s, %s, tensor %s): shared and fresh object raise %r' % (
                type(e1).__name__, step, 'backward' if back else 'forward', dt, tuple(ts), e1), memo
        tol = 2e-4 if dt in ('complex64', 'float32') else 1e-9
        d = compare_values(np.asarray(r1), np.asarray(r2), tol)
        if d is None and r1.dtype != r2.dtype:
            d = 'result dtypes differ: %s vs %s' % (r1.dtype, r2.dtype)
        if d is None and not np.array_equal(np.asarray(f1), np.asarray(keep)):
            d = 'input field modified'
        if d:
            return ('step %d (%s, %s, tensor %s): %s' % (step, 'backward' if back else 'forward', dt, tuple(ts), d)), memo
        if type(shared).__name__ == 'MatrixFourierTransform':
            tag = {'complex128': 128, 'complex64': 64, 'float64': 128, 'float32': 64}[dt]
            try:
                md = shared.matrices_dtype
                memo.append((tag, 0 if shared.precompute_matrices else 1, '-' if md is None else str(np.dtype(md).itemsize * 8)))
            except Exception as e:       # private memo state unreadable: broken correspondence, not a crash
                memo.append((tag, None, 'unreadable: %r' % (e,)))
    return None, memo


# ---------------------------------------------------------------------------------------------
# the wavelength key (model: lean/HcipyVerif/Lemmas/WavelengthKey.lean)

def exact_wl_key(lam):
    """round(log(lam)/log(b)) for the exact float `lam` and b = the double 1 + 4503600/2^52, evaluated
    with 60 digits.  Returns (key, slack) where slack is the distance of the quotient from the nearest
    half-integer (the rounding decision is not compared when the slack is tiny)."""
    import mpmath as mp
    with mp.workdps(60):
        b = mp.mpf(1) + mp.mpf(4503600) / mp.mpf(2) ** 52
        x = mp.log(mp.mpf(lam)) / mp.log(b)
        fl = mp.floor(x)
        frac = x - fl
        return int(fl) + (1 if frac > mp.mpf('0.5') else 0), float(abs(frac - mp.mpf('0.5')))


def check_wavelength_keys(ctx):
    import math
    import hcipy as hp
    from fractions import Fraction
    if Fraction(1 + 1e-9) != 1 + Fraction(4503600, 2 ** 52):
        raise MachineryError('1 + 1e-9 is not the double the model executes (Cache.wlBase, theorem wlBase_ok)')
    probe = hp.Magnifier(2.0)
    probe_grid = hp.make_pupil_grid(4, 1.0)

    def real_key(lam):
        k = probe._get_cache_keys(probe_grid, None, lam)      # private: guarded by the caller (a grid is given: the key's
        # wavelength part must not depend on how the element declares its grid dependence)
        if not (isinstance(k, list) and k and isinstance(k[0], tuple) and len(k[0]) == 3):
            raise ValueError('unexpected key shape %r' % (k,))
        return int(k[0][2])

    def w_scalar(wavelength):
        return np.float64(0.5 + 0.25 * wavelength)
    grid = hp.make_pupil_grid(4, 1.0)
    n = ctx.scale(3000, 40000)
    n_inst = ctx.scale(300, 3000)
    issues = 0
    n_diff = ctx.scale(400, 5000)
    diff_lines, diff_expect = [], []
    for j in range(n):
        style = j % 4
        if style == 0:
            lam = float(10.0 ** ctx.rng.uniform(-8, 2))
        elif style == 1:
            lam = float(ctx.rng.integers(1, 4096)) / 1024.0 * 10.0 ** int(ctx.rng.integers(-7, 1))
        elif style == 2:
            lam = float(1.0 + ctx.rng.uniform(-1e-5, 1e-5))
        else:
            lam = float(ctx.rng.uniform(0.3, 3.0) * 1e-6)
        ctx.count('wl:style%d' % style)
        # a partner exactly at the property's bound: the least double >= lam * (1 + 1e-6)
        far = lam * (1 + 1e-6)
        while Fraction(far) < Fraction(lam) * (1 + Fraction(1, 10 ** 6)):
            far = math.nextafter(far, math.inf)
        near = lam * (1 + 1e-10)
        while Fraction(near) > Fraction(lam) * (1 + Fraction(1, 10 ** 10)):
            near = math.nextafter(near, 0.0)
        nine = lam * (1 + 1e-9)
        three = lam * (1 + 3e-9)
        try:
            keys = {name: real_key(v) for name, v in (('lam', lam), ('far', far), ('near', near), ('nine', nine), ('three', three))}
        except Exception as e:
            issues += 1
            if issues == 1:
                ctx.disagree('wavelength-key', {'issue': 'cannot read the wavelength key of the implementation: %r' % (e,)})
            keys = None
        if keys is not None:
            ctx.traces_validated += 1
            for name, v in (('lam', lam), ('far', far)):
                ek, slack = exact_wl_key(v)
                if slack < 1e-4:
                    ctx.boundary_skipped += 1
                elif ek != keys[name]:
                    ctx.disagree('wavelength-key', {'wavelength': v, 'code': keys[name], 'model': ek})
            # consequences proved in Properties/C05.lean
            if keys['far'] - keys['lam'] < 498:
                ctx.disagree('wavelength-key', {'theorem': 'wavelength_key_separates', 'wavelengths': [lam, far],
                                                'keys': [keys['lam'], keys['far']]})
            if abs(keys['near'] - keys['lam']) > 1:
                ctx.disagree('wavelength-key', {'theorem': 'wavelength_key_stable', 'wavelengths': [lam, near],
                                                'keys': [keys['lam'], keys['near']]})
            if keys['three'] == keys['lam']:
                ctx.disagree('wavelength-key', {'theorem': 'wavelength_key_shared_close', 'wavelengths': [lam, three],
                                                'keys': [keys['lam'], keys['three']]})
            ctx.count('wl:key-difference-at-1e-9:%d' % (keys['nine'] - keys['lam']))
            # the executed rational enclosure of key differences (Cache.wlKeyDiffBounds; theorem wavelength_key_diff_enclosed)
            if j < n_diff:
                for name, v in (('far', far), ('near', near), ('nine', nine), ('three', three)):
                    lo_w, hi_w = (lam, v) if v >= lam else (v, lam)
                    sign = 1 if v >= lam else -1
                    fa, fb = Fraction(lo_w), Fraction(hi_w)
                    diff_lines.append('C05 wldiff %d/%d %d/%d' % (fa.numerator, fa.denominator, fb.numerator, fb.denominator))
                    diff_expect.append((lam, v, sign * (keys[name] - keys['lam'])))
        # the property's clause on the public interface: wavelengths >= 1e-6 apart never share an instance
        if j < n_inst:
            ctx.case(None, nontrivial_key=('wl-pair', j))
            el = hp.Apodizer(w_scalar)
            try:
                a = el.get_instance_data(grid, None, lam)
                b = el.get_instance_data(grid, None, far)
                a2 = el.get_instance_data(grid, None, lam)
                bad = None
                if a is b:
                    bad = 'one instance serves both wavelengths'
                elif a2 is not a:
                    bad = 'the instance of the first wavelength was not found again'
                elif not (np.asarray(b.apodization) == w_scalar(far)) or not (np.asarray(a.apodization) == w_scalar(lam)):
                    bad = 'the instance holds the parameter evaluated at another wavelength'
            except Exception as e:
                ctx.violation('raises %s Apodizer' % type(e).__name__, 'get_instance_data at wavelength %r or %r raised %r' % (lam, far, e),
                              {'wavelengths': [lam, far]})
                continue
            if bad:
                ctx.violation('wavelengths-1e-6-apart-share-instance', 'wavelengths %r and %r (ratio >= 1 + 1e-6): %s' % (lam, far, bad),
                              {'wavelengths': [lam, far]})
    compare_key_differences(ctx, diff_lines, diff_expect)


def compare_key_differences(ctx, diff_lines, diff_expect):
    from fractions import Fraction
    out = ctx.model(diff_lines)
    for line, resp, (a, b, d) in zip(diff_lines, out, diff_expect):
        ctx.traces_validated += 1
        m = parse_model(resp) if resp.startswith('ok') else {}
        try:
            lo, hi = Fraction(m['lo']), Fraction(m['hi'])
        except Exception:
            ctx.disagree('wavelength-key', {'line': line, 'model': resp, 'issue': 'no enclosure returned'})
            break
        ctx.count('wl:enclosure-width<=%s' % ('2.5' if hi - lo <= Fraction(5, 2) else ('4' if hi - lo <= 4 else 'more')))
        if not (lo <= d <= hi):
            ctx.disagree('wavelength-key', {'theorem': 'wavelength_key_diff_enclosed', 'wavelengths': [a, b], 'code key difference': d,
                                            'model enclosure': [float(lo), float(hi)]})
            break


def replay_wavelengths(case):
    import hcipy as hp
    lam, far = case['wavelengths']

    def w_scalar(wavelength):
        return np.float64(0.5 + 0.25 * wavelength)
    el = hp.Apodizer(w_scalar)
    grid = hp.make_pupil_grid(4, 1.0)
    a = el.get_instance_data(grid, None, lam)
    b = el.get_instance_data(grid, None, far)
    ok = (a is not b) and (el.get_instance_data(grid, None, lam) is a) and bool(np.asarray(b.apodization) == w_scalar(far))
    if not ok:
        print('  fails: wavelengths %r and %r share an instance or hold a wrong parameter' % (lam, far))
    return ok



# ---------------------------------------------------------------------------------------------
# the second cache: make_agnostic_optical_element (model: lean/HcipyVerif/Model/CacheDecorator.lean)

DECO_KNOWN = 'history-dependent make_agnostic_optical_element backward-after-forward'
DECO_NAMES = ['GW-mag', 'GW-lens', 'G-only', 'W-only', 'none']


def deco_pool():
    import hcipy as hp
    pool = [hp.make_pupil_grid(4, 1.0), hp.make_pupil_grid(4, 1.5), hp.make_pupil_grid(4, 1.0).shifted([0.25, -0.125]),
            hp.make_pupil_grid(6, 1.0), hp.make_pupil_grid([4, 6], [1.0, 1.5]), hp.make_pupil_grid(6, 2.5)]
    # grids with the coordinates of pool grids 0 and 3 and other weights (ones per point; a per-point variation)
    return pool + [near_grid(pool[0], 'weights', 1), near_grid(pool[3], 'weights', 3)]


def deco_class(name, num):
    """(decorated class, constructor kwargs, grid_dep, wl_dep, out_of(grid)) for one of DECO_NAMES.  The wrapped
    ("gnostic") classes are small elements that need their input grid and/or wavelength at construction."""
    import warnings
    import hcipy as hp

    def out_mag(grid):
        return grid.scaled(2)

    def out_lens(grid):
        return hp.make_pupil_grid(grid.dims, 3.0)        # many input grids share one output grid

    def gain(wavelength):
        return 1.0 + 0.5 * wavelength

    class Base(hp.OpticalElement):
        def setup(self, input_grid, wavelength, gain, out):
            self.made_for = (input_grid, wavelength)
            self.input_grid = input_grid
            self.output_grid = None if input_grid is None else out(input_grid)
            ph = 0.0 if input_grid is None else 0.5 * input_grid.x + 0.25 * input_grid.y**2
            self.apod = gain * np.exp(1j * ph * (1.0 if wavelength is None else wavelength))

        def forward(self, wf):
            w = wf.copy()
            w.electric_field = hp.Field(np.asarray(wf.electric_field) * self.apod,
                                        wf.electric_field.grid if self.output_grid is None else self.output_grid)
            return w

        def backward(self, wf):
            w = wf.copy()
            w.electric_field = hp.Field(np.asarray(wf.electric_field) * np.conj(self.apod),
                                        wf.electric_field.grid if self.input_grid is None else self.input_grid)
            return w

    if name in ('GW-mag', 'GW-lens'):
        out = out_mag if name == 'GW-mag' else out_lens

        class Gnostic(Base):
            def __init__(self, input_grid, wavelength, gain):
                self.setup(input_grid, wavelength, gain, out)
        args, gd, wd, kw = (None, ['gain']), True, True, {'gain': gain}
    elif name == 'G-only':
        out = out_mag

        class Gnostic(Base):
            def __init__(self, input_grid, gain):
                self.setup(input_grid, None, gain, out)
        args, gd, wd, kw = (None, None), True, False, {'gain': 1.5}
    elif name == 'W-only':
        out = None

        class Gnostic(Base):
            def __init__(self, wavelength, gain):
                self.setup(None, wavelength, gain, None)
        args, gd, wd, kw = (None, ['gain']), False, True, {'gain': gain}
    else:
        out = None

        class Gnostic(Base):
            def __init__(self, gain):
                self.setup(None, None, gain, None)
        args, gd, wd, kw = (None, None), False, False, {'gain': 1.5}
    with warnings.catch_warnings():
        warnings.simplefilter('ignore')
        cls = hp.make_agnostic_optical_element(args[0], args[1], num_in_cache=num)(Gnostic)
    return cls, Gnostic, kw, gd, wd, out


def deco_field(grid, wl, seed):
    import hcipy as hp
    r = np.random.default_rng(seed)
    arr = r.integers(-8, 9, size=grid.size) / 8.0 + 1j * r.integers(-8, 9, size=grid.size) / 8.0
    return hp.Wavefront(hp.Field(arr, grid), wl)


def run_deco(case):
    """Runs a history on one shared decorated element.  ops: ['fwd', j, w, seed] | ['bwd', j, w, seed] (backward on
    pool grid j) | ['bwdout', j, w, seed] (backward on the output grid of the element for pool grid j) |
    ['get', i|None, o|None, w|None] (get_instance with pool grids).  Returns (bad, lines, expect, issues, counts)
    with bad = [(key, what, step)]."""
    import hcipy as hp
    name, num = case['deco'], int(case['num'])
    cls, Gnostic, kw, gd, wd, out_of = deco_class(name, num)
    pool = deco_pool()
    outs = [None if out_of is None else out_of(g) for g in pool]
    bad, issues, counts = [], [], {}
    lines = ['C05 dnew %d %d %d' % (gd, wd, num)]
    expect = [None]
    shared = cls(**kw)
    handed = []
    orig = shared.get_instance

    def rec(*a, **k):
        r = orig(*a, **k)
        handed.append(r)
        return r
    shared.get_instance = rec
    insts = []
    wid = {}

    def inst_id(v):
        for k, x in enumerate(insts):
            if x is v:
                return k
        insts.append(v)
        return len(insts) - 1

    def same_grid(x, g):
        # `g`: the grid part of a private cache key -- a grid object (unrepaired: found through ==/hash, which ignore the
        # weights) or the digest of coordinates and weights that repair D505 uses (`_get_grid_key`)
        if isinstance(g, hp.Grid):
            return x == g and weights_differ(x, g) is None
        return key_part(x) == g

    def key_part(x):
        from hcipy.optics import optical_element as oe
        return oe._get_grid_key(x) if hasattr(oe, '_get_grid_key') else hash(x)

    def gname(g):
        if g is None:
            return '-'
        for j, x in enumerate(pool):
            if same_grid(x, g):
                return str(j)
        for j, x in enumerate(outs):
            if x is not None and same_grid(x, g):
                return str(100 + j)
        return '?'

    def wname(k):
        if k is None:
            return '-'
        if k not in wid:
            wid[k] = len(wid)
        return str(wid[k])

    def key_name(k):
        k = tuple(k)
        side, g, w = '-', None, None
        if gd:
            if len(k) < 2 or k[0] not in ('input', 'output'):
                raise ValueError('unexpected cache key %r' % (k,))
            side, g, k = ('I' if k[0] == 'input' else 'O'), k[1], k[2:]
        if wd:
            if len(k) != 1:
                raise ValueError('unexpected cache key tail %r' % (k,))
            w, k = k[0], ()
        if k:
            raise ValueError('unexpected cache key tail %r' % (k,))
        return '%s%s,%s' % (side if gd else '', gname(g) if gd else '-', wname(w))

    def real_state():
        return ';'.join('%s:%d' % (key_name(k), inst_id(v)) for k, v in shared._cache.items())

    forwarded = []          # (input grid, wavelength key) of earlier accepted requests without output grid
    for step, op in enumerate(case['ops']):
        kind = op[0]
        counts['deco-op:' + kind] = counts.get('deco-op:' + kind, 0) + 1
        if kind == 'get':
            gi = None if op[1] is None else pool[op[1]]
            go = None if op[2] is None else pool[op[2]]
            wl = None if op[3] is None else WLS[op[3]]
            call = lambda el: el.get_instance(gi, go, wl)
            wf = None
        else:
            j, wl = int(op[1]), WLS[int(op[2])]
            grid = outs[j] if (kind == 'bwdout' and outs[j] is not None) else pool[j]
            gi, go = (grid, None) if kind == 'fwd' else (None, grid)
            wf = deco_field(grid, wl, int(op[3]))
            call = (lambda el: el.forward(wf)) if kind == 'fwd' else (lambda el: el.backward(wf))
        n0 = len(handed)
        r1 = e1 = r2 = e2 = None
        try:
            r1 = call(shared)
        except Exception as e:
            e1 = e
        fresh = cls(**kw)
        try:
            r2 = call(fresh)
        except Exception as e:
            e2 = e
        # ---- oracle: the shared element against a freshly constructed one
        tag = 'make_agnostic_optical_element'
        if e1 is None and e2 is None:
            d = None if kind == 'get' else compare_wavefronts(r1, r2, 1e-9)
            if kind == 'get' and (r1.made_for[1] != r2.made_for[1] or not (
                    (r1.made_for[0] is None and r2.made_for[0] is None) or r1.made_for[0] == r2.made_for[0])):
                d = 'the element handed out was made for another grid or wavelength'
            if d:
                bad.append(('history-dependent-forward ' + tag, '%s step %d %r: %s' % (name, step, op, d), step))
        elif e1 is not None and e2 is not None:
            counts['deco-both-raise:' + type(e1).__name__] = counts.get('deco-both-raise:' + type(e1).__name__, 0) + 1
            if type(e1) is not type(e2):
                bad.append(('history-dependent-exception ' + tag, '%s step %d %r: shared raises %r, fresh raises %r' % (
                    name, step, op, e1, e2), step))
        elif e1 is None:
            if go is not None and isinstance(e2, RuntimeError) and 'Output grid is not known' in str(e2):
                bad.append((DECO_KNOWN, '%s step %d %r: the shared element answers the backward request, a freshly constructed '
                            'one raises %r' % (name, step, op, e2), step))
                # what it may answer with (theorem decorator_backward_answer): an element built by an earlier forward
                # request at this wavelength whose output grid is the requested grid
                if wf is not None:
                    ok = False
                    for (a, wk) in forwarded:
                        if (not wd or wk == wl_key(wl)) and (not gd or (a is not None and out_of(a) == go)):
                            ref = Gnostic(**dict(kw, **({'input_grid': a} if gd else {}), **({'wavelength': wl} if wd else {}),
                                                 gain=(kw['gain'](wl) if callable(kw['gain']) else kw['gain']))).backward(wf)
                            if compare_wavefronts(r1, ref, 1e-9) is None:
                                ok = True
                                break
                    if not ok:
                        bad.append(('decorator-backward-wrong-instance ' + tag, '%s step %d %r: the backward result is not that of any '
                                    'element built by an earlier forward request with this output grid and wavelength' % (name, step, op), step))
            else:
                bad.append(('history-dependent-forward ' + tag, '%s step %d %r: shared element answers, fresh raises %r' % (
                    name, step, op, e2), step))
        else:
            bad.append(('history-dependent-forward ' + tag, '%s step %d %r: shared element raises %r, fresh answers' % (
                name, step, op, e1), step))
        if go is None and e1 is None:        # an accepted request without output grid may have built an element
            forwarded.append((gi, None if wl is None else wl_key(wl)))
        # ---- correspondence with the model (given up for this history once the private state cannot be read;
        #      the oracle keeps running)
        if issues:
            continue
        try:
            i_name = '-' if gi is None else gname(gi)
            o_name = '-' if go is None else gname(go)
            w_name = '-' if wl is None else wname(wl_key(wl))
            out_name = '-'
            if gi is not None and out_of is not None:
                out_name = gname(out_of(gi))
            if '?' in (i_name, o_name, out_name):
                raise ValueError('grid without a name')
            if e1 is None:
                v = handed[-1] if len(handed) > n0 else None
                if v is None:
                    raise ValueError('no element was handed out')
                mi = '-' if not gd else gname(v.made_for[0])
                mw = '-' if not wd else wname(wl_key(v.made_for[1]))
                exp = 'ok id=%d inst=%s,%s cache=%s' % (inst_id(v), mi, mw, real_state())
            elif isinstance(e1, ValueError):
                exp = 'err value'
            elif isinstance(e1, RuntimeError):
                exp = 'err runtime'
            elif isinstance(e1, KeyError):
                exp = 'err key'
            else:
                raise ValueError('unexpected exception %r' % (e1,))
            lines.append('C05 dreq %s %s %s %s' % (i_name, o_name, w_name, out_name))
            expect.append(exp)
        except Exception as e:
            issues.append('step %d: %r' % (step, e))
    return bad, lines, expect, issues, counts


def deco_directed():
    D = []
    # the history of theorem decorator_counterexample: forward on grid 1, backward on that element's output grid
    D.append({'deco': 'GW-mag', 'num': 50, 'ops': [['fwd', 1, 0, 11], ['bwdout', 1, 0, 12]]})
    D.append({'deco': 'GW-mag', 'num': 50, 'ops': [['bwdout', 1, 0, 12], ['fwd', 1, 0, 11], ['bwdout', 1, 0, 12], ['bwdout', 1, 2, 13]]})
    D.append({'deco': 'W-only', 'num': 2, 'ops': [['bwd', 0, 0, 1], ['fwd', 0, 0, 2], ['bwd', 3, 0, 3], ['bwd', 3, 1, 3]]})
    D.append({'deco': 'none', 'num': 1, 'ops': [['bwd', 0, 0, 1], ['fwd', 0, 0, 2], ['bwd', 3, 2, 3], ['fwd', 4, 3, 3]]})
    # two input grids share an output grid: the 'output' entry is overwritten in place (theorem decorator_cache_exceeds_bound)
    D.append({'deco': 'GW-lens', 'num': 2, 'ops': [['fwd', 0, 0, 1], ['fwd', 1, 0, 2], ['fwd', 3, 0, 3], ['fwd', 4, 0, 4],
                                                  ['fwd', 5, 0, 5], ['bwdout', 0, 0, 6], ['fwd', 0, 0, 7], ['bwdout', 3, 0, 8]]})
    D.append({'deco': 'GW-mag', 'num': 1, 'ops': [['fwd', 0, 0, 1], ['fwd', 1, 0, 2], ['bwdout', 0, 0, 3], ['fwd', 0, 0, 4], ['bwdout', 0, 0, 5]]})
    D.append({'deco': 'G-only', 'num': 2, 'ops': [['get', None, None, 0], ['get', 0, 1, 0], ['fwd', 0, 1, 1], ['fwd', 0, 2, 2], ['bwdout', 0, 3, 3]]})
    D.append({'deco': 'GW-mag', 'num': 3, 'ops': [['get', 0, None, None], ['get', 0, None, 0], ['get', 0, None, 0], ['get', None, 0, 0]]})
    # grids 6 / 7 have the coordinates of grids 0 / 3 and other weights: each needs its own element
    D.append({'deco': 'GW-mag', 'num': 50, 'ops': [['fwd', 0, 0, 1], ['fwd', 6, 0, 2], ['bwdout', 6, 0, 3], ['bwdout', 0, 0, 4], ['fwd', 7, 0, 5],
                                                   ['fwd', 3, 0, 6], ['get', 6, None, 0], ['get', 0, None, 0]]})
    D.append({'deco': 'GW-lens', 'num': 2, 'ops': [['fwd', 0, 0, 1], ['fwd', 6, 0, 2], ['bwdout', 0, 0, 3], ['fwd', 3, 1, 4], ['fwd', 7, 1, 5]]})
    D.append({'deco': 'G-only', 'num': 1, 'ops': [['fwd', 6, 0, 1], ['fwd', 0, 0, 2], ['fwd', 6, 0, 3]]})
    return D


def deco_gen(rng):
    name = DECO_NAMES[int(rng.integers(0, len(DECO_NAMES)))]
    num = [1, 2, 3, 50][int(rng.integers(0, 4))]
    n = int(rng.integers(3, 14))
    ng = int(rng.integers(2, 9))
    nw = int(rng.integers(1, 4))
    sel = [int(x) for x in rng.permutation(8)[:ng]]
    if rng.random() < 0.5:
        # a grid and its twin with equal coordinates and other weights (pool 6 / 7) in one history
        sel[:2] = [[0, 6], [3, 7]][int(rng.integers(0, 2))]
    ops = []
    for _ in range(n):
        u = rng.random()
        j, w, seed = sel[int(rng.integers(0, ng))], int(rng.integers(0, nw)), int(rng.integers(0, 1 << 30))
        if u < 0.5:
            ops.append(['fwd', j, w, seed])
        elif u < 0.75:
            ops.append(['bwdout', j, w, seed])
        elif u < 0.9:
            ops.append(['bwd', j, w, seed])
        else:
            c = [None, j][int(rng.integers(0, 2))], [None, sel[int(rng.integers(0, ng))]][int(rng.integers(0, 2))], [None, w][int(rng.integers(0, 4)) > 0]
            ops.append(['get', c[0], c[1], c[2]])
    return {'deco': name, 'num': num, 'ops': ops}


def check_decorator(ctx):
    import hcipy as hp
    if not hasattr(hp, 'make_agnostic_optical_element'):
        ctx.extra['make_agnostic_optical_element'] = 'not exported by this tree'
        return
    cases = deco_directed() + [deco_gen(ctx.rng) for _ in range(ctx.scale(150, 3000))]
    all_lines, all_expect, owners = [], [], []
    for case in cases:
        try:
            bad, lines, expect, issues, counts = run_deco(case)
        except MachineryError:
            raise
        except Exception as e:
            bad, lines, expect, issues, counts = [], [], [], ['history aborted by %r' % (e,)], {}
        for k, v in counts.items():
            ctx.count(k, v)
        ctx.count('deco:' + case['deco'])
        ctx.count('deco-num:%d' % case['num'])
        seen = set()
        for key, what, step in bad:
            if key in seen:
                continue
            seen.add(key)
            ctx.count('deco-finding:' + key.split(' ')[0] + (' (known)' if key == DECO_KNOWN else ''))
            ctx.violation(key, what, dict(case, ops=case['ops'][:step + 1]))
        if issues:
            ctx.disagree('decorator-state', {'deco': case['deco'], 'num': case['num'], 'ops': case['ops'][:8], 'issue': issues[0]})
        nontrivial = sum(1 for op in case['ops'] if op[0] != 'get') >= 2
        ctx.case(None, nontrivial_key=('deco', case['deco'], case['num'], len(case['ops']), str(case['ops'][:3])) if nontrivial else None)
        owners.append((case, len(all_lines), len(lines)))
        all_lines += lines
        all_expect += expect
    out = ctx.model(all_lines)
    for case, start, n in owners:
        for k in range(n):
            exp = all_expect[start + k]
            if exp is None:
                continue
            ctx.traces_validated += 1
            if out[start + k] != exp:
                ctx.disagree('C05 decorator cache', {'deco': case['deco'], 'num': case['num'], 'ops': case['ops'][:k],
                                                     'line': all_lines[start + k], 'code': exp, 'model': out[start + k]})
                break


def replay_deco(case):
    bad, _, _, _, _ = run_deco(case)
    for key, what, step in bad:
        print('  fails:', key, '-', what)
    return not bad


# ---------------------------------------------------------------------------------------------
# scratch state of the Fourier objects, state by state (models: Memo, Zoom in Model/Cache.lean; Fft.loadArray)

DT_CODE = {'float32': 32, 'float64': 65, 'complex64': 64, 'complex128': 128}
CPLX_TAG = {'complex128': 128, 'complex64': 64, 'float64': 128, 'float32': 64}


def dt_code(dt):
    return DT_CODE.get(np.dtype(dt).name, 0)


def cplx_tag(dt):
    return '-' if dt is None else str(np.dtype(dt).itemsize * 8)


class FilterWatch:
    """Observes FourierFilter._transfer_function / internal_array after every call (tags and the call at which each
    was last rebuilt) and produces the model conversation `filt get …`."""

    def __init__(self):
        self.lines = ['C05 filt reset']
        self.expect = [None]
        self.calls = 0
        self.tf = None
        self.ia = None
        self.tfgen = self.iagen = 0

    def after(self, obj, field):
        self.calls += 1
        try:
            tf, ia = obj._transfer_function, obj.internal_array
            if tf is not self.tf:
                self.tf, self.tfgen = tf, self.calls
            if ia is not self.ia:
                self.ia, self.iagen = ia, self.calls
            order = ia.ndim - obj.internal_grid.ndim
            exp = 'ok tf=%d tfgen=%d ia=%d/%d/[%s] iagen=%d' % (dt_code(tf.dtype), self.tfgen, ia.ndim, dt_code(ia.dtype),
                                                               ','.join(str(int(x)) for x in ia.shape[:order]), self.iagen)
        except Exception as e:
            exp = 'unreadable: %r' % (e,)
        self.lines.append('C05 filt get %d %d [%s]' % (dt_code(field.dtype), field.grid.ndim + field.tensor_order,
                                                      ','.join(str(int(x)) for x in field.tensor_shape)))
        self.expect.append(exp)


class ZoomWatch:
    def __init__(self):
        self.lines = ['C05 zoom reset']
        self.expect = [None]

    def after(self, obj, back, dt):
        try:
            def one(lst):
                tags = set(cplx_tag(c._current_dtype) for c in lst)
                if len(tags) != 1:
                    raise ValueError('the chirp-z transforms of one direction disagree: %r' % (tags,))
                return tags.pop()
            exp = 'ok val=%d tag=%s czt=%s inv=%s' % (CPLX_TAG[dt], cplx_tag(obj._current_dtype), one(obj.czts), one(obj.inv_czts))
        except Exception as e:
            exp = 'unreadable: %r' % (e,)
        self.lines.append('C05 zoom call %d %d' % (1 if back else 0, CPLX_TAG[dt]))
        self.expect.append(exp)


def run_czt(ops):
    """ops: [dtype, seed] on one shared ChirpZTransform(6, 9, w, a).  Returns (failure or None, lines, expect)."""
    import hcipy as hp
    mk = lambda: hp.ChirpZTransform(6, 9, np.exp(-0.25j), np.exp(0.125j))
    shared = mk()
    lines, expect = ['C05 memo reset'], [None]
    for step, (dt, seed) in enumerate(ops):
        r = np.random.default_rng(seed)
        x = r.integers(-8, 9, size=(2, 6)) / 8.0
        if dt.startswith('complex'):
            x = x + 1j * r.integers(-8, 9, size=(2, 6)) / 8.0
        x = x.astype(dt)
        try:
            r1, r2 = shared(x.copy()), mk()(x.copy())
        except Exception as e:
            return 'RAISES %s: step %d: %r' % (type(e).__name__, step, e), lines, expect
        d = compare_values(r1, r2, 2e-4 if dt in ('complex64', 'float32') else 1e-9)
        if d is None and r1.dtype != r2.dtype:
            d = 'result dtypes differ'
        if d:
            return 'step %d (%s): %s' % (step, dt, d), lines, expect
        try:
            slot = cplx_tag(shared._current_dtype)
        except Exception as e:
            slot = 'unreadable: %r' % (e,)
        lines.append('C05 memo get %d 0' % CPLX_TAG[dt])
        expect.append('ok val=%d slot=%s' % (CPLX_TAG[dt], slot))
    return None, lines, expect


class _FftSpy:
    """Stands in for a module's `_fft_module`: records (a copy of) what is handed to fftn / ifftn."""

    def __init__(self, real):
        self._real = real
        self.seen = []

    def fftn(self, x, *a, **k):
        self.seen.append(np.array(x, copy=True))
        return self._real.fftn(x, *a, **k)

    def ifftn(self, x, *a, **k):
        self.seen.append(np.array(x, copy=True))
        return self._real.ifftn(x, *a, **k)

    def __getattr__(self, n):
        return getattr(self._real, n)


def frac_list(xs):
    from fractions import Fraction
    out = []
    for x in xs:
        f = Fraction(float(x))
        out.append(str(f.numerator) if f.denominator == 1 else '%d/%d' % (f.numerator, f.denominator))
    return '[' + ','.join(out) + ']'


def check_scratch_load(ctx):
    """What FastFourierTransform / FourierFilter hand to the FFT (the internal array after `[:] = 0; [cutout] = field`)
    against Fft.loadArray run by the driver on the previous contents of the buffer and the field (one-dimensional grids)."""
    import hcipy as hp
    import hcipy.fourier.fast_fourier_transform as m_fft
    import hcipy.fourier.fourier_operations as m_op
    lines, expect, where = [], [], []
    n_obj = ctx.scale(12, 150)
    for j in range(n_obj):
        N = int(ctx.rng.integers(2, 10))
        q = [1, 2, 3, 1.5, 2.5][int(ctx.rng.integers(0, 5))]
        fov = [1, 0.5, 0.75][int(ctx.rng.integers(0, 3))]
        use_filter = j % 3 == 2
        grid = hp.CartesianGrid(hp.RegularCoords([0.25], [N], [-0.25 * (N // 2)]))
        spy_fft, spy_op = _FftSpy(m_fft._fft_module), _FftSpy(m_op._fft_module)
        keep = (m_fft._fft_module, m_op._fft_module)
        try:
            if use_filter:
                obj = hp.FourierFilter(grid, lambda g: hp.Field(np.exp(-0.5j * g.x**2), g), q)
            else:
                obj = hp.FastFourierTransform(grid, q, fov, 0, False)
            m_fft._fft_module, m_op._fft_module = spy_fft, spy_op
            for step in range(int(ctx.rng.integers(2, 6))):
                back = bool(ctx.rng.integers(0, 2))
                src = grid if (use_filter or not back) else obj.output_grid
                vals = ctx.rng.integers(-8, 9, size=src.size) / 8.0 + 1j * ctx.rng.integers(-8, 9, size=src.size) / 8.0
                dt = 'complex64' if (use_filter and ctx.rng.random() < 0.4) else 'complex128'
                field = hp.Field(vals.astype(dt), src)
                if use_filter:
                    obj._compute_functions(field)       # idempotent; allocates the buffer for this dtype if needed
                    if obj.cutout is None:
                        ctx.count('load:filter-no-padding')
                        (obj.backward if back else obj.forward)(field)
                        continue
                if ctx.rng.random() < 0.3:              # arbitrary previous contents, as an earlier call may leave them
                    junk = ctx.rng.integers(-8, 9, size=obj.internal_array.shape) / 4.0 - 1j * ctx.rng.integers(-8, 9, size=obj.internal_array.shape) / 2.0
                    obj.internal_array[:] = junk
                    ctx.count('load:poisoned-buffer')
                buf = np.array(obj.internal_array, copy=True).ravel()
                spy = spy_op if use_filter else spy_fft
                del spy.seen[:]
                (obj.backward if back else obj.forward)(field)
                if not spy.seen:
                    raise ValueError('no array reached the FFT module')
                loaded = spy.seen[0].ravel()
                if not use_filter:
                    loaded = np.fft.fftshift(loaded)    # forward/backward ifftshift the array before the FFT
                    f = (np.asarray(field).astype('complex128') / obj.shift_input) if back else np.asarray(field).astype('complex128')
                else:
                    f = np.asarray(field)
                M = buf.size
                ctx.count('load:%s N%sM' % ('filter' if use_filter else ('fft-bwd' if back else 'fft-fwd'), '=' if f.size == M else '<'))
                for part in ('real', 'imag'):
                    lines.append('C05 load %d %d %s %s' % (f.size, M, frac_list(getattr(buf, part)), frac_list(getattr(f, part))))
                    expect.append('ok ' + frac_list(getattr(loaded, part)))
                    where.append({'object': 'FourierFilter' if use_filter else 'FastFourierTransform', 'N': N, 'q': q, 'fov': fov,
                                  'backward': back, 'part': part})
        except Exception as e:
            ctx.disagree('scratch-load', {'issue': 'cannot observe the array handed to the FFT: %r' % (e,), 'N': N, 'q': q, 'fov': fov})
        finally:
            m_fft._fft_module, m_op._fft_module = keep
    out = ctx.model(lines)
    for resp, exp, w in zip(out, expect, where):
        ctx.traces_validated += 1
        if resp != exp:
            ctx.disagree('C05 scratch load', dict(w, code=exp, model=resp))
            break


# ---------------------------------------------------------------------------------------------

# ---------------------------------------------------------------------------------------------
# declared dependences: what make_instance reads (observed through recording proxies) vs what the cache key retains
# (model: Cache.uncovered / Cache.shippedFamilies; theorems instance_determined_by_key, shipped_families_covered)

DIM_CODE = {'coords': 0, 'weights': 1, 'wavelength': 2}
FAMILIES = ['FraunhoferPropagator', 'FresnelPropagator', 'AngularSpectrumPropagator', 'Apodizer', 'JonesMatrixOpticalElement',
            'StepIndexFiber', 'VectorVortexCoronagraph', 'Magnifier']


def recording_grid(g, log, on):
    """A copy of `g` (same class, so every isinstance / is_regular test behaves) that records which of its attributes
    are read while `on[0]` is set: 'weights' for the weights, 'coords' for anything else.  Copies and grids derived
    from it through its own methods keep recording."""
    base = type(g)

    class Rec(base):
        def __getattribute__(self, name):
            if on[0] and not (name.startswith('__') and name.endswith('__')):
                log.add('weights' if name in ('weights', '_weights') else 'coords')
            return base.__getattribute__(self, name)
    r = g.copy()
    r.__class__ = Rec
    return r


def recording_wavelength(wl, log, on):
    """A float that records arithmetic, comparisons and NumPy ufuncs applied to it while `on[0]` is set."""
    import operator

    class RecFloat(float):
        def __array_ufunc__(self, ufunc, method, *inputs, **kwargs):
            if on[0]:
                log.add('wavelength')
            inputs = tuple(float(x) if isinstance(x, RecFloat) else x for x in inputs)
            return getattr(ufunc, method)(*inputs, **kwargs)

        def __hash__(self):
            return float.__hash__(self)

    def hook(opname, reverse):
        fn = getattr(operator, opname)

        def f(self, other):
            if on[0]:
                log.add('wavelength')
            return fn(other, float(self)) if reverse else fn(float(self), other)
        return f
    for opname in ('add', 'sub', 'mul', 'truediv', 'pow', 'floordiv', 'mod'):
        setattr(RecFloat, '__%s__' % opname, hook(opname, False))
        setattr(RecFloat, '__r%s__' % opname, hook(opname, True))
    for opname in ('lt', 'le', 'gt', 'ge', 'eq', 'ne'):
        setattr(RecFloat, '__%s__' % opname, hook(opname, False))

    def un(opname):
        fn = getattr(operator, opname)

        def f(self):
            if on[0]:
                log.add('wavelength')
            return fn(float(self))
        return f
    for opname in ('neg', 'abs', 'pos'):
        setattr(RecFloat, '__%s__' % opname, un(opname))
    return RecFloat(wl)


def observe_reads(spec, params):
    """(grid_dependent, wavelength_dependent, key distinguishes weights, dimensions read by make_instance) observed on a
    new element with the given parameter indices, for one forward and one backward request."""
    el = spec.make(params)
    gd, wd = read_flags(el)
    log, on = set(), [False]
    orig = el.make_instance

    def mi(inst, i, o, w):
        on[0] = True
        try:
            return orig(inst, i, o, w)
        finally:
            on[0] = False
    el.make_instance = mi
    calls = 0
    errs = []
    for back in (False, True):
        g = recording_grid((spec.bwd if back else spec.fwd)[0], log, on)
        w = recording_wavelength(WLS[0], log, on)
        try:
            inst = el.get_instance_data(None if back else g, g if back else None, w)
            calls += 1
        except Exception as e:
            errs.append(repr(e))
            continue
        # a result that is handed one of the grid objects the instance holds carries that grid's coordinates and weights
        try:
            import hcipy as hp
            r = (el.backward if back else el.forward)(make_wavefront(g, w, 'complex128', spec.pol[0], 3))
            held = [v for v in vars(inst).values() if isinstance(v, hp.Grid)]
            if hasattr(r, 'electric_field') and any(r.electric_field.grid is x for x in held):
                log.update(('coords', 'weights'))
        except Exception as e:
            errs.append(repr(e))
    if not calls:
        raise ValueError('no request could be made with recording proxies: %s' % errs)
    a = spec.fwd[0].copy()
    b = a.copy()
    b.weights = weights_variant(a, 1)
    kw = True
    if gd:
        kw = el._get_cache_keys(a, None, WLS[0] if wd else None)[0] != el._get_cache_keys(b, None, WLS[0] if wd else None)[0]
    return gd, wd, kw, sorted(log)


def lost_dimension_history(spec, params, lost):
    """A history whose requests differ in nothing but the dimensions the key loses."""
    f = lambda g, w, sd: ['fwd', g, w, 'complex128', int(spec.pol[0]), sd]      # noqa: E731
    b = lambda g, w, sd: ['bwd', g, w, 'complex128', int(spec.pol[0]), sd]      # noqa: E731
    N = len(spec.fwd)
    ops = [['set', n, i] for n, i in params.items() if i]
    near = []
    if 'weights' in lost:
        near = [[0, 'weights', 1], [0, 'weights', 3]]
        ops += [f(0, 0, 41), f(N, 0, 42), f(N + 1, 0, 43), b(N, 0, 44), b(0, 0, 45), f(0, 0, 46), ['both', N, N, 0], ['both', 0, 0, 0]]
    if 'coords' in lost:
        ops += [f(0, 0, 47), f(1, 0, 48), b(0, 0, 49), b(1, 0, 50), f(0, 0, 51)]
    if 'wavelength' in lost:
        ops += [f(0, 0, 52), f(0, 2, 53), b(0, 3, 54), f(0, 0, 55), b(0, 0, 56)]
    return {'spec': spec.name, 'maxN': None, 'style': 'lost-dimension', 'near': near, 'ops': ops}


def family_of(el):
    for klass in type(el).__mro__:
        if klass.__name__ in FAMILIES:
            return klass.__name__
    return None


def check_declared_reads(ctx):
    lines, expect = [], []
    fams = {}
    for spec in specs():
        variants = [{n: 0 for n in spec.values}]
        for n in spec.values:
            for idx, val in enumerate(spec.values[n][:spec.nreg[n]]):
                if idx and callable(val) and n not in spec.post:
                    variants.append(dict(variants[0], **{n: idx}))
        for params in variants:
            name = spec.name.split('-')[0]
            try:
                gd, wd, kw, reads = observe_reads(spec, params)
            except Exception as e:       # unreadable internals: broken correspondence, the other oracles keep running
                ctx.disagree('declared-reads', {'spec': spec.name, 'params': params, 'issue': 'cannot observe make_instance: %r' % (e,)})
                continue
            ctx.count('reads:%s:%s' % (name, '+'.join(reads) or 'nothing'))
            covered = {'coords': gd, 'weights': gd and kw, 'wavelength': wd}
            lost = [d for d in reads if not covered[d]]
            ctx.case(None, nontrivial_key=('reads', spec.name, json.dumps(params, sort_keys=True)) if reads else None)
            if lost:
                # a structural finding; it becomes a violation of the property only with a history on which the shared
                # element differs from a fresh one -- requests that differ in nothing but the lost dimensions
                what = ('%s.make_instance reads the %s of the request, which the instance cache key does not retain '
                        '(grid_dependent=%s, wavelength_dependent=%s, key distinguishes weights: %s)'
                        % (name, ' and the '.join(lost), gd, wd, kw))
                hist = lost_dimension_history(spec, params, lost)
                h = Hist(spec, hist)
                try:
                    h.run()
                except MachineryError:
                    raise
                except Exception as e:
                    h.state_issue('unexpected %s: %s' % (type(e).__name__, e))
                if h.bad:
                    key, w2, step = h.bad[0]
                    small = dict(hist)
                    small['ops'] = hist['ops'][:step + 1]
                    ctx.violation('undeclared-dependence %s' % name, '%s: two requests that differ there share one instance -- %s'
                                  % (what, w2), small)
                else:
                    ctx.count('uncovered-read-without-visible-effect:%s' % name)
                    ctx.disagree('declared-reads', {'spec': spec.name, 'params': params, 'issue': what + '; no history showed an effect'})
            lines.append('C05 covers %d %d [%s]' % (gd, wd, ','.join(str(DIM_CODE[d]) for d in reads)))
            expect.append(('covers', spec.name, 'ok uncovered=[%s]' % ','.join(str(DIM_CODE[d]) for d in lost)))
            try:
                fam = family_of(spec.make(params))
            except Exception:
                fam = None
            if fam is None:
                ctx.disagree('family-table', {'spec': spec.name, 'issue': 'no shipped family (Cache.shippedFamilies) in the MRO'})
                continue
            fams.setdefault(fam, []).append((spec.name, gd, wd, reads))
    for fam, rows in sorted(fams.items()):
        lines.append('C05 family %s' % fam)
        expect.append(('family', fam, rows))
    out = ctx.model(lines)
    for line, resp, exp in zip(lines, out, expect):
        ctx.traces_validated += 1
        if exp[0] == 'covers':
            if resp != exp[2]:
                ctx.disagree('declared-reads', {'spec': exp[1], 'line': line, 'code': exp[2], 'model': resp})
            continue
        m = parse_model(resp) if resp.startswith('ok') else {}
        try:
            declared = set(json.loads(m.get('reads', 'null')) or [])
        except Exception:
            declared = None
        for sname, gd, wd, reads in exp[2]:
            bad = []
            if declared is None or m.get('uncovered') != '[]':
                bad.append('row unreadable or not covered: %r' % (resp,))
            else:
                if m.get('grid') != str(int(gd)) or m.get('wl') != str(int(wd)):
                    bad.append('flags: code grid=%d wl=%d, table grid=%s wl=%s' % (gd, wd, m.get('grid'), m.get('wl')))
                extra = [d for d in reads if DIM_CODE[d] not in declared]
                if extra:
                    bad.append('make_instance reads %s, the table does not list it' % extra)
            if bad:
                ctx.disagree('family-table', {'family': exp[1], 'spec': sname, 'issues': bad})
                break


def replay_reads(case):
    spec = spec_by_name(case['reads'])
    gd, wd, kw, reads = observe_reads(spec, case['params'])
    covered = {'coords': gd, 'weights': gd and kw, 'wavelength': wd}
    lost = [d for d in reads if not covered[d]]
    if lost:
        print('  fails: make_instance reads %s; the key retains %s' % (reads, sorted(d for d in covered if covered[d])))
    return not lost


def check_case(ctx, case, lines_out):
    spec = spec_by_name(case['spec'])
    h = Hist(spec, case)
    try:
        h.run()
    except MachineryError:
        raise
    except Exception as e:
        # not one of the guarded calls into the element: the observation itself broke. Broken
        # correspondence for this history, never a crash of the run.
        import traceback
        h.state_issue('history aborted by %r at %s' % (e, traceback.format_exc().strip().split('\n')[-3].strip()))
    for k, v in h.counts.items():
        ctx.count(k, v)
    if h.state_issues:
        ctx.count('histories_with_unreadable_state')
        ctx.disagree('cache-state', {'spec': case['spec'], 'maxN': case['maxN'], 'ops': case['ops'][:8],
                                     'issue': h.state_issues[0], 'n_issues': len(h.state_issues)})
    for key, what, step in h.bad:
        small = dict(case)
        small['ops'] = case['ops'][:step + 1]
        ctx.violation(key, what, small)
    lines_out.append((case, h.lines, h.expect))
    return h


def compare_with_model(ctx, batch):
    all_lines = []
    for case, lines, expect in batch:
        all_lines += lines
    out = ctx.model(all_lines)
    pos = 0
    for case, lines, expect in batch:
        for k, (line, exp) in enumerate(zip(lines, expect)):
            resp = out[pos + k]
            if exp is None:
                continue
            ctx.traces_validated += 1
            m = parse_model(resp)
            diffs = []
            for f in ('status', 'id', 'key', 'ver', 'num', 'cache', 'slot', 'rebuilt', 'res', 'built'):
                if f in exp and exp[f] != m.get(f):
                    diffs.append('%s: code %s model %s' % (f, exp[f], m.get(f)))
            if 'how' in m:
                ctx.count('how:' + m['how'])
            if diffs:
                ctx.disagree('C05 cache', {'spec': case['spec'], 'maxN': case['maxN'], 'near': case.get('near', []),
                                           'ops': case['ops'][:k], 'line': line,
                                           'diffs': diffs})
                break
        pos += len(lines)


def run(ctx):
    ctx.rule = ('histories of forward / backward / get_instance_data(both grids) / clear_cache / public-setter operations on one '
                'shared instance of every AgnosticOpticalElement subclass shipped (24 classes; small regular grids 4-12 px incl. '
                'shifted and non-square ones, 5 wavelengths >= 1e-6 apart, complex128/complex64, scalar and polarised wavefronts, '
                'max_in_cache in {default 11, 1, 2, 3, 4}); directed corpus first. Oracle: every result vs a freshly constructed '
                'element with the current parameter values (built through the constructor where the setter name is a constructor '
                'argument); correspondence: instance identity/key/version handed out, _num_in_cache and the ordered '
                '_instance_data_cache after every step vs the Lean model. Non-trivial = history with at least one cache hit '
                'and one creation; distinct by (element, style, maxN, #ops, #distinct requests). Fourier objects: shared vs '
                'fresh object on random forward/backward histories with alternating dtypes and tensor shapes.')
    ctx.assumptions += ['xxhash of distinct test grids does not collide',
                        'Grid.__eq__/__hash__ ignore weights (C10); the test grids carry automatic and explicit weights (scalar '
                        'and per point), the instance cache key is expected to distinguish them']
    un = uncovered_classes()
    ctx.extra['agnostic_classes_not_covered'] = un
    if un:
        raise MachineryError('AgnosticOpticalElement subclasses without a registry entry: %s' % un)
    # setters found by introspection
    setters = {}
    skipped = {}
    attrs = {}
    attrs_skipped = []
    for spec in specs():
        attrs[spec.name] = []
        spec.ok, spec.mutable = {}, {}
        try:
            el = spec.make({n: 0 for n in spec.values})
        except Exception as e:      # the constructor of the code under test raises: a violation, not a crash
            ctx.violation('raises %s %s' % (type(e).__name__, spec.name.split('-')[0]),
                          'constructing the element raised %r' % (e,), {'spec': spec.name, 'maxN': None, 'ops': []})
            setters[spec.name] = []
            continue
        names = public_setters(el)
        use = []
        for n in names:
            if n in spec.skip:
                skipped['%s.%s' % (spec.name, n)] = spec.skip[n]
            elif n not in spec.values or spec.nreg[n] < 2:
                raise MachineryError('public setter %s.%s has no alternative value in the registry' % (spec.name, n))
            else:
                use.append(n)
        setters[spec.name] = use
        # parameters without a setter: plain public attributes that are constructor arguments (changed by assignment followed
        # by the documented clear_cache())
        plain = plain_parameters(el)
        attrs[spec.name] = [n for n in plain if n in spec.values and spec.nreg[n] >= 2]
        for n in plain:
            if n not in attrs[spec.name]:
                attrs_skipped.append('%s.%s' % (spec.name, n))
        probe_values(spec, use + attrs[spec.name])
    ctx.extra['setters_exercised'] = setters
    ctx.extra['setters_skipped'] = skipped
    ctx.extra['plain_parameters_exercised'] = attrs
    ctx.extra['plain_parameters_without_alternative_value'] = attrs_skipped
    ctx.extra['values_accepted'] = {
        '%s.%s' % (sp.name, n): {'registered': sp.nreg[n], 'lifted_accepted': [value_kind(sp.values[n][i]) for i in ix if i >= sp.nreg[n]],
                                 'mutable_forms': len(sp.mutable[n])}
        for sp in specs() if sp.ok for n, ix in sp.ok.items()}

    cases = directed()
    per = ctx.scale(24, 400)
    for spec in specs():
        k = per if spec.name.split('-')[0] != 'VectorVortexCoronagraph' else max(2, per // 4)
        for j in range(k):
            cases.append(gen_case(ctx.rng, spec, setters[spec.name], big=(ctx.tier == 'thorough' and j % 4 == 0)))
    # every setter at least once, right after use
    for spec in specs():
        for n in setters[spec.name]:
            for idx in [i for i in spec.ok[n] if i]:
                cases.append({'spec': spec.name, 'maxN': None, 'style': 'each-setter',
                              'ops': [['fwd', 0, 0, 'complex128', 0, 5], ['bwd', 0, 0, 'complex128', 0, 6], ['set', n, idx],
                                      ['fwd', 0, 0, 'complex128', 0, 5], ['bwd', 0, 0, 'complex128', 0, 6],
                                      ] + ([['set', n, 0], ['fwd', 0, 0, 'complex128', 0, 5]] if n not in spec.post else [])})
    # the two setter classes (the setter changes the kind of the value; the setter is given the object it already holds, edited
    # in place), for every public setter and every plain public parameter
    for spec in specs():
        extra_cases = setter_cases(ctx, spec, setters[spec.name], 'set') + setter_cases(ctx, spec, attrs[spec.name], 'attr')
        if spec.name.split('-')[0] == 'VectorVortexCoronagraph' and ctx.tier != 'thorough':
            extra_cases = extra_cases[:4]
        cases += extra_cases
    # every parameter value that is a callable (of the grid, of the wavelength, of both) x several wavelengths and grids on
    # one object, in both directions, revisiting earlier combinations
    for spec in specs():
        for n in spec.values:
            for idx, val in enumerate(spec.values[n]):
                if not callable(val) or (idx and n not in setters[spec.name]) or (idx >= spec.nreg[n] and idx not in spec.ok.get(n, [])):
                    continue
                f = lambda g, w, sd: ['fwd', g, w, 'complex128', 0, sd]      # noqa: E731
                b = lambda g, w, sd: ['bwd', g, w, 'complex128', 0, sd]      # noqa: E731
                ops = ([['set', n, idx]] if idx else []) + [f(0, 0, 21), f(0, 2, 22), f(0, 1, 23), b(0, 2, 24), f(1, 3, 25), f(0, 3, 26),
                                                            b(1, 0, 27), f(0, 4, 28), f(0, 2, 29), b(0, 0, 30), f(1, 2, 31), f(0, 0, 32)]
                cases.append({'spec': spec.name, 'maxN': [None, 2][(idx + len(n)) % 2], 'style': 'callable-parameter', 'ops': ops})
                ctx.count('callable-parameter:%s.%s' % (spec.name, n))
    batch = []
    owned = {}       # (element, type of an owned Fourier object) -> [objects seen, objects used with both precisions]
    for case in cases:
        h = check_case(ctx, case, batch)
        reqs = set(tuple(op[:3]) for op in case['ops'] if op[0] in ('fwd', 'bwd', 'both'))
        nreq = sum(1 for op in case['ops'] if op[0] in ('fwd', 'bwd', 'both'))
        ctx.count('elem:' + case['spec'])
        ctx.count('style:' + case['style'])
        ctx.count('maxN:%s' % case['maxN'])
        if case.get('init'):
            ctx.count('histories_constructed_with_another_value')
        ctx.count('instances_created', len(h.insts))
        if any(n[1] == 'weights' for n in case.get('near', [])) or any(op[0] == 'mut' and op[2] == 'weights' for op in case['ops']):
            ctx.count('histories_with_grids_differing_in_weights_only')
        for k2, v2 in h.counts.items():
            if k2.startswith(('grid-equal-coordinates', 'key-collision')):
                ctx.count(k2, v2)
        for tname, tags, _ in h.fourier_seen.values():
            owned.setdefault((case['spec'], tname), [0, 0])
            owned[(case['spec'], tname)][0] += 1
            if len(tags) > 1:
                owned[(case['spec'], tname)][1] += 1
        fw_set = set((op[1], op[2]) for op in case['ops'] if op[0] == 'fwd')
        bw_set = set((op[1], op[2]) for op in case['ops'] if op[0] == 'bwd')
        if fw_set & bw_set:
            ctx.count('histories_same_grid_fwd_and_bwd')
            if spec_by_name(case['spec']).lens:
                ctx.count('histories_same_grid_fwd_and_bwd_lens')
        nontrivial = len(h.insts) >= 1 and nreq > len(h.insts)
        ctx.case({'spec': case['spec'], 'maxN': case['maxN'], 'ops': case['ops'][:6]} if nontrivial else None,
                 nontrivial_key=(case['spec'], case['style'], case['maxN'], len(case['ops']), len(reqs)) if nontrivial else None)
    compare_with_model(ctx, batch)
    # every kind of Fourier object an element owns must have been driven with both precisions on one instance
    ctx.extra['owned_fourier_objects'] = {'%s:%s' % k: {'objects': v[0], 'used_with_both_precisions': v[1]} for k, v in sorted(owned.items())}
    lacking = ['%s:%s' % k for k, v in sorted(owned.items()) if v[1] == 0]
    ctx.extra['owned_fourier_objects_never_flipped'] = lacking

    check_wavelength_keys(ctx)

    # Fourier objects
    O = fourier_objects()
    nf = ctx.scale(8, 100)
    memo_lines = []
    memo_expect = []
    watchers = []
    names = list(O) + random_fft_names(ctx.rng, ctx.scale(12, 150))
    for name in names:
        for j in range(nf if not name.startswith('FFT gen ') else max(2, nf // 3)):
            n = int(ctx.rng.integers(3, 10))
            ops = [[int(ctx.rng.integers(0, 2)), str(ctx.rng.choice(FDT)), list(FTS[int(ctx.rng.integers(0, len(FTS)))]),
                    int(ctx.rng.integers(0, 1 << 30))] for _ in range(n)]
            if j == 0:
                # directed: one component of the state changes at a time (tensor shape at equal order and precision; precision
                # at equal shape; order; direction; real fields)
                ops = [[0, 'complex128', [2], 1], [0, 'complex128', [3], 2], [1, 'complex64', [3], 3], [1, 'complex64', [2], 4],
                       [0, 'complex64', [], 5], [0, 'complex128', [], 6], [1, 'complex128', [2, 2], 7], [0, 'float64', [2, 2], 8],
                       [0, 'float32', [2], 9], [1, 'float32', [3], 10], [1, 'complex128', [3], 11], [0, 'complex64', [3], 12]]
            bad, memo = run_fourier(name, ops, watchers)
            ctx.count('fourier:' + name.split(' ')[0])
            ctx.case(None, nontrivial_key=('fourier', name, j))
            if bad and bad.startswith('RAISES '):
                ctx.violation('raises %s %s' % (bad.split(' ')[1].rstrip(':'), name.split(' ')[0]), '%s: %s' % (name, bad),
                              {'fourier': name, 'ops': ops})
            elif bad:
                ctx.violation('fourier-history %s' % name.split(' ')[0], '%s: %s' % (name, bad), {'fourier': name, 'ops': ops})
            if memo:
                memo_lines.append('C05 memo reset')
                memo_expect.append(None)
                for tag, drop, slot in memo:
                    if drop is None:
                        ctx.disagree('fourier-state', {'object': name, 'issue': slot})
                        break
                    memo_lines.append('C05 memo get %d %d' % (tag, drop))
                    memo_expect.append((tag, slot, name))
    out = ctx.model(memo_lines)
    for resp, exp in zip(out, memo_expect):
        if exp is None:
            continue
        ctx.traces_validated += 1
        want = 'ok val=%d slot=%s' % (exp[0], exp[1])
        if resp != want:
            ctx.disagree('C05 memo', {'object': exp[2], 'code': want, 'model': resp})
            break
    # FourierFilter (two cells with compound tags) and ZoomFastFourierTransform (a cell owning chirp-z cells), state by state
    for w in watchers:
        kind = type(w).__name__
        ctx.count('fourier-state:' + kind)
        out = ctx.model(w.lines)
        for line, resp, exp in zip(w.lines, out, w.expect):
            if exp is None:
                continue
            ctx.traces_validated += 1
            if resp != exp:
                ctx.disagree('C05 ' + kind, {'line': line, 'code': exp, 'model': resp, 'history': w.lines[:12]})
                break
    # ChirpZTransform used directly: _current_dtype against the memo cell; results against fresh objects
    for j in range(ctx.scale(20, 300)):
        ops = [[str(ctx.rng.choice(FDT)), int(ctx.rng.integers(0, 1 << 30))] for _ in range(int(ctx.rng.integers(3, 9)))]
        bad, lines, expect = run_czt(ops)
        ctx.count('fourier:CZT')
        ctx.case(None, nontrivial_key=('czt', j))
        if bad and bad.startswith('RAISES '):
            ctx.violation('raises %s CZT' % bad.split(' ')[1].rstrip(':'), 'ChirpZTransform: ' + bad, {'czt': ops})
        elif bad:
            ctx.violation('fourier-history CZT', 'ChirpZTransform: ' + bad, {'czt': ops})
        out = ctx.model(lines)
        for line, resp, exp in zip(lines, out, expect):
            if exp is None:
                continue
            ctx.traces_validated += 1
            if resp != exp:
                ctx.disagree('C05 memo', {'object': 'ChirpZTransform', 'line': line, 'code': exp, 'model': resp})
                break
    check_scratch_load(ctx)
    check_decorator(ctx)
    check_declared_reads(ctx)
    # generator coverage (last, so that every oracle has run): a kind of Fourier object an element owns that no history
    # drove with both precisions on one instance is a gap of this machinery -- unless violations cut the histories short
    if lacking and not ctx.violations:
        raise MachineryError('no history used these owned Fourier objects with both precisions on one instance: %s' % lacking)


def replay(ctx, case):
    if 'wavelengths' in case:
        try:
            return replay_wavelengths(case)
        except Exception as e:
            print('  fails: raises %r' % (e,))
            return False
    if 'deco' in case:
        return replay_deco(case)
    if 'reads' in case:
        try:
            return replay_reads(case)
        except Exception as e:
            print('  fails: raises %r' % (e,))
            return False
    if 'czt' in case:
        bad, _, _ = run_czt(case['czt'])
        if bad:
            print('  fails:', bad)
        return not bad
    if 'fourier' in case:
        bad, _ = run_fourier(case['fourier'], case['ops'])
        if bad:
            print('  fails:', bad)
        return not bad
    h = Hist(spec_by_name(case['spec']), case)
    h.run()
    for key, what, step in h.bad:
        print('  fails:', key, '-', what)
    return not h.bad
